(* Model of /repo/peers.go : StoragePeerRepository (C20).

   State: the ordered peer list (Go: repo.list).  Go also keeps repo.lookup, a map from
   address to the *same* Peer object that is in the list; every write to lookup is paired
   with an append of that object to the list and Add refuses an address already in lookup,
   so lookup(a) is always "the last list element whose address is a".  The model therefore
   derives the lookup from the list ([find_last]) and the agreement of the two is theorem
   [C20_lookup_agrees] (over the list, the only carrier).

   Bytes are [N] values (each < 256 when they come from a real file); integer fields are
   little-endian.  Go's int32 arithmetic is made explicit with [wrap32].

   The boolean [guard] selects between the code as found at the pinned commit
   ([guard = false]: a negative address size or a negative peer count reaches [make] and
   panics) and the repaired code ([guard = true]); see DESIGN.md D14. *)
From BR Require Import Base.Prelude.

Open Scope N_scope.

Record peer := mkPeer { p_addr : list N; p_score : Z; p_time : N }.

Definition two31 : Z := 2147483648%Z.
Definition two32 : Z := 4294967296%Z.
Definition wrap32 (z : Z) : Z := (((z + two31) mod two32) - two31)%Z.
Definition in_int32 (z : Z) : bool := ((- two31 <=? z) && (z <? two31))%Z.

(* little-endian 32-bit encode/decode over N *)
Definition le32 (n : N) : list N :=
  [n mod 256; (n / 256) mod 256; (n / 65536) mod 256; (n / 16777216) mod 256].
Definition dec32 (b0 b1 b2 b3 : N) : N := b0 + 256 * b1 + 65536 * b2 + 16777216 * b3.
Definition u32_of_int32 (z : Z) : N := Z.to_N (z mod two32).
Definition int32_of_u32 (n : N) : Z := wrap32 (Z.of_N n).

Definition enc_peer (p : peer) : list N :=
  le32 (N.of_nat (length (p_addr p))) ++ p_addr p ++ le32 (u32_of_int32 (p_score p)) ++ le32 (p_time p).

Definition save_bytes (l : list peer) : list N :=
  0 :: le32 (N.of_nat (length l)) ++ concat (map enc_peer l).

(* readPeer: Ok (peer, rest) | Err | Panic *)
Definition read_peer (guard : bool) (bs : list N) : res (peer * list N) :=
  match bs with
  | b0 :: b1 :: b2 :: b3 :: r =>
      let sz := int32_of_u32 (dec32 b0 b1 b2 b3) in
      if (sz <? 0)%Z then (if guard then Err 10 else Panic 1)
      else
        let szn := Z.to_N sz in
        if N.of_nat (length r) <? szn then Err 11   (* io.ReadFull fails *)
        else
          let a := firstn (N.to_nat szn) r in
          match skipn (N.to_nat szn) r with
          | s0 :: s1 :: s2 :: s3 :: r1 =>
              match r1 with
              | t0 :: t1 :: t2 :: t3 :: r2 =>
                  Ok (mkPeer a (int32_of_u32 (dec32 s0 s1 s2 s3)) (dec32 t0 t1 t2 t3), r2)
              | _ => Err 13
              end
          | _ => Err 12
          end
  | _ => Err 9
  end.

(* the "for { readPeer ... }" loop of Load: stops at the first error; a panic propagates *)
Fixpoint read_peers (guard : bool) (fuel : nat) (bs : list N) : res (list peer) :=
  match fuel with
  | O => Ok []
  | S f =>
      match read_peer guard bs with
      | Ok (p, rest) =>
          match read_peers guard f rest with
          | Ok l => Ok (p :: l)
          | Err e => Err e
          | Panic s => Panic s
          end
      | Err _ => Ok []
      | Panic s => Panic s
      end
  end.

(* Load on the stored bytes.  Err: the Go function returns an error and the list is empty. *)
Definition load_bytes (guard : bool) (bs : list N) : res (list peer) :=
  match bs with
  | [] => Err 1
  | v :: r =>
      if negb (v =? 0) then Err 2
      else match r with
           | c0 :: c1 :: c2 :: c3 :: r' =>
               let count := int32_of_u32 (dec32 c0 c1 c2 c3) in
               if (count <? 0)%Z && negb guard then Panic 2
               else read_peers guard (length r') r'
           | _ => Err 3
           end
  end.

(* ---------------------------------------------------------------------------------- *)
(* Repository state machine                                                            *)

Record st := mkSt { plist : list peer; store : option (list N) }.
Definition init : st := mkSt [] None.

Definition addr_eqb (a b : list N) : bool := list_eqb N.eqb a b.

Fixpoint has_addr (a : list N) (l : list peer) : bool :=
  match l with [] => false | p :: l' => addr_eqb a (p_addr p) || has_addr a l' end.

(* apply f to the last element with address a *)
Fixpoint upd_last (a : list N) (f : peer -> peer) (l : list peer) : list peer :=
  match l with
  | [] => []
  | p :: l' => if has_addr a l' then p :: upd_last a f l'
               else if addr_eqb a (p_addr p) then f p :: l' else p :: l'
  end.

Fixpoint find_last (a : list N) (l : list peer) : option peer :=
  match l with
  | [] => None
  | p :: l' => match find_last a l' with
               | Some q => Some q
               | None => if addr_eqb a (p_addr p) then Some p else None
               end
  end.

Definition in_range (lo hi : Z) (p : peer) : bool :=
  ((lo <=? p_score p) && ((hi =? -1) || (p_score p <=? hi)))%Z.

Definition get (lo hi : Z) (l : list peer) : list peer := filter (in_range lo hi) l.

Inductive op :=
| OAdd (a : list N)
| OScore (a : list N) (delta : Z) (now : N)
| OTime (a : list N) (now : N)
| OGet (lo hi : Z)
| OCount
| OSave
| OLoad
| OClear
| OCut (k : nat)              (* the stored file is cut short after k bytes (crash) *)
| OCorrupt (bs : list N).     (* the stored file is replaced by arbitrary bytes *)

Inductive out :=
| RBool (b : bool)
| RPeers (l : list peer)
| RNum (n : N)
| RUnit
| RLoad (code : N)            (* 0 = nil error; otherwise an error was returned *)
| RPanic (site : N).

Definition step (guard : bool) (s : st) (o : op) : st * out :=
  match o with
  | OAdd a => if has_addr a (plist s) then (s, RBool false)
              else (mkSt (plist s ++ [mkPeer a 0 0]) (store s), RBool true)
  | OScore a d now =>
      if has_addr a (plist s)
      then (mkSt (upd_last a (fun p => mkPeer (p_addr p) (wrap32 (p_score p + d)) now) (plist s))
                 (store s), RBool true)
      else (s, RBool false)
  | OTime a now =>
      if has_addr a (plist s)
      then (mkSt (upd_last a (fun p => mkPeer (p_addr p) (p_score p) now) (plist s)) (store s),
            RBool true)
      else (s, RBool false)
  | OGet lo hi => (s, RPeers (get lo hi (plist s)))
  | OCount => (s, RNum (N.of_nat (length (plist s))))
  | OSave => (mkSt (plist s) (Some (save_bytes (plist s))), RUnit)
  | OLoad =>
      match store s with
      | None => (mkSt [] None, RLoad 0)
      | Some bs =>
          match load_bytes guard bs with
          | Ok l => (mkSt l (store s), RLoad 0)
          | Err e => (mkSt [] (store s), RLoad e)
          | Panic site => (mkSt [] (store s), RPanic site)
          end
      end
  | OClear => (mkSt [] None, RUnit)
  | OCut k => (mkSt (plist s) (option_map (firstn k) (store s)), RUnit)
  | OCorrupt bs => (mkSt (plist s) (Some bs), RUnit)
  end.

Fixpoint run (guard : bool) (s : st) (ops : list op) : st * list out :=
  match ops with
  | [] => (s, [])
  | o :: ops' => let '(s1, r) := step guard s o in
                 let '(s2, rs) := run guard s1 ops' in (s2, r :: rs)
  end.

Definition final (guard : bool) (ops : list op) : st := fst (run guard init ops).
Definition outs (guard : bool) (ops : list op) : list out := snd (run guard init ops).

(* ---------------------------------------------------------------------------------- *)
(* Executable comparison used by the correspondence check (cases files).               *)

Definition peer_eqb (p q : peer) : bool :=
  addr_eqb (p_addr p) (p_addr q) && (p_score p =? p_score q)%Z && (p_time p =? p_time q).

(* [Get] shuffles its result: compare as multisets (remove one occurrence at a time). *)
Fixpoint remove_one (p : peer) (l : list peer) : option (list peer) :=
  match l with
  | [] => None
  | q :: l' => if peer_eqb p q then Some l'
               else match remove_one p l' with Some r => Some (q :: r) | None => None end
  end.
Fixpoint perm_eqb (l1 l2 : list peer) : bool :=
  match l1 with
  | [] => match l2 with [] => true | _ => false end
  | p :: l1' => match remove_one p l2 with Some r => perm_eqb l1' r | None => false end
  end.

Definition out_eqb (a b : out) : bool :=
  match a, b with
  | RBool x, RBool y => Bool.eqb x y
  | RPeers x, RPeers y => perm_eqb x y
  | RNum x, RNum y => x =? y
  | RUnit, RUnit => true
  | RLoad x, RLoad y => Bool.eqb (x =? 0) (y =? 0)   (* error wording is not pinned *)
  | RPanic _, RPanic _ => true
  | _, _ => false
  end.

Fixpoint outs_eqb (l1 l2 : list out) : bool :=
  match l1, l2 with
  | [], [] => true
  | a :: l1', b :: l2' => out_eqb a b && outs_eqb l1' l2'
  | _, _ => false
  end.

(* Deciders evaluated on the *implementation's* observations (failing-input search):
   no panic was observed; every Get result is duplicate-free by address. *)
Fixpoint addrs_nodup (l : list peer) : bool :=
  match l with [] => true | p :: l' => negb (has_addr (p_addr p) l') && addrs_nodup l' end.
Definition out_sane (o : out) : bool :=
  match o with RPanic _ => false | RPeers l => addrs_nodup l | _ => true end.

(* one case = an op list and the outputs observed on the implementation *)
Definition is_corrupt (o : op) : bool := match o with OCorrupt _ => true | _ => false end.
Definition no_panic_out (o : out) : bool := match o with RPanic _ => false | _ => true end.
Definition case_ok (c : list op * list out) : bool :=
  outs_eqb (outs true (fst c)) (snd c) &&
  (if existsb is_corrupt (fst c) then forallb no_panic_out (snd c) else forallb out_sane (snd c)).
Definition mismatches (cs : list (list op * list out)) : list N := failing (map case_ok cs).
