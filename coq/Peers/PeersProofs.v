(* Proofs about the peer address book model (C20). *)
From BR Require Import Base.Prelude Peers.Peers.

Open Scope N_scope.

(* ------------------------------------------------------------------------------- *)
(* integer codecs                                                                   *)

Lemma dec32_le32 n : n < 4294967296 ->
  dec32 (n mod 256) ((n / 256) mod 256) ((n / 65536) mod 256) ((n / 16777216) mod 256) = n.
Proof. unfold dec32. intros H. lia. Qed.

Lemma wrap32_id z : in_int32 z = true -> wrap32 z = z.
Proof. unfold in_int32, wrap32, two31, two32. intros H. lia. Qed.

Lemma wrap32_range z : in_int32 (wrap32 z) = true.
Proof. unfold in_int32, wrap32, two31, two32. lia. Qed.

Lemma wrap32_add z d : wrap32 (wrap32 z + d) = wrap32 (z + d).
Proof. unfold wrap32, two31, two32. lia. Qed.

Lemma int32_roundtrip z : in_int32 z = true -> int32_of_u32 (u32_of_int32 z) = z.
Proof.
  unfold int32_of_u32, u32_of_int32, in_int32, wrap32, two31, two32. intros H.
  rewrite Z2N.id by lia. lia.
Qed.

Lemma u32_of_int32_lt z : u32_of_int32 z < 4294967296.
Proof. unfold u32_of_int32, two32. lia. Qed.

Lemma int32_of_len (n : nat) : (Z.of_nat n < two31)%Z ->
  int32_of_u32 (N.of_nat n) = Z.of_nat n.
Proof. unfold int32_of_u32, wrap32, two31, two32. intros H. lia. Qed.

(* ------------------------------------------------------------------------------- *)
(* record codec                                                                     *)

Definition wf_peer (p : peer) : Prop :=
  (Z.of_nat (length (p_addr p)) < two31)%Z /\ in_int32 (p_score p) = true /\ p_time p < 4294967296.

Lemma enc_peer_length p : length (enc_peer p) = (12 + length (p_addr p))%nat.
Proof. unfold enc_peer, le32. rewrite !app_length. simpl. lia. Qed.

Lemma read_peer_enc g p rest : wf_peer p -> read_peer g (enc_peer p ++ rest) = Ok (p, rest).
Proof.
  intros (Hl & Hs & Ht). unfold enc_peer.
  set (n := N.of_nat (length (p_addr p))).
  assert (Hn : n < 4294967296) by (unfold n, two31 in *; lia).
  unfold le32 at 1. cbn [app read_peer].
  rewrite (dec32_le32 n Hn). unfold n. rewrite int32_of_len by exact Hl.
  destruct (Z.of_nat (length (p_addr p)) <? 0)%Z eqn:E; [lia|].
  replace (Z.to_N (Z.of_nat (length (p_addr p)))) with n by (unfold n; lia).
  replace (N.to_nat n) with (length (p_addr p)) by (unfold n; lia).
  rewrite !app_length.
  match goal with |- context [N.of_nat ?x <? n] => destruct (N.of_nat x <? n) eqn:E2 end;
    [unfold n in E2; lia|].
  rewrite <- !app_assoc.
  rewrite firstn_app, Nat.sub_diag, firstn_all. cbn [firstn]. rewrite app_nil_r.
  rewrite skipn_app, Nat.sub_diag, skipn_all. cbn [skipn app].
  unfold le32. cbn [app].
  rewrite (dec32_le32 _ (u32_of_int32_lt _)), (dec32_le32 _ Ht), int32_roundtrip by exact Hs.
  destruct p; reflexivity.
Qed.

(* success needs at least the declared number of bytes *)
Lemma read_peer_ok_len g b0 b1 b2 b3 r q rest :
  read_peer g (b0 :: b1 :: b2 :: b3 :: r) = Ok (q, rest) ->
  (0 <= int32_of_u32 (dec32 b0 b1 b2 b3))%Z /\
  (Z.to_nat (int32_of_u32 (dec32 b0 b1 b2 b3)) + 8 <= length r)%nat.
Proof.
  cbn [read_peer]. set (sz := int32_of_u32 (dec32 b0 b1 b2 b3)).
  destruct (sz <? 0)%Z eqn:E; [destruct g; discriminate|].
  destruct (N.of_nat (length r) <? Z.to_N sz) eqn:E2; [discriminate|].
  destruct (skipn (N.to_nat (Z.to_N sz)) r) as [|s0 [|s1 [|s2 [|s3 r1]]]] eqn:Es; try discriminate.
  destruct r1 as [|t0 [|t1 [|t2 [|t3 r2]]]]; try discriminate.
  intros _. split; [lia|].
  assert (Hlen : length (skipn (N.to_nat (Z.to_N sz)) r) = (length r - N.to_nat (Z.to_N sz))%nat)
    by apply skipn_length.
  rewrite Es in Hlen. cbn [length] in Hlen. lia.
Qed.

Lemma read_peer_guard_no_panic bs site : read_peer true bs <> Panic site.
Proof.
  destruct bs as [|b0 [|b1 [|b2 [|b3 r]]]]; cbn [read_peer]; try discriminate.
  destruct (_ <? 0)%Z; [discriminate|].
  destruct (N.of_nat (length r) <? _); [discriminate|].
  destruct (skipn _ r) as [|s0 [|s1 [|s2 [|s3 r1]]]]; try discriminate.
  destruct r1 as [|t0 [|t1 [|t2 [|t3 r2]]]]; discriminate.
Qed.

Lemma read_peer_proper_prefix g p k : wf_peer p -> (k < length (enc_peer p))%nat ->
  exists e, read_peer g (firstn k (enc_peer p)) = Err e.
Proof.
  intros Hw Hk. pose proof Hw as (Hl & Hs & Ht).
  rewrite enc_peer_length in Hk.
  destruct k as [|[|[|[|k]]]];
    try (unfold enc_peer, le32; cbn [app firstn read_peer]; eexists; reflexivity).
  unfold enc_peer. unfold le32 at 1. cbn [app firstn].
  set (n := N.of_nat (length (p_addr p))).
  set (r := firstn k _).
  assert (Hn : n < 4294967296) by (unfold n, two31 in *; lia).
  assert (Hsz : int32_of_u32 (dec32 (n mod 256) ((n / 256) mod 256) ((n / 65536) mod 256)
                                    ((n / 16777216) mod 256)) = Z.of_nat (length (p_addr p))).
  { rewrite (dec32_le32 n Hn). unfold n. apply int32_of_len. exact Hl. }
  destruct (read_peer g (_ :: _ :: _ :: _ :: r)) as [[q rest]|e|site] eqn:E.
  - apply read_peer_ok_len in E. rewrite Hsz in E. destruct E as [_ E].
    assert (length r <= k)%nat by (unfold r; apply firstn_le_length). lia.
  - eexists; reflexivity.
  - exfalso. cbn [read_peer] in E. rewrite Hsz in E.
    destruct (Z.of_nat (length (p_addr p)) <? 0)%Z eqn:E0; [lia|].
    destruct (N.of_nat (length r) <? _); [discriminate|].
    destruct (skipn _ r) as [|s0 [|s1 [|s2 [|s3 r1]]]]; try discriminate.
    destruct r1 as [|t0 [|t1 [|t2 [|t3 r2]]]]; discriminate.
Qed.

(* number of complete records within the first k bytes of the record area *)
Fixpoint complete (k : nat) (l : list peer) : nat :=
  match l with
  | [] => 0
  | p :: l' => if (length (enc_peer p) <=? k)%nat
               then S (complete (k - length (enc_peer p)) l') else 0
  end.

Lemma complete_le k l : (complete k l <= length l)%nat.
Proof.
  revert k; induction l as [|p l IH]; intros k; cbn [complete length]; [lia|].
  destruct (_ <=? _)%nat; [specialize (IH (k - length (enc_peer p))%nat)|]; lia.
Qed.

Lemma complete_all l k : (length (concat (map enc_peer l)) <= k)%nat -> complete k l = length l.
Proof.
  revert k; induction l as [|p l IH]; intros k; cbn [complete length map concat]; [reflexivity|].
  rewrite app_length. intros H.
  destruct (Nat.leb_spec (length (enc_peer p)) k); [|lia].
  rewrite IH by lia. reflexivity.
Qed.

Definition wf_list (l : list peer) : Prop :=
  Forall wf_peer l /\ (Z.of_nat (length l) < two31)%Z.

Lemma concat_enc_length_ge l : (length l <= length (concat (map enc_peer l)))%nat.
Proof.
  induction l as [|p l IH]; cbn [map concat length]; [lia|].
  rewrite app_length, enc_peer_length. lia.
Qed.

(* [read_peers] only needs fuel for the records it can actually read. *)
Lemma read_peers_prefix' g l : Forall wf_peer l -> forall k f, (complete k l <= f)%nat ->
  read_peers g f (firstn k (concat (map enc_peer l))) = Ok (firstn (complete k l) l).
Proof.
  induction 1 as [|p l Hp Hl IH]; intros k f Hf.
  - cbn [map concat complete firstn]. rewrite firstn_nil.
    destruct f; [reflexivity|]. cbn [read_peers read_peer]. reflexivity.
  - cbn [map concat complete] in *. rewrite firstn_app.
    destruct (Nat.leb_spec (length (enc_peer p)) k) as [Hle|Hlt].
    + destruct f as [|f]; [lia|].
      rewrite firstn_all2 by exact Hle.
      cbn [read_peers]. rewrite read_peer_enc by exact Hp.
      rewrite IH by lia. reflexivity.
    + replace (k - length (enc_peer p))%nat with 0%nat by lia.
      cbn [firstn]. rewrite app_nil_r.
      destruct (read_peer_proper_prefix g p k Hp Hlt) as [e He].
      destruct f; [reflexivity|].
      cbn [read_peers]. rewrite He. reflexivity.
Qed.

Lemma complete_le_bytes k l : (complete k l <= k)%nat.
Proof.
  revert k; induction l as [|p l IH]; intros k; cbn [complete]; [lia|].
  destruct (Nat.leb_spec (length (enc_peer p)) k); [|lia].
  specialize (IH (k - length (enc_peer p))%nat). rewrite enc_peer_length in *. lia.
Qed.

Theorem load_prefix g l k : wf_list l -> (5 <= k)%nat ->
  load_bytes g (firstn k (save_bytes l)) = Ok (firstn (complete (k - 5) l) l).
Proof.
  intros [Hw Hlen] Hk. unfold save_bytes, le32.
  destruct k as [|[|[|[|[|k]]]]]; try lia.
  cbn [app firstn load_bytes N.eqb negb].
  set (n := N.of_nat (length l)).
  assert (Hn : n < 4294967296) by (unfold n, two31 in *; lia).
  rewrite (dec32_le32 n Hn). unfold n. rewrite int32_of_len by exact Hlen.
  destruct (Z.of_nat (length l) <? 0)%Z eqn:E; [lia|]. cbn [andb].
  replace (S (S (S (S (S k)))) - 5)%nat with k by lia.
  apply read_peers_prefix'; [exact Hw|].
  rewrite firstn_length.
  pose proof (complete_le_bytes k l). pose proof (complete_le k l).
  pose proof (concat_enc_length_ge l).
  destruct (Nat.le_gt_cases (length (concat (map enc_peer l))) k) as [Hall|Hpart].
  - rewrite complete_all by exact Hall. lia.
  - lia.
Qed.

Theorem load_short g l k : (k < 5)%nat -> exists e, load_bytes g (firstn k (save_bytes l)) = Err e.
Proof.
  intros Hk. unfold save_bytes, le32.
  destruct k as [|[|[|[|[|k]]]]]; try lia; cbn [app firstn load_bytes N.eqb negb];
    eexists; reflexivity.
Qed.

Theorem load_save g l : wf_list l -> load_bytes g (save_bytes l) = Ok l.
Proof.
  intros Hw.
  rewrite <- (firstn_all (save_bytes l)).
  assert (H5 : (5 <= length (save_bytes l))%nat)
    by (unfold save_bytes, le32; cbn [length app]; lia).
  rewrite load_prefix by assumption.
  rewrite complete_all, firstn_all; [reflexivity|].
  unfold save_bytes, le32. cbn [length app]. lia.
Qed.

(* ------------------------------------------------------------------------------- *)
(* never a panic with the guard; the code as found does panic                        *)

Lemma read_peers_guard_no_panic f : forall bs site, read_peers true f bs <> Panic site.
Proof.
  induction f as [|f IH]; intros bs site; cbn [read_peers]; [discriminate|].
  destruct (read_peer true bs) as [[p rest]|e|s] eqn:E.
  - specialize (IH rest). destruct (read_peers true f rest); try discriminate.
    intros H; inversion H; subst. eapply IH; reflexivity.
  - discriminate.
  - exfalso. eapply read_peer_guard_no_panic; exact E.
Qed.

Theorem load_total bs site : load_bytes true bs <> Panic site.
Proof.
  destruct bs as [|v [|c0 [|c1 [|c2 [|c3 r]]]]]; cbn [load_bytes]; try discriminate;
    destruct (negb (v =? 0)); try discriminate.
  rewrite andb_false_r. apply read_peers_guard_no_panic.
Qed.

(* D14 witnesses on the code as found: a negative count, and a negative address size *)
Theorem load_as_found_refuted :
  (exists bs site, load_bytes false bs = Panic site /\ length bs = 5%nat) /\
  (exists bs site, load_bytes false bs = Panic site /\ hd 1 (tl bs) = 1).
Proof.
  split.
  - exists [0; 255; 255; 255; 255], 2. split; vm_compute; reflexivity.
  - exists [0; 1; 0; 0; 0; 255; 255; 255; 255], 1. split; vm_compute; reflexivity.
Qed.

(* ------------------------------------------------------------------------------- *)
(* list / lookup agreement, NoDup invariant                                          *)

Lemma addr_eqb_eq a b : addr_eqb a b = true <-> a = b.
Proof. apply list_eqb_spec. intros x y. apply N.eqb_eq. Qed.

Lemma has_addr_In a l : has_addr a l = true <-> In a (map p_addr l).
Proof.
  induction l as [|p l IH]; cbn [has_addr map In]; [split; [discriminate|tauto]|].
  rewrite orb_true_iff, addr_eqb_eq, IH. split; intros [E|E]; auto.
Qed.

Lemma upd_last_addrs a f l : (forall p, p_addr (f p) = p_addr p) ->
  map p_addr (upd_last a f l) = map p_addr l.
Proof.
  intros Hf. induction l as [|p l IH]; cbn [upd_last map]; [reflexivity|].
  destruct (has_addr a l); cbn [map]; [rewrite IH; reflexivity|].
  destruct (addr_eqb a (p_addr p)); cbn [map]; [rewrite Hf|]; reflexivity.
Qed.

Lemma upd_last_Forall (P : peer -> Prop) a f l :
  (forall p, P p -> P (f p)) -> Forall P l -> Forall P (upd_last a f l).
Proof.
  intros Hf. induction 1 as [|p l Hp Hl IH]; cbn [upd_last]; [constructor|].
  destruct (has_addr a l); [constructor; assumption|].
  destruct (addr_eqb a (p_addr p)); constructor; auto.
Qed.

Lemma find_last_some a l p : find_last a l = Some p -> In p l /\ p_addr p = a.
Proof.
  induction l as [|q l IH]; cbn [find_last]; [discriminate|].
  destruct (find_last a l) as [r|] eqn:E.
  - intros H; inversion H; subst. destruct (IH eq_refl). split; [right|]; assumption.
  - destruct (addr_eqb a (p_addr q)) eqn:Ea; [|discriminate].
    intros H; inversion H; subst. apply addr_eqb_eq in Ea. split; [left; reflexivity|auto].
Qed.

Lemma find_last_none a l : find_last a l = None <-> has_addr a l = false.
Proof.
  induction l as [|q l IH]; cbn [find_last has_addr]; [tauto|].
  destruct (find_last a l) eqn:E.
  - split; [discriminate|]. intros H. apply orb_false_iff in H as [_ H].
    apply IH in H. discriminate.
  - destruct IH as [IH _]. rewrite (IH eq_refl), orb_false_r.
    destruct (addr_eqb a (p_addr q)); split; congruence.
Qed.

Lemma NoDup_addr_unique l p q :
  NoDup (map p_addr l) -> In p l -> In q l -> p_addr p = p_addr q -> p = q.
Proof.
  induction l as [|x l IH]; cbn [map]; intros Hn Hp Hq E; [destruct Hp|].
  inversion Hn as [|? ? Hx Hn']; subst.
  destruct Hp as [->|Hp], Hq as [->|Hq]; auto.
  - exfalso. apply Hx. rewrite E. apply in_map. exact Hq.
  - exfalso. apply Hx. rewrite <- E. apply in_map. exact Hp.
Qed.

(* the lookup and the list describe the same set: an address is found exactly when the
   list holds it, what is found is a list element, and with NoDup it is the only one *)
Theorem lookup_agrees l a :
  (has_addr a l = true <-> exists p, find_last a l = Some p) /\
  (forall p, find_last a l = Some p -> In p l /\ p_addr p = a) /\
  (NoDup (map p_addr l) -> forall p q, find_last a l = Some p -> In q l -> p_addr q = a -> q = p).
Proof.
  split; [|split].
  - destruct (find_last a l) as [p|] eqn:E.
    + split; [eauto|]. intros _. destruct (has_addr a l) eqn:H; [reflexivity|].
      apply find_last_none in H. congruence.
    + apply find_last_none in E. rewrite E. split; [discriminate|]. intros [p Hp]. discriminate.
  - intros p. apply find_last_some.
  - intros Hn p q Hp Hq Ea. apply find_last_some in Hp as [Hp1 Hp2].
    eapply NoDup_addr_unique; eauto. congruence.
Qed.

Lemma NoDup_firstn {A} (l : list A) n : NoDup l -> NoDup (firstn n l).
Proof.
  intros H. rewrite <- (firstn_skipn n l) in H. eapply NoDup_app_l. exact H.
Qed.

Lemma Forall_firstn {A} (P : A -> Prop) l n : Forall P l -> Forall P (firstn n l).
Proof.
  intros H. rewrite <- (firstn_skipn n l) in H. apply Forall_app in H. tauto.
Qed.

Definition wf_store (so : option (list N)) : Prop :=
  match so with
  | None => True
  | Some bs => exists l0 k, NoDup (map p_addr l0) /\ wf_list l0 /\ bs = firstn k (save_bytes l0)
  end.

Definition wf_st (s : st) : Prop :=
  NoDup (map p_addr (plist s)) /\ wf_list (plist s) /\ wf_store (store s).

Definition wf_op (o : op) : Prop :=
  match o with
  | OAdd a => (Z.of_nat (length a) < two31)%Z
  | OScore _ _ now | OTime _ now => now < 4294967296
  | OCorrupt _ => False
  | _ => True
  end.

(* the address book never holds 2^31 peers in any run we consider: it is a hypothesis on
   the history (each Add is a stated step), made explicit as a bound on the op count *)
Definition small (ops : list op) (s : st) : Prop :=
  (Z.of_nat (length (plist s) + length ops) < two31)%Z.

Lemma step_wf g s o : wf_st s -> wf_op o -> (Z.of_nat (length (plist s)) + 1 < two31)%Z ->
  wf_st (fst (step g s o)).
Proof.
  intros (Hn & [Hw Hlen] & Hs) Ho Hsmall. destruct o; cbn [step wf_op] in *.
  - (* Add *)
    destruct (has_addr a (plist s)) eqn:E; cbn [fst]; [unfold wf_st, wf_list; cbn [fst plist store]; repeat split; assumption|].
    cbn [plist store]. unfold wf_st, wf_list; cbn [fst plist store]; repeat split; try assumption.
    + rewrite map_app. cbn [map]. apply NoDup_snoc; [assumption|].
      cbn [p_addr]. intros H. apply has_addr_In in H. congruence.
    + apply Forall_app; split; [assumption|]. constructor; [|constructor].
      unfold wf_peer; cbn [p_addr p_score p_time]. split; [assumption|split; [reflexivity|lia]].
    + rewrite app_length. cbn [length]. lia.
  - (* Score *)
    destruct (has_addr a (plist s)); cbn [fst plist store]; [|unfold wf_st, wf_list; cbn [fst plist store]; repeat split; assumption].
    unfold wf_st, wf_list; cbn [fst plist store]; repeat split; try assumption.
    + rewrite upd_last_addrs by reflexivity. assumption.
    + apply upd_last_Forall; [|assumption]. intros p (H1 & H2 & H3).
      unfold wf_peer; cbn [p_addr p_score p_time]. split; [assumption|split; [apply wrap32_range|assumption]].
    + rewrite <- (map_length p_addr), upd_last_addrs, map_length by reflexivity. assumption.
  - (* Time *)
    destruct (has_addr a (plist s)); cbn [fst plist store]; [|unfold wf_st, wf_list; cbn [fst plist store]; repeat split; assumption].
    unfold wf_st, wf_list; cbn [fst plist store]; repeat split; try assumption.
    + rewrite upd_last_addrs by reflexivity. assumption.
    + apply upd_last_Forall; [|assumption]. intros p (H1 & H2 & H3).
      unfold wf_peer; cbn [p_addr p_score p_time]. split; [assumption|split; assumption].
    + rewrite <- (map_length p_addr), upd_last_addrs, map_length by reflexivity. assumption.
  - unfold wf_st, wf_list; cbn [fst plist store]; repeat split; assumption.
  - unfold wf_st, wf_list; cbn [fst plist store]; repeat split; assumption.
  - (* Save *)
    cbn [fst plist store]. unfold wf_st, wf_list; cbn [fst plist store]; repeat split; try assumption.
    exists (plist s), (length (save_bytes (plist s))). unfold wf_st, wf_list; cbn [fst plist store]; repeat split; try assumption.
    symmetry; apply firstn_all.
  - (* Load *)
    destruct (store s) as [bs|] eqn:Es; cbn [fst].
    2:{ unfold wf_st, wf_list; cbn [fst plist store]; repeat split; cbn [plist store map length]; try constructor; try (unfold two31; lia). }
    destruct Hs as (l0 & k & Hn0 & [Hw0 Hlen0] & ->).
    assert (Hempty : wf_st (mkSt [] (Some (firstn k (save_bytes l0))))).
    { unfold wf_st, wf_list; cbn [fst plist store]; repeat split; cbn [plist store map length]; try constructor; try (unfold two31; lia).
      exists l0, k. unfold wf_st, wf_list; cbn [fst plist store]; repeat split; assumption. }
    destruct (Nat.le_gt_cases 5 k) as [H5|H5].
    + rewrite load_prefix by (try split; assumption). cbn [fst].
      unfold wf_st, wf_list; cbn [fst plist store]; repeat split; cbn [plist store].
      * rewrite <- firstn_map. apply NoDup_firstn. assumption.
      * apply Forall_firstn. assumption.
      * rewrite firstn_length. lia.
      * exists l0, k. unfold wf_st, wf_list; cbn [fst plist store]; repeat split; assumption.
    + destruct (load_short g l0 k H5) as [e He]. rewrite He. exact Hempty.
  - (* Clear *)
    unfold wf_st, wf_list; cbn [fst plist store]; repeat split; cbn [fst plist store map length]; try constructor; try (unfold two31; lia).
  - (* Cut *)
    cbn [fst plist store]. unfold wf_st, wf_list; cbn [fst plist store]; repeat split; try assumption.
    destruct (store s) as [bs|]; cbn [option_map wf_store]; [|exact I].
    destruct Hs as (l0 & k0 & Hn0 & Hw0 & ->).
    exists l0, (Nat.min k k0). split; [assumption|split; [assumption|apply firstn_firstn]].
  - destruct Ho.
Qed.

Lemma step_length g s o : (length (plist (fst (step g s o))) <= length (plist s) + 1)%nat \/
                          (exists bs, store s = Some bs /\ o = OLoad).
Proof.
  destruct o; cbn [step]; try (left; cbn [fst plist]; lia).
  - destruct (has_addr a (plist s)); cbn [fst plist]; [left; lia|]. rewrite app_length. cbn [length]. left; lia.
  - destruct (has_addr a (plist s)); cbn [fst plist]; left; [|lia].
    rewrite <- (map_length p_addr), upd_last_addrs, map_length by reflexivity. lia.
  - destruct (has_addr a (plist s)); cbn [fst plist]; left; [|lia].
    rewrite <- (map_length p_addr), upd_last_addrs, map_length by reflexivity. lia.
  - destruct (store s) as [bs|]; [right; eauto|left; cbn [fst plist length]; lia].
  - left. cbn [fst plist length]. lia.
Qed.

(* Every reachable state of a history without arbitrary file corruption holds each address
   once.  [bounded]: the history never grows the book to 2^31 entries (int32 count field). *)
Fixpoint bounded (g : bool) (s : st) (ops : list op) : Prop :=
  match ops with
  | [] => True
  | o :: ops' => (Z.of_nat (length (plist s)) + 1 < two31)%Z /\ bounded g (fst (step g s o)) ops'
  end.

Theorem run_wf g ops : forall s, wf_st s -> Forall wf_op ops -> bounded g s ops ->
  wf_st (fst (run g s ops)).
Proof.
  induction ops as [|o ops IH]; intros s Hs Ho Hb; cbn [run]; [exact Hs|].
  inversion Ho; subst. destruct Hb as [Hb1 Hb2].
  pose proof (step_wf g s o Hs H1 Hb1) as Hs1.
  destruct (step g s o) as [s1 r] eqn:E1. cbn [fst] in *.
  specialize (IH s1 Hs1 H2 Hb2).
  destruct (run g s1 ops) as [s2 rs]. exact IH.
Qed.

Lemma init_wf : wf_st init.
Proof. repeat split; cbn; try constructor. Qed.

Theorem nodup_reachable g ops : Forall wf_op ops -> bounded g init ops ->
  NoDup (map p_addr (plist (final g ops))).
Proof. intros Ho Hb. apply (run_wf g ops init init_wf Ho Hb). Qed.

(* ------------------------------------------------------------------------------- *)
(* Get returns exactly the peers in range                                            *)

Theorem get_exact lo hi l p :
  In p (get lo hi l) <->
  In p l /\ (lo <= p_score p)%Z /\ (hi = (-1)%Z \/ (p_score p <= hi)%Z).
Proof.
  unfold get. rewrite filter_In. unfold in_range. split.
  - intros [H1 H2]. split; [assumption|]. lia.
  - intros [H1 H2]. split; [assumption|]. lia.
Qed.

Theorem get_sublist lo hi l : NoDup (map p_addr l) -> NoDup (map p_addr (get lo hi l)).
Proof.
  unfold get. induction l as [|p l IH]; cbn [filter map]; intros H; [constructor|].
  inversion H; subst. destruct (in_range lo hi p); cbn [map]; [|auto].
  constructor; [|auto]. intros Hin. apply H2.
  apply in_map_iff in Hin as (q & Hq1 & Hq2). apply filter_In in Hq2 as [Hq2 _].
  rewrite <- Hq1. apply in_map. exact Hq2.
Qed.

(* ------------------------------------------------------------------------------- *)
(* score = sum of the deltas applied (int32 arithmetic)                              *)

Definition score_of (a : list N) (l : list peer) : option Z := option_map p_score (find_last a l).

Lemma find_last_upd_same a f l : (forall p, p_addr (f p) = p_addr p) ->
  find_last a (upd_last a f l) = option_map f (find_last a l).
Proof.
  intros Hf. induction l as [|p l IH]; cbn [upd_last find_last]; [reflexivity|].
  destruct (has_addr a l) eqn:Eh.
  - cbn [find_last]. rewrite IH.
    destruct (find_last a l) eqn:Ef; [reflexivity|]. apply find_last_none in Ef. congruence.
  - apply find_last_none in Eh. rewrite Eh.
    destruct (addr_eqb a (p_addr p)) eqn:Ea; cbn [find_last]; rewrite Eh.
    + rewrite Hf, Ea. reflexivity.
    + rewrite Ea. reflexivity.
Qed.

Lemma find_last_upd_other a b f l : (forall p, p_addr (f p) = p_addr p) -> a <> b ->
  find_last b (upd_last a f l) = find_last b l.
Proof.
  intros Hf Hab. induction l as [|p l IH]; cbn [upd_last find_last]; [reflexivity|].
  destruct (has_addr a l) eqn:Eh; cbn [find_last].
  - rewrite IH. reflexivity.
  - destruct (addr_eqb a (p_addr p)) eqn:Ea; cbn [find_last]; [|reflexivity].
    rewrite Hf. destruct (find_last b l); [reflexivity|].
    apply addr_eqb_eq in Ea. subst a.
    destruct (addr_eqb b (p_addr p)) eqn:Eb; [|reflexivity].
    apply addr_eqb_eq in Eb. congruence.
Qed.

Lemma find_last_app_new a b l q : p_addr q = b ->
  find_last a (l ++ [q]) = if addr_eqb a b then Some q else find_last a l.
Proof.
  intros Hq. induction l as [|p l IH]; cbn [app find_last].
  - rewrite Hq. reflexivity.
  - rewrite IH. destruct (addr_eqb a b); reflexivity.
Qed.

(* the running sum for address a over a history: None until a is added *)
Fixpoint ssum (a : list N) (ops : list op) (acc : option Z) : option Z :=
  match ops with
  | [] => acc
  | OAdd b :: r =>
      ssum a r (if addr_eqb a b then match acc with None => Some 0%Z | _ => acc end else acc)
  | OScore b d _ :: r =>
      ssum a r (if addr_eqb a b then option_map (fun z => (z + d)%Z) acc else acc)
  | _ :: r => ssum a r acc
  end.

Definition keeps_book (o : op) : bool :=
  match o with OLoad | OClear => false | _ => true end.

Theorem score_is_sum g a ops : forall s acc,
  forallb keeps_book ops = true ->
  score_of a (plist s) = option_map wrap32 acc ->
  score_of a (plist (fst (run g s ops))) = option_map wrap32 (ssum a ops acc).
Proof.
  induction ops as [|o ops IH]; intros s acc Hk Hs; cbn [run ssum]; [exact Hs|].
  cbn [forallb] in Hk. apply andb_true_iff in Hk as [Hk1 Hk2].
  destruct (step g s o) as [s1 r] eqn:E1.
  assert (Hfst : fst (let '(s2, rs) := run g s1 ops in (s2, r :: rs)) = fst (run g s1 ops))
    by (destruct (run g s1 ops); reflexivity).
  rewrite Hfst. clear Hfst.
  assert (Hgoal : forall acc1, score_of a (plist s1) = option_map wrap32 acc1 ->
            score_of a (plist (fst (run g s1 ops))) = option_map wrap32 (ssum a ops acc1))
    by (intros acc1 H1; exact (IH s1 acc1 Hk2 H1)).
  clear IH.
  destruct o; cbn [step keeps_book] in *; try discriminate;
    try (inversion E1; subst s1; apply Hgoal; exact Hs).
  - (* Add *)
    apply Hgoal. unfold score_of in *.
    destruct (has_addr a0 (plist s)) eqn:Eh; inversion E1; subst s1; cbn [plist].
    + destruct (addr_eqb a a0) eqn:Ea; [|exact Hs].
      apply addr_eqb_eq in Ea; subst a0.
      destruct acc; [exact Hs|]. cbn [option_map] in Hs.
      destruct (find_last a (plist s)) eqn:Ef; [discriminate|].
      apply find_last_none in Ef. congruence.
    + rewrite (find_last_app_new a a0) by reflexivity.
      destruct (addr_eqb a a0) eqn:Ea; [|exact Hs].
      apply addr_eqb_eq in Ea; subst a0. apply find_last_none in Eh.
      rewrite Eh in Hs. destruct acc; [discriminate|]. reflexivity.
  - (* Score *)
    apply Hgoal. unfold score_of in *.
    destruct (has_addr a0 (plist s)) eqn:Eh; inversion E1; subst s1; cbn [plist].
    + destruct (addr_eqb a a0) eqn:Ea.
      * apply addr_eqb_eq in Ea; subst a0. rewrite find_last_upd_same by reflexivity.
        destruct (find_last a (plist s)) as [p|]; destruct acc as [z|]; cbn [option_map] in *;
          try discriminate; [|reflexivity].
        inversion Hs as [Hs']. rewrite Hs'. cbn [p_score]. rewrite wrap32_add. reflexivity.
      * rewrite find_last_upd_other; [exact Hs|reflexivity|].
        intros ->. rewrite (proj2 (addr_eqb_eq a a) eq_refl) in Ea. discriminate.
    + destruct (addr_eqb a a0) eqn:Ea; [|exact Hs].
      apply addr_eqb_eq in Ea; subst a0. apply find_last_none in Eh. rewrite Eh in *.
      destruct acc; [discriminate|reflexivity].
  - (* Time *)
    apply Hgoal. unfold score_of in *.
    destruct (has_addr a0 (plist s)) eqn:Eh; inversion E1; subst s1; cbn [plist]; [|exact Hs].
    destruct (list_eq_dec N.eq_dec a0 a) as [->|Hne].
    + rewrite find_last_upd_same by reflexivity.
      destruct (find_last a (plist s)); cbn [option_map] in *; exact Hs.
    + rewrite find_last_upd_other by (try reflexivity; assumption). exact Hs.
Qed.

(* Load replaces the book by what is stored *)
Lemma load_replaces g l1 l2 st0 : step g (mkSt l1 st0) OLoad = step g (mkSt l2 st0) OLoad.
Proof. reflexivity. Qed.

Lemma load_is_stored g l0 bs l :
  load_bytes g bs = Ok l -> plist (fst (step g (mkSt l0 (Some bs)) OLoad)) = l.
Proof. intros H. cbn [step store]. rewrite H. reflexivity. Qed.
