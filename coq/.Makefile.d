Base/Prelude.vo Base/Prelude.glob Base/Prelude.v.beautified Base/Prelude.required_vo: Base/Prelude.v 
Base/Prelude.vio: Base/Prelude.v 
Base/Prelude.vos Base/Prelude.vok Base/Prelude.required_vos: Base/Prelude.v 
Base/Compact.vo Base/Compact.glob Base/Compact.v.beautified Base/Compact.required_vo: Base/Compact.v Base/Prelude.vo
Base/Compact.vio: Base/Compact.v Base/Prelude.vio
Base/Compact.vos Base/Compact.vok Base/Compact.required_vos: Base/Compact.v Base/Prelude.vos
Gen/Consts.vo Gen/Consts.glob Gen/Consts.v.beautified Gen/Consts.required_vo: Gen/Consts.v 
Gen/Consts.vio: Gen/Consts.v 
Gen/Consts.vos Gen/Consts.vok Gen/Consts.required_vos: Gen/Consts.v 
Gen/Fixture.vo Gen/Fixture.glob Gen/Fixture.v.beautified Gen/Fixture.required_vo: Gen/Fixture.v 
Gen/Fixture.vio: Gen/Fixture.v 
Gen/Fixture.vos Gen/Fixture.vok Gen/Fixture.required_vos: Gen/Fixture.v 
Peers/Peers.vo Peers/Peers.glob Peers/Peers.v.beautified Peers/Peers.required_vo: Peers/Peers.v Base/Prelude.vo
Peers/Peers.vio: Peers/Peers.v Base/Prelude.vio
Peers/Peers.vos Peers/Peers.vok Peers/Peers.required_vos: Peers/Peers.v Base/Prelude.vos
Peers/PeersProofs.vo Peers/PeersProofs.glob Peers/PeersProofs.v.beautified Peers/PeersProofs.required_vo: Peers/PeersProofs.v Base/Prelude.vo Peers/Peers.vo
Peers/PeersProofs.vio: Peers/PeersProofs.v Base/Prelude.vio Peers/Peers.vio
Peers/PeersProofs.vos Peers/PeersProofs.vok Peers/PeersProofs.required_vos: Peers/PeersProofs.v Base/Prelude.vos Peers/Peers.vos
Headers/Tree.vo Headers/Tree.glob Headers/Tree.v.beautified Headers/Tree.required_vo: Headers/Tree.v Base/Prelude.vo Base/Compact.vo
Headers/Tree.vio: Headers/Tree.v Base/Prelude.vio Base/Compact.vio
Headers/Tree.vos Headers/Tree.vok Headers/Tree.required_vos: Headers/Tree.v Base/Prelude.vos Base/Compact.vos
Headers/Splits.vo Headers/Splits.glob Headers/Splits.v.beautified Headers/Splits.required_vo: Headers/Splits.v Base/Prelude.vo Gen/Consts.vo Headers/Tree.vo
Headers/Splits.vio: Headers/Splits.v Base/Prelude.vio Gen/Consts.vio Headers/Tree.vio
Headers/Splits.vos Headers/Splits.vok Headers/Splits.required_vos: Headers/Splits.v Base/Prelude.vos Gen/Consts.vos Headers/Tree.vos
Headers/SplitsProofs.vo Headers/SplitsProofs.glob Headers/SplitsProofs.v.beautified Headers/SplitsProofs.required_vo: Headers/SplitsProofs.v Base/Prelude.vo Gen/Consts.vo Headers/Tree.vo Headers/Splits.vo
Headers/SplitsProofs.vio: Headers/SplitsProofs.v Base/Prelude.vio Gen/Consts.vio Headers/Tree.vio Headers/Splits.vio
Headers/SplitsProofs.vos Headers/SplitsProofs.vok Headers/SplitsProofs.required_vos: Headers/SplitsProofs.v Base/Prelude.vos Gen/Consts.vos Headers/Tree.vos Headers/Splits.vos
Headers/Pow.vo Headers/Pow.glob Headers/Pow.v.beautified Headers/Pow.required_vo: Headers/Pow.v Base/Prelude.vo Base/Compact.vo Gen/Consts.vo Headers/Tree.vo
Headers/Pow.vio: Headers/Pow.v Base/Prelude.vio Base/Compact.vio Gen/Consts.vio Headers/Tree.vio
Headers/Pow.vos Headers/Pow.vok Headers/Pow.required_vos: Headers/Pow.v Base/Prelude.vos Base/Compact.vos Gen/Consts.vos Headers/Tree.vos
Headers/PowProofs.vo Headers/PowProofs.glob Headers/PowProofs.v.beautified Headers/PowProofs.required_vo: Headers/PowProofs.v Base/Prelude.vo Base/Compact.vo Gen/Consts.vo Headers/Tree.vo Headers/Pow.vo
Headers/PowProofs.vio: Headers/PowProofs.v Base/Prelude.vio Base/Compact.vio Gen/Consts.vio Headers/Tree.vio Headers/Pow.vio
Headers/PowProofs.vos Headers/PowProofs.vok Headers/PowProofs.required_vos: Headers/PowProofs.v Base/Prelude.vos Base/Compact.vos Gen/Consts.vos Headers/Tree.vos Headers/Pow.vos
Headers/TreeBasics.vo Headers/TreeBasics.glob Headers/TreeBasics.v.beautified Headers/TreeBasics.required_vo: Headers/TreeBasics.v Base/Prelude.vo Base/Compact.vo Headers/Tree.vo
Headers/TreeBasics.vio: Headers/TreeBasics.v Base/Prelude.vio Base/Compact.vio Headers/Tree.vio
Headers/TreeBasics.vos Headers/TreeBasics.vok Headers/TreeBasics.required_vos: Headers/TreeBasics.v Base/Prelude.vos Base/Compact.vos Headers/Tree.vos
Headers/TreeInv.vo Headers/TreeInv.glob Headers/TreeInv.v.beautified Headers/TreeInv.required_vo: Headers/TreeInv.v Base/Prelude.vo Base/Compact.vo Headers/Tree.vo Headers/TreeBasics.vo
Headers/TreeInv.vio: Headers/TreeInv.v Base/Prelude.vio Base/Compact.vio Headers/Tree.vio Headers/TreeBasics.vio
Headers/TreeInv.vos Headers/TreeInv.vok Headers/TreeInv.required_vos: Headers/TreeInv.v Base/Prelude.vos Base/Compact.vos Headers/Tree.vos Headers/TreeBasics.vos
Headers/TreeSteps.vo Headers/TreeSteps.glob Headers/TreeSteps.v.beautified Headers/TreeSteps.required_vo: Headers/TreeSteps.v Base/Prelude.vo Base/Compact.vo Headers/Tree.vo Headers/TreeBasics.vo Headers/TreeInv.vo
Headers/TreeSteps.vio: Headers/TreeSteps.v Base/Prelude.vio Base/Compact.vio Headers/Tree.vio Headers/TreeBasics.vio Headers/TreeInv.vio
Headers/TreeSteps.vos Headers/TreeSteps.vok Headers/TreeSteps.required_vos: Headers/TreeSteps.v Base/Prelude.vos Base/Compact.vos Headers/Tree.vos Headers/TreeBasics.vos Headers/TreeInv.vos
Headers/TreeStream.vo Headers/TreeStream.glob Headers/TreeStream.v.beautified Headers/TreeStream.required_vo: Headers/TreeStream.v Base/Prelude.vo Base/Compact.vo Headers/Tree.vo Headers/TreeBasics.vo Headers/TreeInv.vo Headers/TreeSteps.vo
Headers/TreeStream.vio: Headers/TreeStream.v Base/Prelude.vio Base/Compact.vio Headers/Tree.vio Headers/TreeBasics.vio Headers/TreeInv.vio Headers/TreeSteps.vio
Headers/TreeStream.vos Headers/TreeStream.vok Headers/TreeStream.required_vos: Headers/TreeStream.v Base/Prelude.vos Base/Compact.vos Headers/Tree.vos Headers/TreeBasics.vos Headers/TreeInv.vos Headers/TreeSteps.vos
Headers/TreeProps.vo Headers/TreeProps.glob Headers/TreeProps.v.beautified Headers/TreeProps.required_vo: Headers/TreeProps.v Base/Prelude.vo Base/Compact.vo Headers/Tree.vo Headers/TreeBasics.vo Headers/TreeInv.vo Headers/TreeSteps.vo Headers/TreeStream.vo
Headers/TreeProps.vio: Headers/TreeProps.v Base/Prelude.vio Base/Compact.vio Headers/Tree.vio Headers/TreeBasics.vio Headers/TreeInv.vio Headers/TreeSteps.vio Headers/TreeStream.vio
Headers/TreeProps.vos Headers/TreeProps.vok Headers/TreeProps.required_vos: Headers/TreeProps.v Base/Prelude.vos Base/Compact.vos Headers/Tree.vos Headers/TreeBasics.vos Headers/TreeInv.vos Headers/TreeSteps.vos Headers/TreeStream.vos
Headers/TreeExample.vo Headers/TreeExample.glob Headers/TreeExample.v.beautified Headers/TreeExample.required_vo: Headers/TreeExample.v Base/Prelude.vo Base/Compact.vo Headers/Tree.vo Headers/TreeBasics.vo Headers/TreeInv.vo Headers/TreeSteps.vo Headers/TreeProps.vo
Headers/TreeExample.vio: Headers/TreeExample.v Base/Prelude.vio Base/Compact.vio Headers/Tree.vio Headers/TreeBasics.vio Headers/TreeInv.vio Headers/TreeSteps.vio Headers/TreeProps.vio
Headers/TreeExample.vos Headers/TreeExample.vok Headers/TreeExample.required_vos: Headers/TreeExample.v Base/Prelude.vos Base/Compact.vos Headers/Tree.vos Headers/TreeBasics.vos Headers/TreeInv.vos Headers/TreeSteps.vos Headers/TreeProps.vos
Headers/TreeLocator.vo Headers/TreeLocator.glob Headers/TreeLocator.v.beautified Headers/TreeLocator.required_vo: Headers/TreeLocator.v Base/Prelude.vo Base/Compact.vo Headers/Tree.vo Headers/TreeBasics.vo Headers/TreeInv.vo Headers/TreeSteps.vo Headers/TreeStream.vo Headers/TreeProps.vo Blocks/Merkle.vo
Headers/TreeLocator.vio: Headers/TreeLocator.v Base/Prelude.vio Base/Compact.vio Headers/Tree.vio Headers/TreeBasics.vio Headers/TreeInv.vio Headers/TreeSteps.vio Headers/TreeStream.vio Headers/TreeProps.vio Blocks/Merkle.vio
Headers/TreeLocator.vos Headers/TreeLocator.vok Headers/TreeLocator.required_vos: Headers/TreeLocator.v Base/Prelude.vos Base/Compact.vos Headers/Tree.vos Headers/TreeBasics.vos Headers/TreeInv.vos Headers/TreeSteps.vos Headers/TreeStream.vos Headers/TreeProps.vos Blocks/Merkle.vos
Blocks/Reach.vo Blocks/Reach.glob Blocks/Reach.v.beautified Blocks/Reach.required_vo: Blocks/Reach.v Base/Prelude.vo
Blocks/Reach.vio: Blocks/Reach.v Base/Prelude.vio
Blocks/Reach.vos Blocks/Reach.vok Blocks/Reach.required_vos: Blocks/Reach.v Base/Prelude.vos
Blocks/DownloaderLTS.vo Blocks/DownloaderLTS.glob Blocks/DownloaderLTS.v.beautified Blocks/DownloaderLTS.required_vo: Blocks/DownloaderLTS.v Base/Prelude.vo Gen/Consts.vo Blocks/Reach.vo
Blocks/DownloaderLTS.vio: Blocks/DownloaderLTS.v Base/Prelude.vio Gen/Consts.vio Blocks/Reach.vio
Blocks/DownloaderLTS.vos Blocks/DownloaderLTS.vok Blocks/DownloaderLTS.required_vos: Blocks/DownloaderLTS.v Base/Prelude.vos Gen/Consts.vos Blocks/Reach.vos
Blocks/DownloaderProofs.vo Blocks/DownloaderProofs.glob Blocks/DownloaderProofs.v.beautified Blocks/DownloaderProofs.required_vo: Blocks/DownloaderProofs.v Base/Prelude.vo Gen/Consts.vo Blocks/Reach.vo Blocks/DownloaderLTS.vo
Blocks/DownloaderProofs.vio: Blocks/DownloaderProofs.v Base/Prelude.vio Gen/Consts.vio Blocks/Reach.vio Blocks/DownloaderLTS.vio
Blocks/DownloaderProofs.vos Blocks/DownloaderProofs.vok Blocks/DownloaderProofs.required_vos: Blocks/DownloaderProofs.v Base/Prelude.vos Gen/Consts.vos Blocks/Reach.vos Blocks/DownloaderLTS.vos
Blocks/Merkle.vo Blocks/Merkle.glob Blocks/Merkle.v.beautified Blocks/Merkle.required_vo: Blocks/Merkle.v Base/Prelude.vo
Blocks/Merkle.vio: Blocks/Merkle.v Base/Prelude.vio
Blocks/Merkle.vos Blocks/Merkle.vok Blocks/Merkle.required_vos: Blocks/Merkle.v Base/Prelude.vos
Blocks/MerkleProofs.vo Blocks/MerkleProofs.glob Blocks/MerkleProofs.v.beautified Blocks/MerkleProofs.required_vo: Blocks/MerkleProofs.v Base/Prelude.vo Blocks/Merkle.vo
Blocks/MerkleProofs.vio: Blocks/MerkleProofs.v Base/Prelude.vio Blocks/Merkle.vio
Blocks/MerkleProofs.vos Blocks/MerkleProofs.vok Blocks/MerkleProofs.required_vos: Blocks/MerkleProofs.v Base/Prelude.vos Blocks/Merkle.vos
Blocks/BlockHandler.vo Blocks/BlockHandler.glob Blocks/BlockHandler.v.beautified Blocks/BlockHandler.required_vo: Blocks/BlockHandler.v Base/Prelude.vo
Blocks/BlockHandler.vio: Blocks/BlockHandler.v Base/Prelude.vio
Blocks/BlockHandler.vos Blocks/BlockHandler.vok Blocks/BlockHandler.required_vos: Blocks/BlockHandler.v Base/Prelude.vos
Blocks/BlockHandlerProofs.vo Blocks/BlockHandlerProofs.glob Blocks/BlockHandlerProofs.v.beautified Blocks/BlockHandlerProofs.required_vo: Blocks/BlockHandlerProofs.v Base/Prelude.vo Blocks/BlockHandler.vo
Blocks/BlockHandlerProofs.vio: Blocks/BlockHandlerProofs.v Base/Prelude.vio Blocks/BlockHandler.vio
Blocks/BlockHandlerProofs.vos Blocks/BlockHandlerProofs.vok Blocks/BlockHandlerProofs.required_vos: Blocks/BlockHandlerProofs.v Base/Prelude.vos Blocks/BlockHandler.vos
Blocks/Manager.vo Blocks/Manager.glob Blocks/Manager.v.beautified Blocks/Manager.required_vo: Blocks/Manager.v Base/Prelude.vo
Blocks/Manager.vio: Blocks/Manager.v Base/Prelude.vio
Blocks/Manager.vos Blocks/Manager.vok Blocks/Manager.required_vos: Blocks/Manager.v Base/Prelude.vos
Blocks/ManagerProofs.vo Blocks/ManagerProofs.glob Blocks/ManagerProofs.v.beautified Blocks/ManagerProofs.required_vo: Blocks/ManagerProofs.v Base/Prelude.vo Blocks/Manager.vo
Blocks/ManagerProofs.vio: Blocks/ManagerProofs.v Base/Prelude.vio Blocks/Manager.vio
Blocks/ManagerProofs.vos Blocks/ManagerProofs.vok Blocks/ManagerProofs.required_vos: Blocks/ManagerProofs.v Base/Prelude.vos Blocks/Manager.vos
Blocks/ManagerCheck.vo Blocks/ManagerCheck.glob Blocks/ManagerCheck.v.beautified Blocks/ManagerCheck.required_vo: Blocks/ManagerCheck.v Base/Prelude.vo Blocks/Manager.vo
Blocks/ManagerCheck.vio: Blocks/ManagerCheck.v Base/Prelude.vio Blocks/Manager.vio
Blocks/ManagerCheck.vos Blocks/ManagerCheck.vok Blocks/ManagerCheck.required_vos: Blocks/ManagerCheck.v Base/Prelude.vos Blocks/Manager.vos
Tx/TxManager.vo Tx/TxManager.glob Tx/TxManager.v.beautified Tx/TxManager.required_vo: Tx/TxManager.v Base/Prelude.vo
Tx/TxManager.vio: Tx/TxManager.v Base/Prelude.vio
Tx/TxManager.vos Tx/TxManager.vok Tx/TxManager.required_vos: Tx/TxManager.v Base/Prelude.vos
Tx/TxProofs.vo Tx/TxProofs.glob Tx/TxProofs.v.beautified Tx/TxProofs.required_vo: Tx/TxProofs.v Base/Prelude.vo Tx/TxManager.vo
Tx/TxProofs.vio: Tx/TxProofs.v Base/Prelude.vio Tx/TxManager.vio
Tx/TxProofs.vos Tx/TxProofs.vok Tx/TxProofs.required_vos: Tx/TxProofs.v Base/Prelude.vos Tx/TxManager.vos
Props/C20.vo Props/C20.glob Props/C20.v.beautified Props/C20.required_vo: Props/C20.v Base/Prelude.vo Peers/Peers.vo Peers/PeersProofs.vo
Props/C20.vio: Props/C20.v Base/Prelude.vio Peers/Peers.vio Peers/PeersProofs.vio
Props/C20.vos Props/C20.vok Props/C20.required_vos: Props/C20.v Base/Prelude.vos Peers/Peers.vos Peers/PeersProofs.vos
Props/C01.vo Props/C01.glob Props/C01.v.beautified Props/C01.required_vo: Props/C01.v Base/Prelude.vo Base/Compact.vo Headers/Tree.vo Headers/TreeBasics.vo Headers/TreeInv.vo Headers/TreeSteps.vo Headers/TreeStream.vo Headers/TreeProps.vo Headers/TreeExample.vo
Props/C01.vio: Props/C01.v Base/Prelude.vio Base/Compact.vio Headers/Tree.vio Headers/TreeBasics.vio Headers/TreeInv.vio Headers/TreeSteps.vio Headers/TreeStream.vio Headers/TreeProps.vio Headers/TreeExample.vio
Props/C01.vos Props/C01.vok Props/C01.required_vos: Props/C01.v Base/Prelude.vos Base/Compact.vos Headers/Tree.vos Headers/TreeBasics.vos Headers/TreeInv.vos Headers/TreeSteps.vos Headers/TreeStream.vos Headers/TreeProps.vos Headers/TreeExample.vos
Props/C07.vo Props/C07.glob Props/C07.v.beautified Props/C07.required_vo: Props/C07.v Base/Prelude.vo Base/Compact.vo Headers/Tree.vo Headers/TreeBasics.vo Headers/TreeInv.vo Headers/TreeSteps.vo Headers/TreeStream.vo Headers/TreeProps.vo Headers/TreeExample.vo
Props/C07.vio: Props/C07.v Base/Prelude.vio Base/Compact.vio Headers/Tree.vio Headers/TreeBasics.vio Headers/TreeInv.vio Headers/TreeSteps.vio Headers/TreeStream.vio Headers/TreeProps.vio Headers/TreeExample.vio
Props/C07.vos Props/C07.vok Props/C07.required_vos: Props/C07.v Base/Prelude.vos Base/Compact.vos Headers/Tree.vos Headers/TreeBasics.vos Headers/TreeInv.vos Headers/TreeSteps.vos Headers/TreeStream.vos Headers/TreeProps.vos Headers/TreeExample.vos
Props/C08.vo Props/C08.glob Props/C08.v.beautified Props/C08.required_vo: Props/C08.v Base/Prelude.vo Base/Compact.vo Headers/Tree.vo Headers/TreeBasics.vo Headers/TreeInv.vo Headers/TreeSteps.vo Headers/TreeStream.vo Headers/TreeProps.vo Headers/TreeExample.vo
Props/C08.vio: Props/C08.v Base/Prelude.vio Base/Compact.vio Headers/Tree.vio Headers/TreeBasics.vio Headers/TreeInv.vio Headers/TreeSteps.vio Headers/TreeStream.vio Headers/TreeProps.vio Headers/TreeExample.vio
Props/C08.vos Props/C08.vok Props/C08.required_vos: Props/C08.v Base/Prelude.vos Base/Compact.vos Headers/Tree.vos Headers/TreeBasics.vos Headers/TreeInv.vos Headers/TreeSteps.vos Headers/TreeStream.vos Headers/TreeProps.vos Headers/TreeExample.vos
Props/C09.vo Props/C09.glob Props/C09.v.beautified Props/C09.required_vo: Props/C09.v Base/Prelude.vo Base/Compact.vo Headers/Tree.vo Headers/TreeBasics.vo Headers/TreeInv.vo Headers/TreeSteps.vo Headers/TreeStream.vo Headers/TreeProps.vo Headers/TreeExample.vo
Props/C09.vio: Props/C09.v Base/Prelude.vio Base/Compact.vio Headers/Tree.vio Headers/TreeBasics.vio Headers/TreeInv.vio Headers/TreeSteps.vio Headers/TreeStream.vio Headers/TreeProps.vio Headers/TreeExample.vio
Props/C09.vos Props/C09.vok Props/C09.required_vos: Props/C09.v Base/Prelude.vos Base/Compact.vos Headers/Tree.vos Headers/TreeBasics.vos Headers/TreeInv.vos Headers/TreeSteps.vos Headers/TreeStream.vos Headers/TreeProps.vos Headers/TreeExample.vos
Props/C10.vo Props/C10.glob Props/C10.v.beautified Props/C10.required_vo: Props/C10.v Base/Prelude.vo Base/Compact.vo Headers/Tree.vo Headers/TreeBasics.vo Headers/TreeInv.vo Headers/TreeSteps.vo Headers/TreeStream.vo Headers/TreeProps.vo Headers/TreeExample.vo
Props/C10.vio: Props/C10.v Base/Prelude.vio Base/Compact.vio Headers/Tree.vio Headers/TreeBasics.vio Headers/TreeInv.vio Headers/TreeSteps.vio Headers/TreeStream.vio Headers/TreeProps.vio Headers/TreeExample.vio
Props/C10.vos Props/C10.vok Props/C10.required_vos: Props/C10.v Base/Prelude.vos Base/Compact.vos Headers/Tree.vos Headers/TreeBasics.vos Headers/TreeInv.vos Headers/TreeSteps.vos Headers/TreeStream.vos Headers/TreeProps.vos Headers/TreeExample.vos
Props/C11.vo Props/C11.glob Props/C11.v.beautified Props/C11.required_vo: Props/C11.v Base/Prelude.vo Base/Compact.vo Headers/Tree.vo Headers/TreeBasics.vo Headers/TreeInv.vo Headers/TreeSteps.vo Headers/TreeStream.vo Headers/TreeProps.vo Headers/TreeExample.vo
Props/C11.vio: Props/C11.v Base/Prelude.vio Base/Compact.vio Headers/Tree.vio Headers/TreeBasics.vio Headers/TreeInv.vio Headers/TreeSteps.vio Headers/TreeStream.vio Headers/TreeProps.vio Headers/TreeExample.vio
Props/C11.vos Props/C11.vok Props/C11.required_vos: Props/C11.v Base/Prelude.vos Base/Compact.vos Headers/Tree.vos Headers/TreeBasics.vos Headers/TreeInv.vos Headers/TreeSteps.vos Headers/TreeStream.vos Headers/TreeProps.vos Headers/TreeExample.vos
Props/C17.vo Props/C17.glob Props/C17.v.beautified Props/C17.required_vo: Props/C17.v Base/Prelude.vo Base/Compact.vo Headers/Tree.vo Headers/TreeBasics.vo Headers/TreeInv.vo Headers/TreeSteps.vo Headers/TreeStream.vo Headers/TreeProps.vo Headers/TreeExample.vo
Props/C17.vio: Props/C17.v Base/Prelude.vio Base/Compact.vio Headers/Tree.vio Headers/TreeBasics.vio Headers/TreeInv.vio Headers/TreeSteps.vio Headers/TreeStream.vio Headers/TreeProps.vio Headers/TreeExample.vio
Props/C17.vos Props/C17.vok Props/C17.required_vos: Props/C17.v Base/Prelude.vos Base/Compact.vos Headers/Tree.vos Headers/TreeBasics.vos Headers/TreeInv.vos Headers/TreeSteps.vos Headers/TreeStream.vos Headers/TreeProps.vos Headers/TreeExample.vos
Props/C02.vo Props/C02.glob Props/C02.v.beautified Props/C02.required_vo: Props/C02.v Base/Prelude.vo Base/Compact.vo Gen/Consts.vo Gen/Fixture.vo Headers/Tree.vo Headers/Pow.vo Headers/PowProofs.vo
Props/C02.vio: Props/C02.v Base/Prelude.vio Base/Compact.vio Gen/Consts.vio Gen/Fixture.vio Headers/Tree.vio Headers/Pow.vio Headers/PowProofs.vio
Props/C02.vos Props/C02.vok Props/C02.required_vos: Props/C02.v Base/Prelude.vos Base/Compact.vos Gen/Consts.vos Gen/Fixture.vos Headers/Tree.vos Headers/Pow.vos Headers/PowProofs.vos
Props/C03.vo Props/C03.glob Props/C03.v.beautified Props/C03.required_vo: Props/C03.v Base/Prelude.vo Gen/Consts.vo Headers/Tree.vo Headers/Splits.vo Headers/SplitsProofs.vo
Props/C03.vio: Props/C03.v Base/Prelude.vio Gen/Consts.vio Headers/Tree.vio Headers/Splits.vio Headers/SplitsProofs.vio
Props/C03.vos Props/C03.vok Props/C03.required_vos: Props/C03.v Base/Prelude.vos Gen/Consts.vos Headers/Tree.vos Headers/Splits.vos Headers/SplitsProofs.vos
Props/C06.vo Props/C06.glob Props/C06.v.beautified Props/C06.required_vo: Props/C06.v Base/Prelude.vo Tx/TxManager.vo Tx/TxProofs.vo
Props/C06.vio: Props/C06.v Base/Prelude.vio Tx/TxManager.vio Tx/TxProofs.vio
Props/C06.vos Props/C06.vok Props/C06.required_vos: Props/C06.v Base/Prelude.vos Tx/TxManager.vos Tx/TxProofs.vos
Props/C16.vo Props/C16.glob Props/C16.v.beautified Props/C16.required_vo: Props/C16.v Base/Prelude.vo Gen/Consts.vo Blocks/Reach.vo Blocks/DownloaderLTS.vo Blocks/DownloaderProofs.vo Blocks/Manager.vo Blocks/ManagerProofs.vo
Props/C16.vio: Props/C16.v Base/Prelude.vio Gen/Consts.vio Blocks/Reach.vio Blocks/DownloaderLTS.vio Blocks/DownloaderProofs.vio Blocks/Manager.vio Blocks/ManagerProofs.vio
Props/C16.vos Props/C16.vok Props/C16.required_vos: Props/C16.v Base/Prelude.vos Gen/Consts.vos Blocks/Reach.vos Blocks/DownloaderLTS.vos Blocks/DownloaderProofs.vos Blocks/Manager.vos Blocks/ManagerProofs.vos
Props/C04.vo Props/C04.glob Props/C04.v.beautified Props/C04.required_vo: Props/C04.v Base/Prelude.vo Blocks/Merkle.vo Blocks/MerkleProofs.vo Blocks/BlockHandler.vo Blocks/BlockHandlerProofs.vo
Props/C04.vio: Props/C04.v Base/Prelude.vio Blocks/Merkle.vio Blocks/MerkleProofs.vio Blocks/BlockHandler.vio Blocks/BlockHandlerProofs.vio
Props/C04.vos Props/C04.vok Props/C04.required_vos: Props/C04.v Base/Prelude.vos Blocks/Merkle.vos Blocks/MerkleProofs.vos Blocks/BlockHandler.vos Blocks/BlockHandlerProofs.vos
Props/C18.vo Props/C18.glob Props/C18.v.beautified Props/C18.required_vo: Props/C18.v Base/Prelude.vo Base/Compact.vo Headers/Tree.vo Headers/TreeBasics.vo Headers/TreeInv.vo Headers/TreeSteps.vo Headers/TreeStream.vo Headers/TreeProps.vo Headers/TreeExample.vo Headers/TreeLocator.vo Blocks/Merkle.vo Blocks/MerkleProofs.vo
Props/C18.vio: Props/C18.v Base/Prelude.vio Base/Compact.vio Headers/Tree.vio Headers/TreeBasics.vio Headers/TreeInv.vio Headers/TreeSteps.vio Headers/TreeStream.vio Headers/TreeProps.vio Headers/TreeExample.vio Headers/TreeLocator.vio Blocks/Merkle.vio Blocks/MerkleProofs.vio
Props/C18.vos Props/C18.vok Props/C18.required_vos: Props/C18.v Base/Prelude.vos Base/Compact.vos Headers/Tree.vos Headers/TreeBasics.vos Headers/TreeInv.vos Headers/TreeSteps.vos Headers/TreeStream.vos Headers/TreeProps.vos Headers/TreeExample.vos Headers/TreeLocator.vos Blocks/Merkle.vos Blocks/MerkleProofs.vos
Props/C19.vo Props/C19.glob Props/C19.v.beautified Props/C19.required_vo: Props/C19.v Base/Prelude.vo Base/Compact.vo Headers/Tree.vo Headers/TreeBasics.vo Headers/TreeInv.vo Headers/TreeSteps.vo Headers/TreeStream.vo Headers/TreeProps.vo Headers/TreeExample.vo Headers/TreeLocator.vo Blocks/Merkle.vo Blocks/MerkleProofs.vo
Props/C19.vio: Props/C19.v Base/Prelude.vio Base/Compact.vio Headers/Tree.vio Headers/TreeBasics.vio Headers/TreeInv.vio Headers/TreeSteps.vio Headers/TreeStream.vio Headers/TreeProps.vio Headers/TreeExample.vio Headers/TreeLocator.vio Blocks/Merkle.vio Blocks/MerkleProofs.vio
Props/C19.vos Props/C19.vok Props/C19.required_vos: Props/C19.v Base/Prelude.vos Base/Compact.vos Headers/Tree.vos Headers/TreeBasics.vos Headers/TreeInv.vos Headers/TreeSteps.vos Headers/TreeStream.vos Headers/TreeProps.vos Headers/TreeExample.vos Headers/TreeLocator.vos Blocks/Merkle.vos Blocks/MerkleProofs.vos
