Base/Prelude.vo Base/Prelude.glob Base/Prelude.v.beautified Base/Prelude.required_vo: Base/Prelude.v 
Base/Prelude.vio: Base/Prelude.v 
Base/Prelude.vos Base/Prelude.vok Base/Prelude.required_vos: Base/Prelude.v 
Base/Compact.vo Base/Compact.glob Base/Compact.v.beautified Base/Compact.required_vo: Base/Compact.v Base/Prelude.vo
Base/Compact.vio: Base/Compact.v Base/Prelude.vio
Base/Compact.vos Base/Compact.vok Base/Compact.required_vos: Base/Compact.v Base/Prelude.vos
Peers/Peers.vo Peers/Peers.glob Peers/Peers.v.beautified Peers/Peers.required_vo: Peers/Peers.v Base/Prelude.vo
Peers/Peers.vio: Peers/Peers.v Base/Prelude.vio
Peers/Peers.vos Peers/Peers.vok Peers/Peers.required_vos: Peers/Peers.v Base/Prelude.vos
Peers/PeersProofs.vo Peers/PeersProofs.glob Peers/PeersProofs.v.beautified Peers/PeersProofs.required_vo: Peers/PeersProofs.v Base/Prelude.vo Peers/Peers.vo
Peers/PeersProofs.vio: Peers/PeersProofs.v Base/Prelude.vio Peers/Peers.vio
Peers/PeersProofs.vos Peers/PeersProofs.vok Peers/PeersProofs.required_vos: Peers/PeersProofs.v Base/Prelude.vos Peers/Peers.vos
Headers/Tree.vo Headers/Tree.glob Headers/Tree.v.beautified Headers/Tree.required_vo: Headers/Tree.v Base/Prelude.vo Base/Compact.vo
Headers/Tree.vio: Headers/Tree.v Base/Prelude.vio Base/Compact.vio
Headers/Tree.vos Headers/Tree.vok Headers/Tree.required_vos: Headers/Tree.v Base/Prelude.vos Base/Compact.vos
Props/C20.vo Props/C20.glob Props/C20.v.beautified Props/C20.required_vo: Props/C20.v Base/Prelude.vo Peers/Peers.vo Peers/PeersProofs.vo
Props/C20.vio: Props/C20.v Base/Prelude.vio Peers/Peers.vio Peers/PeersProofs.vio
Props/C20.vos Props/C20.vok Props/C20.required_vos: Props/C20.v Base/Prelude.vos Peers/Peers.vos Peers/PeersProofs.vos
