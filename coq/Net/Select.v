(* NodeManager.nextNode (node_manager.go): which connection serves the next header / transaction /
   block request.  Round robin over the manager's node list from a moving offset; stopped nodes
   are removed on the way; a node is chosen only if it is ready, not busy and (for blocks) has the
   data.  C13: a peer that is not verified is never ready (Net/NodeFSM.v), hence never chosen. *)
From BR Require Import Base.Prelude.
Open Scope N_scope.

Record nd := mkNd { nd_id : N; nd_stopped : bool; nd_ready : bool; nd_busy : bool; nd_has : bool }.

Definition eligible (use_has : bool) (n : nd) : bool :=
  negb (nd_stopped n) && nd_ready n && negb (nd_busy n) && (negb use_has || nd_has n).

(* the loop of nextNode; [fuel] bounds the iterations (each one removes a node, advances the
   offset, or wraps around once) *)
Fixpoint next_loop (fuel : nat) (use_has : bool) (nodes : list nd) (off : nat) (looped : bool)
  : option nd * list nd * nat :=
  match fuel with
  | O => (None, nodes, off)
  | S f =>
      if (length nodes <=? off)%nat then
        if looped || (length nodes =? 0)%nat then (None, nodes, off)
        else next_loop f use_has nodes 0 true
      else
        match nth_error nodes off with
        | None => (None, nodes, off)
        | Some n =>
            if nd_stopped n then next_loop f use_has (firstn off nodes ++ skipn (S off) nodes) off looped
            else if negb (nd_ready n) then next_loop f use_has nodes (S off) looped
            else if nd_busy n then next_loop f use_has nodes (S off) looped
            else if use_has && negb (nd_has n) then next_loop f use_has nodes (S off) looped
            else (Some n, nodes, S off)
        end
  end.

Definition next_node (use_has : bool) (nodes : list nd) (off : nat) : option nd * list nd * nat :=
  match nodes with
  | [] => (None, nodes, off)
  | _ => next_loop (3 * length nodes + 3) use_has nodes off false
  end.

(* correspondence: the harness builds a manager with nodes in given states, calls a request
   function and reports which node's connection received the request *)
Record selcase := mkSelCase { sc_use_has : bool; sc_nodes : list nd; sc_off : nat; sc_chosen : option N }.
Definition selcase_ok (c : selcase) : bool :=
  match fst (fst (next_node (sc_use_has c) (sc_nodes c) (sc_off c))), sc_chosen c with
  | Some n, Some i => nd_id n =? i
  | None, None => true
  | _, _ => false
  end.
Definition selmismatches (cs : list selcase) : list N := failing (map selcase_ok cs).
