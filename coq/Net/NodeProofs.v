From BR Require Import Base.Prelude Gen.Consts Net.NodeFSM.
Open Scope N_scope.

Lemma varint_size_pos n : 1 <= varint_size n.
Proof. unfold varint_size. destruct (n <? 253); [lia|]. destruct (n <? 65536); [lia|]. destruct (n <? 4294967296); lia. Qed.

(* the reader loses its place only on headers received before the handshake completed (D26) *)
Lemma desync_only_D26 s m : desync s m = true ->
  n_ready s = false /\ n_hs_complete s = false /\ exists c fi a, m = MHeaders c fi a.
Proof.
  unfold desync. intros H. apply negb_true_iff in H. apply N.eqb_neq in H.
  destruct m; cbn [handler_reads canonical_len consumed_by] in H; try congruence.
  - destruct (n_ready s) eqn:Er.
    + exfalso. apply H. cbn [consumed_by]. unfold headers_body.
      destruct all_ok; [lia|]. destruct (count =? 0) eqn:E; [apply N.eqb_eq in E; subst; lia|apply N.eqb_neq in E; nia].
    + destruct (n_hs_complete s) eqn:Ec.
      * exfalso. apply H. cbn [consumed_by]. unfold headers_body.
        destruct (count =? 0) eqn:E; [apply N.eqb_eq in E; subst; lia|apply N.eqb_neq in E; nia].
      * repeat split; eauto.
  - destruct (n_ready s); cbn [consumed_by] in H; congruence.
  - destruct (n_ready s && n_has_txm s); cbn [consumed_by] in H; congruence.
  - destruct (n_ready s && requested); cbn [consumed_by] in H; [exfalso; apply H; lia|congruence].
Qed.

Lemma desync_false_ready s m : n_ready s = true -> desync s m = false.
Proof. intros Hr. destruct (desync s m) eqn:E; [|reflexivity]. apply desync_only_D26 in E. destruct E as [E _]. congruence. Qed.

Lemma desync_false_hs s m : n_hs_complete s = true -> desync s m = false.
Proof. intros Hr. destruct (desync s m) eqn:E; [|reflexivity]. apply desync_only_D26 in E. destruct E as (_ & E & _). congruence. Qed.

Lemma rep_guarded n e : existsb guarded_effect (rep n e) = true -> guarded_effect e = true.
Proof. induction n as [|n IH]; cbn; [discriminate|]. destruct (guarded_effect e); auto. Qed.

(* a step taken while the node is not ready emits no repository / tx manager / address book /
   block handler effect *)
Theorem no_guarded_effect_unless_ready s a :
  n_ready s = false -> existsb guarded_effect (snd (nstep s a)) = false.
Proof.
  intros Hr. destruct a as [m|]; cbn [nstep].
  - unfold recv. destruct (n_stopped s); [reflexivity|]. destruct (desync s m); [reflexivity|]. rewrite Hr.
    destruct m; cbn [snd andb]; try reflexivity.
    + destruct (1 <? _); reflexivity.
    + destruct (negb (n_hs_complete s)); [reflexivity|]. destruct (count =? 0); [reflexivity|].
      destruct first; try reflexivity. unfold accept. destruct (n_verify_only s); reflexivity.
  - unfold hs_step. destruct (n_stopped s || negb (n_hs_alive s)); [reflexivity|].
    destruct (n_chan s) as [|v rest]; [reflexivity|]. cbn [snd].
    destruct (v && negb (n_verack_sent s)); destruct ((n_version_rx s || v) && (n_verack_rx s || negb v)); reflexivity.
Qed.

(* ready and verified are set together, and only by a headers reply whose first header is the
   BSV split header, received after the handshake completed *)
Theorem ready_only_by_bsv_reply s a : n_ready s = false -> n_ready (fst (nstep s a)) = true ->
  exists count all_ok, a = ARecv (MHeaders count HBsv all_ok) /\ n_hs_complete s = true /\ count <> 0 /\
                       n_stopped s = false /\ n_verified (fst (nstep s a)) = true.
Proof.
  intros Hr Hr'. destruct a as [m|]; cbn [nstep] in *.
  - unfold recv in *. destruct (n_stopped s) eqn:Es; [cbn in Hr'; congruence|].
    destruct (desync s m); [cbn in Hr'; congruence|]. rewrite Hr in *.
    destruct m; cbn [fst andb] in Hr'; try (unfold push_hs in Hr'; destruct (_ <? cap_hs); cbn in Hr'; congruence); try congruence.
    + destruct (1 <? _); cbn in Hr'; congruence.
    + destruct (n_hs_complete s) eqn:Eh; cbn [negb] in *; [|cbn in Hr'; congruence].
      destruct (count =? 0) eqn:Ec; [cbn in Hr'; congruence|].
      destruct first; try (cbn in Hr'; congruence).
      exists count, all_ok. apply N.eqb_neq in Ec. repeat split; auto.
      unfold accept. destruct (n_verify_only s); reflexivity.
  - unfold hs_step in *. destruct (n_stopped s || negb (n_hs_alive s)); [cbn in Hr'; congruence|].
    destruct (n_chan s); cbn in Hr'; congruence.
Qed.

Lemma ready_verified_step s a : (n_ready s = true -> n_verified s = true) ->
  (n_ready (fst (nstep s a)) = true -> n_verified (fst (nstep s a)) = true).
Proof.
  intros H. destruct (n_ready s) eqn:Er.
  - specialize (H eq_refl). intros _.
    destruct a as [m|]; cbn [nstep]; [unfold recv|unfold hs_step].
    + destruct (n_stopped s); [exact H|]. destruct (desync s m); [exact H|]. rewrite Er.
      destruct m; cbn [fst andb]; try exact H; try (unfold push_hs; destruct (_ <? cap_hs); exact H).
      * destruct (1 <? _); exact H.
      * destruct right_nonce; exact H.
      * destruct all_ok; exact H.
      * destruct (n_has_txm s); exact H.
      * destruct (n_has_txm s); exact H.
      * destruct requested; exact H.
    + destruct (n_stopped s || negb (n_hs_alive s)); [exact H|]. destruct (n_chan s); exact H.
  - intros Hr'. destruct (ready_only_by_bsv_reply s a Er Hr') as (_ & _ & _ & _ & _ & _ & Hv). exact Hv.
Qed.

(* C13: over every interleaving, nothing reaches the repository, the tx manager, the address book
   or a block handler in a step that starts in a not-yet-verified (= not ready) state *)
Theorem no_effect_before_verified acts : forall s,
  (n_ready s = true -> n_verified s = true) ->
  let '(_, ess) := nrun s acts in
  forall k es sk, nth_error ess k = Some es ->
    sk = fst (nrun s (firstn k acts)) -> n_verified sk = false -> existsb guarded_effect es = false.
Proof.
  induction acts as [|a acts IH]; intros s Hinv; cbn [nrun].
  - intros k es sk H. destruct k; discriminate.
  - destruct (nstep s a) as [s1 es1] eqn:E1.
    specialize (IH s1). assert (Hinv1 : n_ready s1 = true -> n_verified s1 = true).
    { pose proof (ready_verified_step s a Hinv) as H. rewrite E1 in H. exact H. }
    specialize (IH Hinv1). destruct (nrun s1 acts) as [s2 ess] eqn:E2.
    intros k es sk Hk Hsk Hv. destruct k as [|k].
    + cbn in Hk. inversion Hk; subst es. cbn in Hsk. subst sk.
      pose proof (no_guarded_effect_unless_ready s a) as Hn. rewrite E1 in Hn. cbn [snd] in Hn.
      apply Hn. destruct (n_ready s) eqn:Er; [rewrite (Hinv eq_refl) in Hv; discriminate|reflexivity].
    + cbn [nth_error] in Hk. cbn [firstn nrun] in Hsk. rewrite E1 in Hsk.
      destruct (nrun s1 (firstn k acts)) as [sk' essk] eqn:Ek. cbn [fst] in Hsk. subst sk.
      apply (IH k es sk' Hk); [rewrite Ek; reflexivity|exact Hv].
Qed.

(* C13 / C03: a verify-only connection stops in the very step that verifies it; any other reply to
   the verification request stops the connection unverified *)
Theorem verify_only_disconnects s count all_ok : n_stopped s = false -> n_ready s = false ->
  n_hs_complete s = true -> count <> 0 -> n_verify_only s = true ->
  let '(s1, es) := recv s (MHeaders count HBsv all_ok) in
  n_verified s1 = true /\ n_stopped s1 = true /\ In EStop es /\ existsb guarded_effect es = false.
Proof.
  intros Hs Hr Hh Hc Hv. unfold recv. rewrite Hs, (desync_false_hs s _ Hh), Hr, Hh. cbn [negb].
  apply N.eqb_neq in Hc. rewrite Hc. unfold accept. rewrite Hv. cbn. repeat split; auto.
Qed.

Theorem foreign_reply_disconnects s count first all_ok : n_stopped s = false -> n_ready s = false ->
  n_hs_complete s = true -> (count = 0 \/ first <> HBsv) ->
  let '(s1, es) := recv s (MHeaders count first all_ok) in
  n_verified s1 = n_verified s /\ n_ready s1 = false /\ n_stopped s1 = true /\ In EStop es.
Proof.
  intros Hs Hr Hh Hc. unfold recv. rewrite Hs, (desync_false_hs s _ Hh), Hr, Hh. cbn [negb].
  destruct (count =? 0) eqn:E; [cbn; repeat split; auto|].
  destruct Hc as [Hc|Hc]; [apply N.eqb_neq in E; contradiction|].
  destruct first; try contradiction; cbn; repeat split; auto.
Qed.

(* C14: every conformant message is consumed to exactly its declared length, in every state a
   verified peer can meet (and in every state at all, except headers sent before the handshake
   completed: D26 below) *)
Theorem conformant_frame_consumed_gen s f : well_formed f = true ->
  (forall c fi a, f_msg f = MHeaders c fi a -> n_ready s = true \/ n_hs_complete s = true) ->
  consumed_code s f = consumed s f.
Proof.
  intros Hw Hh. unfold consumed_code, consumed. f_equal.
  unfold well_formed in Hw. destruct (f_msg f) eqn:Em; cbn [handler_reads consumed_by]; try reflexivity.
  - (* headers *) apply N.eqb_eq in Hw. rewrite Hw.
    destruct (Hh count first all_ok eq_refl) as [Hr|Hc].
    + rewrite Hr. cbn [consumed_by]. destruct all_ok; [lia|]. unfold headers_body.
      destruct (count =? 0) eqn:E; [apply N.eqb_eq in E; subst; lia|apply N.eqb_neq in E; nia].
    + destruct (n_ready s); cbn [consumed_by].
      * destruct all_ok; [lia|]. unfold headers_body.
        destruct (count =? 0) eqn:E; [apply N.eqb_eq in E; subst; lia|apply N.eqb_neq in E; nia].
      * rewrite Hc. cbn [consumed_by]. unfold headers_body.
        destruct (count =? 0) eqn:E; [apply N.eqb_eq in E; subst; lia|apply N.eqb_neq in E; nia].
  - (* getaddr *) apply N.eqb_eq in Hw. rewrite Hw. destruct (n_ready s); reflexivity.
  - (* inv *) apply N.eqb_eq in Hw. rewrite Hw. destruct (n_ready s && n_has_txm s); reflexivity.
  - (* block *) apply N.leb_le in Hw. destruct (n_ready s && requested); cbn [consumed_by]; lia.
Qed.

Theorem conformant_frame_consumed s f : n_ready s = true -> well_formed f = true ->
  consumed_code s f = consumed s f.
Proof. intros Hr Hw. apply conformant_frame_consumed_gen; [exact Hw|]. intros; left; exact Hr. Qed.

(* observation D26 (outside C14: the peer is not verified): headers received before the handshake
   completed are not consumed at all, the next header is read from inside this message *)
Theorem headers_before_handshake_desync s f c fi a : n_ready s = false -> n_hs_complete s = false ->
  f_msg f = MHeaders c fi a -> 0 < f_len f -> consumed_code s f < consumed s f.
Proof.
  intros Hr Hc Em Hl. unfold consumed_code, consumed. rewrite Em. cbn [handler_reads is_ext].
  rewrite Hr, Hc. cbn [consumed_by]. lia.
Qed.

(* C14: the read loop is never parked: handling a message always returns (the only blocking send,
   to the handshake channel, is dropped when the channel is full), and a ping is answered with a
   pong whenever the connection is up *)
Theorem ping_answered s : n_stopped s = false -> recv s MPing = (s, [ESend 4]).
Proof. intros H. unfold recv. rewrite H. reflexivity. Qed.

Theorem handshake_channel_bounded s v : N.of_nat (length (n_chan (push_hs s v))) <= N.max cap_hs (N.of_nat (length (n_chan s))).
Proof.
  unfold push_hs. destruct (N.of_nat (length (n_chan s)) <? cap_hs) eqn:E; cbn [n_chan]; [|lia].
  apply N.ltb_lt in E. rewrite app_length. cbn [length]. lia.
Qed.

(* C15: with the repaired reader the allocation for a payload is bounded by what actually
   arrives, and no declared length makes it panic; the code as found panicked *)
Theorem read_payload_never_panics len max avail : fst (read_payload false len max avail) <> RdPanic.
Proof.
  unfold read_payload. destruct (max <? len); [discriminate|]. cbn [negb].
  destruct (two63 <=? len); [discriminate|]. cbn [fst]. destruct (avail <? len); discriminate.
Qed.

Theorem read_payload_alloc_bounded len max avail : snd (read_payload false len max avail) <= 2 * avail + 512.
Proof.
  unfold read_payload. destruct (max <? len); [cbn; lia|]. cbn [negb].
  destruct (two63 <=? len); cbn [snd]; lia.
Qed.

(* count-driven handlers: no declared count makes them panic, and what they allocate is bounded by
   the items that actually arrived *)
Theorem read_items_never_panics count item avail : fst (fst (read_items false count item avail)) <> RdPanic.
Proof. unfold read_items. cbn [fst]. destruct (count <=? avail / item); discriminate. Qed.

Theorem read_items_alloc_bounded count item avail : 0 < item ->
  snd (read_items false count item avail) * item <= avail /\
  snd (read_items false count item avail) <= count.
Proof.
  intros Hi. unfold read_items. cbn [snd].
  pose proof (N.mul_div_le avail item) as Hd. assert (item <> 0) as Hne by lia. specialize (Hd Hne).
  split; [|lia].
  assert (N.min count (avail / item) <= avail / item) as Hm by lia.
  apply N.le_trans with (m := (avail / item) * item); [|lia].
  apply N.mul_le_mono_r. exact Hm.
Qed.

(* ... whereas sizing the list by the declared count (seeded change C15d) panics on a 9-byte count *)
Theorem read_items_presized_refuted :
  fst (fst (read_items true 18446744073709551615 36 36)) = RdPanic /\
  snd (read_items true 1000000000000 36 36) = 1000000000000.
Proof. split; vm_compute; reflexivity. Qed.

Theorem read_payload_as_found_refuted :
  fst (read_payload true two63 18446744073709551615 0) = RdPanic /\
  snd (read_payload true 1099511627776 18446744073709551615 20) = 1099511627776.
Proof. split; vm_compute; reflexivity. Qed.

(* C15, known finding D18 (dependency): the allocation for a transaction's inputs is not bounded
   by what was received - ten bytes of payload can ask for 72 TiB *)
Theorem tx_decode_alloc_refuted :
  exists declared avail, avail <= 100 /\
    exists a, tx_decode_alloc_as_found declared avail = Some a /\ 70000000000000 < a.
Proof. exists 1099511627776, 80. split; [lia|]. eexists. split; [vm_compute; reflexivity|]. vm_compute. reflexivity. Qed.

(* runs: a stopped node stays stopped and does nothing *)
Lemma stopped_step s a : n_stopped s = true -> nstep s a = (s, []).
Proof.
  intros H. destruct a; cbn [nstep]; [unfold recv|unfold hs_step]; rewrite H; reflexivity.
Qed.

(* C14: while the connection is up, handling any message leaves the node able to answer the next
   ping - no message class parks the read loop or makes it lose its place *)
Theorem pong_after_any_sequence acts s :
  let s' := fst (nrun s acts) in n_stopped s' = false -> snd (recv s' MPing) = [ESend 4].
Proof. intros s' H. rewrite (ping_answered s' H). reflexivity. Qed.

(* C14: which messages of a ready node stop the connection: only protocol violations (a second
   protoconf, a wrong pong nonce, a header the repository refuses) *)
Theorem ready_stops_only_on_violation s m : n_stopped s = false -> n_ready s = true ->
  n_stopped (fst (recv s m)) = true ->
  (m = MProtoconf /\ 1 <= n_protoconf s) \/ m = MPong false \/
  (exists c f, m = MHeaders c f false).
Proof.
  intros Hs Hr. unfold recv. rewrite Hs, (desync_false_ready s m Hr), Hr.
  destruct m; cbn [fst andb]; try (intros H; cbn in H; congruence);
    try (unfold push_hs; destruct (_ <? cap_hs); intros H; cbn in H; congruence).
  - cbn [n_protoconf]. destruct (1 <? n_protoconf s + 1) eqn:E; [|intros H; cbn in H; congruence]. intros _. left.
    split; [reflexivity|]. apply N.ltb_lt in E. lia.
  - destruct right_nonce; [intros H; cbn in H; congruence|]. intros _. right. left. reflexivity.
  - destruct all_ok; [intros H; cbn in H; congruence|]. intros _. right. right. eauto.
  - destruct (n_has_txm s); intros H; cbn in H; congruence.
  - destruct (n_has_txm s); intros H; cbn in H; congruence.
  - destruct requested; intros H; cbn in H; congruence.
Qed.

(* C14: DiscardInput takes exactly the number of bytes it is asked to, for every chunk size > 0 *)
Theorem discard_input_exact chunk n : 0 < chunk -> discard_input chunk n = n.
Proof.
  intros Hc. unfold discard_input.
  pose proof (N.div_mod n chunk) as Hdm. assert (chunk <> 0) by lia. specialize (Hdm H).
  destruct (0 <? n) eqn:E1.
  - destruct (0 <? n mod chunk) eqn:E2; [lia|]. apply N.ltb_ge in E2. lia.
  - apply N.ltb_ge in E1. assert (n = 0) by lia. subst. rewrite N.mod_0_l by lia. cbn. reflexivity.
Qed.

