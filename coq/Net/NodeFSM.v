(* Session state machine of a BitcoinNode connection (bitcoin_node.go, handlers.go, messages.go)
   for C13 (nothing before verification), C14 (framing stays in sync on conformant traffic),
   C15 (no input crashes the process) and the peer side of C03.

   Two processes: the read loop, which handles one incoming message at a time, and the handshake
   thread, which consumes the handshake channel; a run is any interleaving of [ARecv m] and [AHs]
   actions.  Payload decoders of the wire package are oracles that consume exactly the payload
   buffer handed to them; block/tx/header contents matter only through the flags below. *)
From BR Require Import Base.Prelude Gen.Consts.
Open Scope N_scope.

(* what the first header of a "headers" reply is, for the chain check *)
Inductive hcls := HBsv | HForeign | HUnknown.

Inductive msg :=
| MVersion | MVerack | MProtoconf | MPing | MPong (right_nonce : bool) | MReject
| MHeaders (count : N) (first : hcls) (all_ok : bool)   (* all_ok: every header is accepted by the repository *)
| MAddr (count : N)
| MGetAddr
| MInv (count : N)                   (* tx inventory items *)
| MTx (extended : bool)
| MBlock (extended : bool) (requested : bool)
| MSendHeaders
| MOther (extended : bool).          (* a command the reader has no handler for *)

Inductive effect :=
| ERepoVerify | ERepoProcess | EPeersAdd | ETxID | ETx | EBlockHandler
| ESend (what : N)                   (* 1 verack 2 protoconf 3 getheaders 4 pong 5 sendheaders 6 getaddr 7 addr 8 getdata *)
| EStop.

Record nst := mkN {
  n_verify_only : bool; n_has_txm : bool;           (* configuration *)
  n_version_rx : bool; n_verack_rx : bool; n_verack_sent : bool;
  n_hs_alive : bool;                                 (* the handshake thread has not returned *)
  n_hs_complete : bool; n_ready : bool; n_verified : bool; n_stopped : bool;
  n_protoconf : N;
  n_chan : list bool                                 (* handshake channel: true = version, false = verack *)
}.

Definition ninit (verify_only has_txm : bool) : nst :=
  mkN verify_only has_txm false false false true false false false false 0 [].

Definition stop (s : nst) : nst :=
  mkN (n_verify_only s) (n_has_txm s) (n_version_rx s) (n_verack_rx s) (n_verack_sent s) (n_hs_alive s)
      (n_hs_complete s) (n_ready s) (n_verified s) true (n_protoconf s) (n_chan s).

Definition cap_hs : N := Z.to_N cap_handshake.

(* handleVersion / handleVerack (repaired, D16): dropped when the channel is full *)
Definition push_hs (s : nst) (is_version : bool) : nst :=
  if N.of_nat (length (n_chan s)) <? cap_hs
  then mkN (n_verify_only s) (n_has_txm s) (n_version_rx s) (n_verack_rx s) (n_verack_sent s) (n_hs_alive s)
           (n_hs_complete s) (n_ready s) (n_verified s) (n_stopped s) (n_protoconf s) (n_chan s ++ [is_version])
  else s.

Definition accept (s : nst) : nst * list effect :=
  let s1 := mkN (n_verify_only s) (n_has_txm s) (n_version_rx s) (n_verack_rx s) (n_verack_sent s) (n_hs_alive s)
                (n_hs_complete s) true true (n_stopped s) (n_protoconf s) (n_chan s) in
  if n_verify_only s then (stop s1, [EStop])
  else (s1, [ESend 5; ESend 6; ESend 3; ESend 7]).

Fixpoint rep (n : nat) (e : effect) : list effect := match n with O => [] | S k => e :: rep k e end.

(* ---------------------------------------------------------------------------------------- *)
(* framing (C14): bytes of the payload a handler consumes, for a message whose header declares
   [len] payload bytes; [body] is what a conformant sender puts there *)

Definition varint_size (n : N) : N := if n <? 253 then 1 else if n <? 65536 then 3 else if n <? 4294967296 then 5 else 9.

(* how a handler deals with the payload of a frame that declares [len] bytes *)
Inductive rdisc :=
| RExact               (* readMessage (a reader limited to len), DiscardInput(len), or no handler *)
| RStream (reads : N)  (* pulls [reads] bytes through a counter; a deferred discard drops len - reads *)
| RRaw (reads : N)     (* pulls [reads] bytes and nothing else *)
| RNone.               (* returns without touching the payload *)

Definition is_ext (m : msg) : bool := match m with MTx true | MBlock true _ | MOther true => true | _ => false end.

(* the one handler that reads by item count instead of by declared length *)
Definition inv_reads (count : N) : N := varint_size count + 36 * count.
Definition headers_body (count : N) : N := varint_size count + 81 * count.

Definition handler_reads (s : nst) (m : msg) : rdisc :=
  match m with
  | MVersion | MVerack | MProtoconf | MPing | MReject => RExact              (* readMessage *)
  | MPong _ | MAddr _ => RExact                  (* readMessage when ready, no handler before *)
  | MGetAddr => if n_ready s then RNone else RExact     (* handleGetAddresses reads nothing *)
  | MSendHeaders | MOther _ => RExact            (* no handler: DiscardInput; extended: deferred discard *)
  | MHeaders count _ all_ok =>
      if n_ready s then RStream (if all_ok then headers_body count
                                 else if count =? 0 then varint_size count else varint_size count + 81)
      else if n_hs_complete s then RStream (if count =? 0 then varint_size count else varint_size count + 81)
      else RNone                                 (* as found (D26): returns before the deferred discard *)
  | MInv count => if n_ready s && n_has_txm s then RRaw (inv_reads count) else RExact
  | MTx _ => RExact                              (* readMessage, or DiscardInput when not ready / no manager *)
  | MBlock _ requested => if n_ready s && requested then RStream 81 else RExact  (* discardBlock drops the rest *)
  end.

Definition consumed_by (d : rdisc) (len : N) : N :=
  match d with RExact => len | RStream r => N.max len r | RRaw r => r | RNone => 0 end.


(* the payload length a conformant sender declares for a message of each class (free lengths get
   a representative value: the discipline of those classes does not depend on it) *)
Definition canonical_len (m : msg) : N :=
  match m with
  | MVersion => 100 | MVerack => 0 | MProtoconf => 10 | MPing => 8 | MPong _ => 8 | MReject => 50
  | MHeaders c _ _ => headers_body c | MAddr c => varint_size c + 30 * c | MGetAddr => 0
  | MInv c => inv_reads c | MTx _ => 200 | MBlock _ _ => 200 | MSendHeaders => 0 | MOther _ => 100
  end.

(* the reader loses its place: it took more or fewer bytes than the sender put there, so the next
   message header is read from the wrong offset and fails on the network magic *)
Definition desync (s : nst) (m : msg) : bool :=
  negb (consumed_by (handler_reads s m) (canonical_len m) =? canonical_len m).

(* the read loop handles one message *)
Definition recv (s : nst) (m : msg) : nst * list effect :=
  if n_stopped s then (s, [])
  else if desync s m then (stop s, [EStop])
  else match m with
  | MVersion => (push_hs s true, [])
  | MVerack => (push_hs s false, [])
  | MProtoconf =>
      let s1 := mkN (n_verify_only s) (n_has_txm s) (n_version_rx s) (n_verack_rx s) (n_verack_sent s) (n_hs_alive s)
                    (n_hs_complete s) (n_ready s) (n_verified s) (n_stopped s) (n_protoconf s + 1) (n_chan s) in
      if 1 <? n_protoconf s1 then (stop s1, [EStop]) else (s1, [])
  | MPing => (s, [ESend 4])
  | MPong ok => if n_ready s then (if ok then (s, []) else (stop s, [EStop])) else (s, [])
  | MReject => (s, [])
  | MHeaders count first all_ok =>
      if n_ready s then
        (* tracking: every header goes to the repository; a refused one stops the node *)
        if all_ok then (s, rep (N.to_nat count) ERepoProcess)
        else (stop s, [ERepoProcess; EStop])
      else if negb (n_hs_complete s) then (s, [])   (* "Discarding headers message" - but see desync: D26 *)
      else if count =? 0 then (stop s, [EStop])
      else match first with
           | HBsv => let '(s1, es) := accept s in (s1, ERepoVerify :: es)
           | _ => (stop s, [ERepoVerify; EStop])
           end
  | MAddr count => if n_ready s then (s, rep (N.to_nat count) EPeersAdd) else (s, [])
  | MGetAddr => if n_ready s then (s, [ESend 7]) else (s, [])
  | MInv count => if n_ready s && n_has_txm s then (s, rep (N.to_nat count) ETxID) else (s, [])
  | MTx _ => if n_ready s && n_has_txm s then (s, [ETx]) else (s, [])
  | MBlock _ requested => if n_ready s && requested then (s, [EBlockHandler]) else (s, [])
  | MSendHeaders => (s, [])
  | MOther _ => (s, [])
  end.

(* the handshake thread takes one message off its channel *)
Definition hs_step (s : nst) : nst * list effect :=
  if n_stopped s || negb (n_hs_alive s) then (s, [])
  else match n_chan s with
  | [] => (s, [])
  | is_version :: rest =>
      let vrx := n_version_rx s || is_version in
      let arx := n_verack_rx s || negb is_version in
      let send_ack := is_version && negb (n_verack_sent s) in
      let done := vrx && arx in
      (mkN (n_verify_only s) (n_has_txm s) vrx arx (n_verack_sent s || send_ack) (negb done)
           (n_hs_complete s || done) (n_ready s) (n_verified s) (n_stopped s) (n_protoconf s) rest,
       (if send_ack then [ESend 1] else []) ++ (if done then [ESend 2; ESend 3] else []))
  end.

Inductive action := ARecv (m : msg) | AHs.

Definition nstep (s : nst) (a : action) : nst * list effect :=
  match a with ARecv m => recv s m | AHs => hs_step s end.

Fixpoint nrun (s : nst) (acts : list action) : nst * list (list effect) :=
  match acts with
  | [] => (s, [])
  | a :: acts' => let '(s1, es) := nstep s a in
                  let '(s2, ess) := nrun s1 acts' in (s2, es :: ess)
  end.

Definition guarded_effect (e : effect) : bool :=
  match e with ERepoProcess | EPeersAdd | ETxID | ETx | EBlockHandler => true | _ => false end.

(* ---------------------------------------------------------------------------------------- *)
(* frames (C14) *)

Record frame := mkFrame {
  f_msg : msg;
  f_len : N;           (* declared payload length (extended: the 64-bit extended length) *)
  f_max : N            (* MaxPayloadLength of the message type *)
}.

(* bytes a conformant sender put on the wire for this frame, header(s) included *)
Definition consumed (s : nst) (f : frame) : N := 24 + (if is_ext (f_msg f) then 20 else 0) + f_len f.
(* bytes the reader takes off the wire before it looks for the next header *)
Definition consumed_code (s : nst) (f : frame) : N :=
  24 + (if is_ext (f_msg f) then 20 else 0) + consumed_by (handler_reads s (f_msg f)) (f_len f).

Definition well_formed (f : frame) : bool :=
  match f_msg f with
  | MInv count => f_len f =? inv_reads count
  | MHeaders count _ _ => f_len f =? headers_body count
  | MAddr count => f_len f =? varint_size count + 30 * count
  | MPing | MPong _ => f_len f =? 8
  | MVerack | MGetAddr | MSendHeaders => f_len f =? 0
  | MBlock _ _ => 81 <=? f_len f                (* a header and a transaction count at least *)
  | _ => true
  end.

(* ---------------------------------------------------------------------------------------- *)
(* reading a payload (C15): allocation requested for a declared length when only [avail] bytes
   will arrive.  asfound: make([]byte, len) up front. *)
Inductive rd := RdOk | RdErr | RdPanic.
Definition two63 : N := 9223372036854775808.

Definition read_payload (asfound : bool) (len max avail : N) : rd * N (* bytes allocated *) :=
  if max <? len then (RdErr, 0)
  else if asfound then
    if two63 <=? len then (RdPanic, 0) else (if avail <? len then RdErr else RdOk, len)
  else
    if two63 <=? len then (RdErr, 0)
    else (if avail <? len then RdErr else RdOk, N.min len avail * 2 + 512).

(* Count-driven handlers (inv, headers in tracking mode, addr): the declared item count drives a
   loop that reads one fixed-size item at a time straight from the connection and stops at the
   first read error; no list is sized by the count.  [avail] = the bytes that will arrive after
   the count.  Result: outcome, items handled, item slots allocated.
   presized: the list is allocated for the declared count before the loop (the shape of the
   seeded change C15d); the Go runtime panics in makeslice when count * 8 bytes exceeds its
   2^48-byte limit and otherwise allocates (and, far beyond the machine's memory, aborts). *)
Definition two45 : N := 35184372088832.
Definition read_items (presized : bool) (count item avail : N) : rd * N * N :=
  let can := avail / item in
  let n := N.min count can in
  let out := if count <=? can then RdOk else RdErr in
  if presized then (if two45 <? count then (RdPanic, 0, 0) else (out, n, count))
  else (out, n, n).

(* ---------------------------------------------------------------------------------------- *)
(* correspondence: a scripted session *)

Record ncase := mkNCase {
  nc_verify_only : bool; nc_has_txm : bool;
  nc_actions : list action;                  (* deterministic scripts: the peer waits for the node's
                                                answer between phases, so the interleaving is known *)
  nc_effects_before_verified : N;            (* guarded effects seen while Verified() was false *)
  nc_verified : bool; nc_ready : bool; nc_closed : bool;
  nc_pong : bool;                            (* a final ping was answered with its nonce *)
  nc_compare_final : bool                    (* the script is deterministic: compare final flags *)
}.

Definition ncase_ok (c : ncase) : bool :=
  (nc_effects_before_verified c =? 0) &&
  (negb (nc_verified c) || negb (nc_verify_only c) || nc_closed c) &&
  (if nc_compare_final c then
     let '(s, _) := nrun (ninit (nc_verify_only c) (nc_has_txm c)) (nc_actions c) in
     Bool.eqb (n_verified s) (nc_verified c) && Bool.eqb (n_ready s && negb (n_stopped s)) (nc_ready c && negb (nc_closed c)) &&
     Bool.eqb (n_stopped s) (nc_closed c) && Bool.eqb (negb (n_stopped s)) (nc_pong c)
   else (* racy script: only the property itself *) (nc_closed c || nc_pong c)).

Definition nmismatches (cs : list ncase) : list N := failing (map ncase_ok cs).

(* ---------------------------------------------------------------------------------------- *)
(* decoding a transaction (C15, known finding D18): wire.MsgTx.BtcDecode of the dependency
   github.com/tokenized/pkg sizes its input and output arrays by the declared counts before it
   reads the items; the only cap is maxTxInPerMessage = 2^48/41 + 1.  [avail] payload bytes follow
   the count.  Bytes requested from the allocator: *)
Definition max_tx_in : N := 281474976710655 / 41 + 1.
Definition tx_decode_alloc_as_found (declared_inputs avail : N) : option N :=
  if max_tx_in <? declared_inputs then None (* rejected *) else Some (declared_inputs * (64 + 8)).

(* ---------------------------------------------------------------------------------------- *)
(* DiscardInput (messages.go): n bytes are dropped in whole chunks plus a remainder.  Bytes taken
   off the connection when asked to discard n: *)
Definition discard_input (chunk n : N) : N :=
  (if 0 <? n then (n / chunk) * chunk else 0) + (if 0 <? n mod chunk then n mod chunk else 0).
