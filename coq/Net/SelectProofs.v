From BR Require Import Base.Prelude Net.Select.
Open Scope N_scope.

(* whoever is chosen is one of the manager's nodes and is eligible: not stopped, ready, not busy,
   and has the data when that is asked for *)
Lemma next_loop_sound fuel : forall use_has nodes off looped n nodes' off',
  next_loop fuel use_has nodes off looped = (Some n, nodes', off') ->
  In n nodes /\ eligible use_has n = true.
Proof.
  induction fuel as [|f IH]; intros use_has nodes off looped n nodes' off' H; cbn [next_loop] in H; [discriminate|].
  destruct (length nodes <=? off)%nat.
  - destruct (looped || (length nodes =? 0)%nat); [discriminate|]. exact (IH _ _ _ _ _ _ _ H).
  - destruct (nth_error nodes off) as [m|] eqn:E; [|discriminate].
    destruct (nd_stopped m) eqn:Es.
    + destruct (IH _ _ _ _ _ _ _ H) as [Hin He]. split; [|exact He].
      apply in_app_or in Hin. destruct Hin as [Hin|Hin].
      * clear - Hin. revert off Hin. induction nodes as [|a l IHl]; intros [|k] Hin; cbn in *; try contradiction.
        destruct Hin as [->|Hin]; [left; reflexivity|right; exact (IHl k Hin)].
      * clear - Hin. revert off Hin. induction nodes as [|a l IHl]; intros [|k] Hin; cbn in *; try contradiction.
        -- right. exact Hin.
        -- right. exact (IHl k Hin).
    + destruct (negb (nd_ready m)) eqn:Er; [exact (IH _ _ _ _ _ _ _ H)|].
      destruct (nd_busy m) eqn:Eb; [exact (IH _ _ _ _ _ _ _ H)|].
      destruct (use_has && negb (nd_has m)) eqn:Eh; [exact (IH _ _ _ _ _ _ _ H)|].
      inversion H; subst. split; [exact (nth_error_In _ _ E)|].
      unfold eligible. rewrite Es, Eb. apply negb_false_iff in Er. rewrite Er. cbn [negb andb].
      destruct use_has; cbn [negb orb andb] in *; [apply negb_false_iff in Eh; exact Eh|reflexivity].
Qed.

Theorem next_node_sound use_has nodes off n nodes' off' :
  next_node use_has nodes off = (Some n, nodes', off') -> In n nodes /\ eligible use_has n = true.
Proof. unfold next_node. destruct nodes as [|a l]; [discriminate|]. apply next_loop_sound. Qed.

(* C13 corollary: a node that is not ready is never chosen *)
Theorem not_ready_never_chosen use_has nodes off n nodes' off' :
  next_node use_has nodes off = (Some n, nodes', off') -> nd_ready n = true /\ nd_stopped n = false.
Proof.
  intros H. destruct (next_node_sound _ _ _ _ _ _ H) as [_ He]. unfold eligible in He.
  destruct (nd_stopped n); [discriminate|]. destruct (nd_ready n); [auto|discriminate].
Qed.

(* nothing but stopped nodes ever leaves the list *)
Lemma next_loop_keeps fuel : forall use_has nodes off looped r nodes' off',
  next_loop fuel use_has nodes off looped = (r, nodes', off') ->
  forall m, In m nodes -> nd_stopped m = false -> In m nodes'.
Proof.
  induction fuel as [|f IH]; intros use_has nodes off looped r nodes' off' H m Hm Hs; cbn [next_loop] in H.
  - inversion H; subst. exact Hm.
  - destruct (length nodes <=? off)%nat.
    + destruct (looped || (length nodes =? 0)%nat); [inversion H; subst; exact Hm|exact (IH _ _ _ _ _ _ _ H m Hm Hs)].
    + destruct (nth_error nodes off) as [k|] eqn:E; [|inversion H; subst; exact Hm].
      destruct (nd_stopped k) eqn:Es.
      * apply (IH _ _ _ _ _ _ _ H m); [|exact Hs].
        (* m is not the removed node (that one is stopped) *)
        clear - Hm Hs E Es. revert off E. induction nodes as [|a l IHl]; intros [|j] E; cbn in *; try discriminate.
        -- inversion E; subst. destruct Hm as [->|Hm]; [congruence|exact Hm].
        -- destruct Hm as [->|Hm]; [left; reflexivity|right; exact (IHl Hm j E)].
      * destruct (negb (nd_ready k)); [exact (IH _ _ _ _ _ _ _ H m Hm Hs)|].
        destruct (nd_busy k); [exact (IH _ _ _ _ _ _ _ H m Hm Hs)|].
        destruct (use_has && negb (nd_has k)); [exact (IH _ _ _ _ _ _ _ H m Hm Hs)|].
        inversion H; subst. exact Hm.
Qed.

Example select_example :
  let ns := [mkNd 1 false false false true; mkNd 2 true true false true; mkNd 3 false true true true;
             mkNd 4 false true false false; mkNd 5 false true false true] in
  fst (fst (next_node true ns 0)) = Some (mkNd 5 false true false true) /\
  fst (fst (next_node false ns 0)) = Some (mkNd 4 false true false false) /\
  fst (fst (next_node false ns 4)) = Some (mkNd 5 false true false true) /\
  fst (fst (next_node false [mkNd 1 false false false true] 0)) = None.
Proof. vm_compute. repeat split; reflexivity. Qed.
