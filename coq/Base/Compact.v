(* Compact "bits" <-> target <-> work, as computed by the dependency
   github.com/tokenized/pkg/bitcoin (ConvertToDifficulty / ConvertToWork / ConvertToBits),
   which /repo/headers uses for every header.  Line-by-line model, including the uint8 wrap of
   the length byte and the out-of-range byte store that makes the Go function panic (D5). *)
From BR Require Import Base.Prelude.
Open Scope N_scope.

Definition two256 : N := 2 ^ 256.
Definition all256 : N := two256 - 1.
Definition max_work : N := 2 ^ 224 - 1.        (* bitcoin.MaxWork: 28 bytes of ff *)
Definition max_bits : N := 486604799.          (* 0x1d00ffff *)

(* length byte and mantissa after the "remove leading zero" adjustment *)
Definition adj_len (bits : N) : N :=
  let len0 := (bits / 16777216) mod 256 in
  if (bits / 65536) mod 256 =? 0 then (len0 + 255) mod 256 else len0.
Definition adj_bits (bits : N) : N :=
  if (bits / 65536) mod 256 =? 0 then (bits * 256) mod 4294967296 else bits.

(* ConvertToDifficulty.  Go: b := make([]byte, length); if length > 0 {b[0]=..};
   if length >= 1 {b[1]=..}  <- index out of range when length = 1;  if length > 2 {b[2]=..} *)
Definition decode_bits (bits : N) : res N :=
  let len := adj_len bits in
  let b := adj_bits bits in
  let b0 := (b / 65536) mod 256 in
  let b1 := (b / 256) mod 256 in
  let b2 := b mod 256 in
  if len =? 0 then Ok 0
  else if len =? 1 then Panic 5
  else if len =? 2 then Ok (b0 * 256 + b1)
  else Ok ((b0 * 65536 + b1 * 256 + b2) * 256 ^ (len - 3)).

(* the guard added by the D5 repair at the top of ProcessHeader *)
Definition bits_valid (bits : N) : bool := negb (adj_len bits =? 1).

(* ConvertToWork: (All256Bits xor d) / (d+1) + 1 *)
Definition work_of_target (d : N) : N := N.lxor all256 d / (d + 1) + 1.

Definition work_of_bits (bits : N) : N :=
  match decode_bits bits with Ok d => work_of_target d | _ => 0 end.

(* ConvertToBits(difficulty, max): big-endian byte length, top three bytes, cap, sign pad *)
Definition byte_len (d : N) : N := (N.size d + 7) / 8.
Definition top3 (d : N) : N :=
  let l := byte_len d in
  if l <=? 3 then d * 256 ^ (3 - l) else d / 256 ^ (l - 3).
Definition encode_bits (d max : N) : N :=
  let l := byte_len d in
  let v := top3 d in
  let ml := (max / 16777216) mod 256 in
  let mv := max mod 16777216 in
  let '(l1, v1) := if (ml <? l) || ((ml =? l) && (mv <? v)) then (ml, mv) else (l, v) in
  let '(l2, v2) := if negb ((v1 / 8388608) mod 2 =? 0) then (l1 + 1, v1 / 256) else (l1, v1) in
  ((l2 * 16777216) mod 4294967296) + (v2 mod 16777216).

(* header.WorkIsValid(): hash value <= target *)
Definition work_is_valid (hash bits : N) : res bool :=
  match decode_bits bits with
  | Ok d => Ok (hash <=? d)
  | Err e => Err e
  | Panic s => Panic s
  end.
