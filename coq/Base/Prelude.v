(* Common imports and small utilities shared by every model file.  No proofs about the
   code live here; only generic list/number helpers and their lemmas. *)
From Coq Require Export List Bool Arith NArith ZArith Lia.
From Coq Require Export ZifyBool ZifyNat ZifyN.
Export ListNotations.

Ltac Zify.zify_post_hook ::= Z.div_mod_to_equations.

(* Three-valued result of a modelled Go function.  [Panic] stands for a Go runtime panic
   (index out of range, makeslice with a hostile size, nil dereference); "never crashes"
   theorems are statements that a function never returns [Panic]. *)
Inductive res (A : Type) : Type :=
| Ok (a : A)
| Err (code : N)
| Panic (site : N).
Arguments Ok {A} a.
Arguments Err {A} code.
Arguments Panic {A} site.

Definition is_panic {A} (r : res A) : bool :=
  match r with Panic _ => true | _ => false end.

Definition is_ok {A} (r : res A) : bool :=
  match r with Ok _ => true | _ => false end.

Fixpoint list_eqb {A} (eqb : A -> A -> bool) (l1 l2 : list A) : bool :=
  match l1, l2 with
  | [], [] => true
  | x :: l1', y :: l2' => eqb x y && list_eqb eqb l1' l2'
  | _, _ => false
  end.

Lemma list_eqb_spec {A} (eqb : A -> A -> bool)
      (H : forall x y, eqb x y = true <-> x = y) :
  forall l1 l2, list_eqb eqb l1 l2 = true <-> l1 = l2.
Proof.
  induction l1 as [|x l1 IH]; destruct l2 as [|y l2]; simpl; split; intro E;
    try reflexivity; try discriminate.
  - apply andb_true_iff in E as [E1 E2]. apply H in E1. apply IH in E2. congruence.
  - inversion E; subst. apply andb_true_iff; split; [apply H; reflexivity|apply IH; reflexivity].
Qed.

Definition option_eqb {A} (eqb : A -> A -> bool) (a b : option A) : bool :=
  match a, b with
  | None, None => true
  | Some x, Some y => eqb x y
  | _, _ => false
  end.

(* membership test on N lists *)
Fixpoint memN (x : N) (l : list N) : bool :=
  match l with [] => false | y :: l' => N.eqb x y || memN x l' end.

Lemma memN_In x l : memN x l = true <-> In x l.
Proof.
  induction l as [|y l IH]; simpl; [split; [discriminate|tauto]|].
  rewrite orb_true_iff, N.eqb_eq, IH. split; intros [E|E]; auto.
Qed.

Lemma memN_app x a b : memN x (a ++ b) = memN x a || memN x b.
Proof.
  induction a as [|y a IH]; cbn [app memN]; [reflexivity|].
  rewrite IH. rewrite orb_assoc. reflexivity.
Qed.

(* indices of the [false] entries of a list of checks: used by cases files *)
Fixpoint failing_from (i : N) (l : list bool) : list N :=
  match l with
  | [] => []
  | b :: l' => if b then failing_from (N.succ i) l' else i :: failing_from (N.succ i) l'
  end.
Definition failing (l : list bool) : list N := failing_from 0 l.

(* NoDup helpers missing from the 8.16 standard library *)
Lemma NoDup_app_l {A} (l1 l2 : list A) : NoDup (l1 ++ l2) -> NoDup l1.
Proof.
  induction l1 as [|x l1 IH]; cbn [app]; intros H; [constructor|].
  inversion H; subst. constructor; [|auto]. intros Hx. apply H2. apply in_or_app. left; exact Hx.
Qed.

Lemma NoDup_snoc {A} (l : list A) x : NoDup l -> ~ In x l -> NoDup (l ++ [x]).
Proof.
  induction l as [|y l IH]; cbn [app]; intros Hn Hx.
  - constructor; [intros []|constructor].
  - inversion Hn; subst. constructor.
    + rewrite in_app_iff. intros [H|[H|[]]]; [contradiction|]. subst. apply Hx. left; reflexivity.
    + apply IH; [assumption|]. intros H. apply Hx. right; exact H.
Qed.
