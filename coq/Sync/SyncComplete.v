(* C05, completeness of a round: with a fixed best chain and downloads that succeed, the round
   started by a trigger requests and processes exactly its plan - every best-chain block from the
   start height (or from right above the most recent processed block) up to the tip, in that
   order - and then ends; the reader is idle again with all of them recorded as processed. *)
From BR Require Import Base.Prelude Sync.Sync.
Open Scope N_scope.

Lemma step_success_last start s h x : s_mode s = Some [(h, x)] -> s_flag s = false ->
  sstep start s ESuccess = (mkS (s_chain s) (s_proc s ++ [x]) None false, [LProcessed x]).
Proof. intros Hm Hf. unfold sstep. rewrite Hm. unfold end_round. cbn [s_flag]. rewrite Hf. reflexivity. Qed.

Lemma step_success_more start s h x h2 x2 r : s_mode s = Some ((h, x) :: (h2, x2) :: r) ->
  sstep start s ESuccess =
  (mkS (s_chain s) (s_proc s ++ [x]) (Some ((h2, x2) :: r)) (s_flag s), [LProcessed x; LRequest h2 x2]).
Proof. intros Hm. unfold sstep. rewrite Hm. reflexivity. Qed.

Lemma successes_complete start : forall rem s, rem <> [] -> s_mode s = Some rem -> s_flag s = false ->
  let r := srun start s (repeat ESuccess (length rem)) in
  s_chain (fst r) = s_chain s /\ s_proc (fst r) = s_proc s ++ map snd rem /\
  s_mode (fst r) = None /\ s_flag (fst r) = false /\
  processed_of (snd r) = map snd rem /\ requests_of (snd r) = map snd (tl rem).
Proof.
  induction rem as [|[h x] rem IH]; intros s Hne Hm Hf; [congruence|].
  cbv zeta. cbn [length repeat srun].
  destruct rem as [|[h2 x2] r'].
  - rewrite (step_success_last start s h x Hm Hf). cbn. repeat split; reflexivity.
  - rewrite (step_success_more start s h x h2 x2 r' Hm).
    set (s1 := mkS (s_chain s) (s_proc s ++ [x]) (Some ((h2, x2) :: r')) (s_flag s)).
    specialize (IH s1). cbv zeta in IH.
    destruct IH as (Hc & Hp & Hmo & Hfl & Hpr & Hrq); [discriminate|reflexivity|exact Hf|].
    change (repeat ESuccess (length ((h2, x2) :: r'))) with (ESuccess :: repeat ESuccess (length r')) in *.
    destruct (srun start s1 (ESuccess :: repeat ESuccess (length r'))) as [s2 l2] eqn:E.
    cbn [fst snd] in *. rewrite Hc, Hp, Hmo, Hfl. cbn [s_chain s_proc s1].
    repeat split; try reflexivity.
    + rewrite <- app_assoc. reflexivity.
    + cbn [app processed_of flat_map]. fold (processed_of l2). rewrite Hpr. reflexivity.
    + cbn [app requests_of flat_map]. fold (requests_of l2). rewrite Hrq. reflexivity.
Qed.

Lemma step_trigger_idle start s : s_mode s = None -> s_flag s = false ->
  sstep start s ETrigger =
  match plan (s_chain s) start (s_proc s) with
  | [] => (mkS (s_chain s) (s_proc s) None false, [LRound])
  | (h, x) :: r => (mkS (s_chain s) (s_proc s) (Some ((h, x) :: r)) false, [LRound; LRequest h x])
  end.
Proof.
  intros Hm Hf. unfold sstep. rewrite Hm. unfold start_round.
  destruct (plan (s_chain s) start (s_proc s)) as [|[h x] r]; cbn [s_mode].
  - unfold end_round. cbn [s_flag]. rewrite Hf. reflexivity.
  - rewrite Hf. reflexivity.
Qed.

Theorem round_completes start s : s_mode s = None -> s_flag s = false ->
  let pl := plan (s_chain s) start (s_proc s) in
  let r := srun start s (ETrigger :: repeat ESuccess (length pl)) in
  s_chain (fst r) = s_chain s /\ s_proc (fst r) = s_proc s ++ map snd pl /\
  s_mode (fst r) = None /\
  requests_of (snd r) = map snd pl /\ processed_of (snd r) = map snd pl.
Proof.
  intros Hm Hf. cbv zeta. cbn [srun]. rewrite (step_trigger_idle start s Hm Hf).
  destruct (plan (s_chain s) start (s_proc s)) as [|[h x] r] eqn:Ep.
  - cbn. rewrite app_nil_r. repeat split; reflexivity.
  - set (s1 := mkS (s_chain s) (s_proc s) (Some ((h, x) :: r)) false).
    pose proof (successes_complete start ((h, x) :: r) s1) as H. cbv zeta in H.
    destruct H as (Hc & Hp & Hmo & Hfl & Hpr & Hrq); [discriminate|reflexivity|reflexivity|].
    destruct (srun start s1 (repeat ESuccess (length ((h, x) :: r)))) as [s2 l2] eqn:E.
    cbn [fst snd] in *. rewrite Hc, Hp, Hmo. cbn [s_chain s_proc s1].
    repeat split; try reflexivity.
    + cbn [app requests_of flat_map]. fold (requests_of l2). rewrite Hrq. reflexivity.
    + cbn [app processed_of flat_map]. fold (processed_of l2). rewrite Hpr. reflexivity.
Qed.

(* failed attempts and late completion callbacks of earlier downloads are stutter steps: whatever
   pattern of them is interleaved, the history does what it does without them *)
Definition is_stutter (e : ev) : bool := match e with EFail | ELate => true | _ => false end.

Lemma srun_stutter start : forall es s,
  srun start s es = srun start s (filter (fun e => negb (is_stutter e)) es).
Proof.
  induction es as [|e es IH]; intros s; [reflexivity|].
  cbn [filter]. destruct (is_stutter e) eqn:Est; cbn [negb].
  - assert (H : sstep start s e = (s, [])) by (destruct e; try discriminate; reflexivity).
    cbn [srun]. rewrite H, <- IH. destruct (srun start s es) as [s2 l2]. reflexivity.
  - cbn [srun]. destruct (sstep start s e) as [s1 l1]. rewrite IH. reflexivity.
Qed.

(* so: a round whose downloads fail any number of times and recover completes all the same *)
Theorem round_completes_despite_failures start s es : s_mode s = None -> s_flag s = false ->
  let pl := plan (s_chain s) start (s_proc s) in
  filter (fun e => negb (is_stutter e)) es = ETrigger :: repeat ESuccess (length pl) ->
  let r := srun start s es in
  s_chain (fst r) = s_chain s /\ s_proc (fst r) = s_proc s ++ map snd pl /\
  s_mode (fst r) = None /\
  requests_of (snd r) = map snd pl /\ processed_of (snd r) = map snd pl.
Proof.
  intros Hm Hf pl Hes. cbv zeta. rewrite srun_stutter, Hes. exact (round_completes start s Hm Hf).
Qed.
