From BR Require Import Base.Prelude Sync.Sync.
Open Scope N_scope.

Definition good (chain : list N) (start : nat) (proc : list N) (l : list (nat * N)) : Prop :=
  Forall (fun p => (start <= fst p)%nat /\ snd p = hash_at chain (fst p) /\ memN (snd p) proc = false) l.

Fixpoint contig (l : list (nat * N)) : Prop :=
  match l with
  | a :: ((b :: _) as r) => fst b = S (fst a) /\ contig r
  | _ => True
  end.

Definition head_height (l : list (nat * N)) (h : nat) : Prop :=
  match l with a :: _ => fst a = h | [] => False end.

(* where the walk stops: at the start height, or right above a processed block *)
Definition stops_right (chain : list N) (start : nat) (proc : list N) (lo : nat) : Prop :=
  lo = start \/ (exists k, lo = S k /\ memN (hash_at chain k) proc = true).

Lemma walk_down_spec chain start proc : forall h acc,
  good chain start proc acc -> contig acc -> head_height acc h ->
  let r := walk_down chain start proc h acc in
  good chain start proc r /\ contig r /\ (exists pre, r = pre ++ acc) /\
  exists lo, head_height r lo /\ (lo <= h)%nat /\ ((start <= h)%nat -> stops_right chain start proc lo).
Proof.
  induction h as [|h IH]; intros acc Hg Hc Hh; cbn [walk_down].
  - repeat split; auto. { exists []. reflexivity. }
    exists 0%nat. repeat split; auto. intros Hs. left. lia.
  - destruct (S h <=? start)%nat eqn:E.
    + apply Nat.leb_le in E. repeat split; auto. { exists []. reflexivity. }
      exists (S h). repeat split; auto. intros Hs. left. lia.
    + apply Nat.leb_gt in E.
      destruct (memN (hash_at chain h) proc) eqn:Em.
      * repeat split; auto. { exists []. reflexivity. }
        exists (S h). repeat split; auto. intros _. right. exists h. auto.
      * assert (Hg' : good chain start proc ((h, hash_at chain h) :: acc)).
        { constructor; [cbn; repeat split; [lia|exact Em]|exact Hg]. }
        assert (Hc' : contig ((h, hash_at chain h) :: acc)).
        { destruct acc as [|a acc]; [exact I|]. cbn in Hh. cbn. split; [lia|exact Hc]. }
        specialize (IH _ Hg' Hc' eq_refl). cbv zeta in IH.
        destruct IH as (G1 & G2 & (pre & G3) & lo & G4 & G5 & G6).
        repeat split; auto.
        { exists (pre ++ [(h, hash_at chain h)]). rewrite G3, <- app_assoc. reflexivity. }
        exists lo. repeat split; auto. intros _. apply G6. lia.
Qed.

(* C05, one round: every planned block is on the best chain at its height, at or above the start
   height and not processed; heights are contiguous ascending; the plan ends at the tip and begins
   at the start height or right above a processed block *)
Theorem plan_spec chain start proc :
  let p := plan chain start proc in
  good chain start proc p /\ contig p /\
  (p <> [] -> exists pre, p = pre ++ [((length chain - 1)%nat, hash_at chain (length chain - 1))]) /\
  (p <> [] -> exists lo, head_height p lo /\ stops_right chain start proc lo).
Proof.
  unfold plan, plan_gen. destruct chain as [|c0 chain']; cbv zeta.
  - repeat split; try constructor; intros H; contradiction.
  - remember (c0 :: chain') as chain eqn:Ech. remember (length chain - 1)%nat as H eqn:EH.
    destruct (H <? start)%nat eqn:E1; [repeat split; try constructor; intros X; contradiction|].
    apply Nat.ltb_ge in E1.
    destruct (memN (hash_at chain H) proc) eqn:E2; [repeat split; try constructor; intros X; contradiction|].
    assert (Hg : good chain start proc [(H, hash_at chain H)]).
    { constructor; [cbn; repeat split; [lia|exact E2]|constructor]. }
    destruct (walk_down_spec chain start proc H [(H, hash_at chain H)] Hg I eq_refl)
      as (G1 & G2 & (pre & G3) & lo & G4 & G5 & G6).
    repeat split; auto.
    + intros _. exists pre. exact G3.
    + intros _. exists lo. split; [exact G4|apply G6; exact E1].
Qed.

(* the walk as found requested a block below the start height when the tip was exactly at it *)
Theorem plan_as_found_refuted :
  exists chain start proc p, In p (plan_gen true chain start proc) /\ (fst p < start)%nat.
Proof. exists [10; 11; 12; 13], 3%nat, [], (2%nat, 12). split; [vm_compute; auto|cbn; lia]. Qed.

(* ---------------------------------------------------------------------------------------- *)
(* the multi-round state machine *)

Lemma hash_at_in chain k : (k < length chain)%nat -> In (hash_at chain k) chain.
Proof. intros H. unfold hash_at. apply nth_In. exact H. Qed.

Lemma hash_at_inj chain a b : NoDup chain -> (a < length chain)%nat -> (b < length chain)%nat ->
  hash_at chain a = hash_at chain b -> a = b.
Proof. intros Hn Ha Hb E. unfold hash_at in E. eapply NoDup_nth; eauto. Qed.

Fixpoint heights_lt (n : nat) (l : list (nat * N)) : Prop :=
  match l with [] => True | a :: r => (fst a < n)%nat /\ heights_lt n r end.

Lemma walk_down_heights chain start proc n : forall h acc, (h < n)%nat -> heights_lt n acc ->
  heights_lt n (walk_down chain start proc h acc).
Proof.
  induction h as [|h IH]; intros acc Hh Ha; cbn [walk_down]; [exact Ha|].
  destruct (S h <=? start)%nat; [exact Ha|]. destruct (memN _ proc); [exact Ha|].
  apply IH; [lia|]. cbn. split; [lia|exact Ha].
Qed.

Lemma plan_heights chain start proc : heights_lt (length chain) (plan chain start proc).
Proof.
  unfold plan, plan_gen. destruct chain as [|c0 chain']; [exact I|].
  set (chain := c0 :: chain'). cbv zeta.
  destruct (_ <? start)%nat; [exact I|]. destruct (memN _ proc); [exact I|].
  assert (length chain - 1 < length chain)%nat by (cbn; lia).
  apply walk_down_heights; [exact H|]. cbn. split; [exact H|exact I].
Qed.

(* strictly ascending heights: from contiguity *)
Lemma contig_nodup_heights l : contig l -> forall a, In a l -> forall b, In b l -> fst a = fst b -> a = b \/ True.
Proof. intros; right; exact I. Qed.

Lemma contig_lt l : contig l -> forall a r, l = a :: r -> Forall (fun b => (fst a < fst b)%nat) r.
Proof.
  induction l as [|x l IH]; intros Hc a r E; inversion E; subst. clear E.
  destruct r as [|b r]; [constructor|]. cbn in Hc. destruct Hc as [H1 H2].
  constructor; [lia|]. specialize (IH H2 b r eq_refl).
  eapply Forall_impl; [|exact IH]. intros c Hc. cbn in Hc. lia.
Qed.

Lemma plan_nodup chain start proc : NoDup chain -> NoDup (map snd (plan chain start proc)).
Proof.
  intros Hn. destruct (plan_spec chain start proc) as (Hg & Hc & _ & _).
  pose proof (plan_heights chain start proc) as Hl.
  induction (plan chain start proc) as [|a l IH]; [constructor|].
  cbn [map]. constructor.
  - intros Hin. apply in_map_iff in Hin. destruct Hin as (b & Eb & Hb).
    pose proof (contig_lt _ Hc a l eq_refl) as Hlt. rewrite Forall_forall in Hlt. specialize (Hlt b Hb).
    inversion Hg as [|? ? (Ha1 & Ha2 & Ha3) Hg']; subst.
    rewrite Forall_forall in Hg'. destruct (Hg' b Hb) as (Hb1 & Hb2 & Hb3).
    cbn in Hl. destruct Hl as [Hla Hll].
    assert (Hlb : (fst b < length chain)%nat).
    { clear - Hll Hb. induction l as [|c l IHl]; [contradiction|]. cbn in Hll. destruct Hll as [H1 H2].
      destruct Hb as [<-|Hb]; [exact H1|apply IHl; assumption]. }
    rewrite Ha2, Hb2 in Eb. apply (hash_at_inj chain _ _ Hn Hlb Hla) in Eb. lia.
  - apply IH.
    + inversion Hg; assumption.
    + destruct l as [|b l]; [exact I|]. cbn in Hc. tauto.
    + cbn in Hl. tauto.
Qed.

Definition SInv (start : nat) (s : sst) : Prop :=
  NoDup (s_proc s) /\
  match s_mode s with
  | None => True
  | Some rem => rem <> [] /\ contig rem /\ NoDup (map snd rem) /\
                Forall (fun p => (start <= fst p)%nat /\ ~ In (snd p) (s_proc s)) rem
  end.

Definition ev_ok (e : ev) : Prop := match e with EChain c => NoDup c | _ => True end.

Lemma start_round_inv start s : NoDup (s_chain s) -> NoDup (s_proc s) ->
  SInv start (fst (start_round start s)).
Proof.
  intros Hc Hp. unfold start_round.
  pose proof (plan_spec (s_chain s) start (s_proc s)) as (Hg & Hcg & _ & _).
  pose proof (plan_nodup (s_chain s) start (s_proc s) Hc) as Hn.
  destruct (plan (s_chain s) start (s_proc s)) as [|[h x] r] eqn:E; cbn [fst]; split; cbn; auto.
  split; [discriminate|]. split; [exact Hcg|]. split; [exact Hn|].
  eapply Forall_impl; [|exact Hg]. intros p (H1 & _ & H3). split; [exact H1|].
  intros Hin. apply memN_In in Hin. congruence.
Qed.

Record SI (start : nat) (s : sst) : Prop := mkSI { si_chain : NoDup (s_chain s); si_inv : SInv start s }.

Lemma end_round_inv start s : NoDup (s_chain s) -> NoDup (s_proc s) ->
  SI start (fst (end_round start s)).
Proof.
  intros Hc Hp. unfold end_round. destruct (s_flag s).
  - split.
    + unfold start_round. cbn. destruct (plan _ _ _) as [|[h x] r]; exact Hc.
    + apply start_round_inv; assumption.
  - split; [exact Hc|split; [exact Hp|exact I]].
Qed.

Theorem sstep_inv start s e : ev_ok e -> SI start s -> SI start (fst (sstep start s e)).
Proof.
  intros He [Hc [Hp Hm]]. destruct e; cbn [sstep].
  - split; [exact He|]. split; [exact Hp|exact Hm].
  - destruct (s_mode s) as [rem|] eqn:Em.
    + split; [exact Hc|]. split; [exact Hp|]. cbn. try rewrite Em in Hm. exact Hm.
    + pose proof (start_round_inv start s Hc Hp) as H1.
      assert (Hc1 : NoDup (s_chain (fst (start_round start s)))).
      { unfold start_round. destruct (plan _ _ _) as [|[h x] r]; exact Hc. }
      destruct (start_round start s) as [s1 l1] eqn:E1. cbn [fst] in *.
      destruct (s_mode s1) eqn:Em1.
      * cbn [fst]. split; assumption.
      * destruct (end_round start s1) as [s2 l2] eqn:E2. cbn [fst].
        pose proof (end_round_inv start s1 Hc1 (proj1 H1)) as H2. rewrite E2 in H2. exact H2.
  - destruct (s_mode s) as [[|[h x] r]|] eqn:Em; try (cbn [fst]; split; [exact Hc|split; [exact Hp|try rewrite Em; exact Hm]]).
    try rewrite Em in Hm. destruct Hm as (_ & Hcg & Hn & Hf).
    inversion Hf as [|? ? (Hx1 & Hx2) Hf']; subst. cbn in Hx2.
    assert (Hp' : NoDup (s_proc s ++ [x])) by (apply NoDup_snoc; assumption).
    destruct r as [|[h2 x2] r'].
    + destruct (end_round start _) as [s2 l2] eqn:E2. cbn [fst].
      pose proof (end_round_inv start (mkS (s_chain s) (s_proc s ++ [x]) None (s_flag s)) Hc Hp') as H2.
      rewrite E2 in H2. exact H2.
    + cbn [fst]. split; [exact Hc|]. split; [exact Hp'|]. cbn [s_mode s_proc].
      split; [discriminate|]. split; [cbn in Hcg; tauto|]. cbn [map] in Hn. inversion Hn as [|? ? Hni Hn']; subst.
      split; [exact Hn'|].
      rewrite Forall_forall in *. intros p Hpin. destruct (Hf' p Hpin) as [Hq1 Hq2]. split; [exact Hq1|].
      intros Hin. apply in_app_or in Hin. destruct Hin as [Hin|[Hin|[]]]; [contradiction|].
      apply Hni. change (x2 :: map snd r') with (map snd ((h2, x2) :: r')). apply in_map_iff. exists p. split; [symmetry; exact Hin|exact Hpin].
  - split; [exact Hc|split; [exact Hp|exact Hm]].
  - split; [exact Hc|split; [exact Hp|exact Hm]].
  - destruct (s_mode s) as [[|[h x] r]|] eqn:Em; try (cbn [fst]; split; [exact Hc|split; [exact Hp|try rewrite Em; exact Hm]]).
    destruct (hash_at (s_chain s) h =? x); [cbn [fst]; split; [exact Hc|split; [exact Hp|try rewrite Em; exact Hm]]|].
    destruct (end_round start _) as [s2 l2] eqn:E2. cbn [fst].
    pose proof (end_round_inv start (mkS (s_chain s) (s_proc s) None (s_flag s)) Hc Hp) as H2.
    rewrite E2 in H2. exact H2.
Qed.

(* what a step logs: requests are at or above the start height and not of a processed block;
   a block is recorded as processed only if it was not before *)
Definition lg_ok (start : nat) (proc_after : list N) (proc_before : list N) (x : lg) : Prop :=
  match x with
  | LRequest h b => (start <= h)%nat /\ ~ In b proc_after
  | LProcessed b => ~ In b proc_before
  | _ => True
  end.

Lemma start_round_log start s : NoDup (s_chain s) -> NoDup (s_proc s) ->
  Forall (lg_ok start (s_proc s) (s_proc s)) (snd (start_round start s)) /\
  s_proc (fst (start_round start s)) = s_proc s.
Proof.
  intros Hc Hp. pose proof (start_round_inv start s Hc Hp) as [_ H]. unfold start_round in *.
  destruct (plan _ _ _) as [|[h x] r]; cbn in *; split; auto; repeat constructor.
  - destruct H as (_ & _ & _ & Hf). inversion Hf as [|? ? [H1 _] _]; exact H1.
  - destruct H as (_ & _ & _ & Hf). inversion Hf as [|? ? [_ H2] _]; exact H2.
Qed.

Lemma end_round_log start s : NoDup (s_chain s) -> NoDup (s_proc s) ->
  Forall (lg_ok start (s_proc s) (s_proc s)) (snd (end_round start s)) /\
  s_proc (fst (end_round start s)) = s_proc s.
Proof.
  intros Hc Hp. unfold end_round. destruct (s_flag s); [|cbn; split; [constructor|reflexivity]].
  apply (start_round_log start (mkS (s_chain s) (s_proc s) None false) Hc Hp).
Qed.

Theorem sstep_log start s e : ev_ok e -> SI start s ->
  Forall (lg_ok start (s_proc (fst (sstep start s e))) (s_proc s)) (snd (sstep start s e)) /\
  s_proc (fst (sstep start s e)) = s_proc s ++ processed_of (snd (sstep start s e)).
Proof.
  intros He [Hc [Hp Hm]]. destruct e; cbn [sstep].
  - cbn. split; [constructor|rewrite app_nil_r; reflexivity].
  - destruct (s_mode s) as [rem|] eqn:Em; [cbn; split; [constructor|rewrite app_nil_r; reflexivity]|].
    pose proof (start_round_log start s Hc Hp) as [L1 P1].
    pose proof (start_round_inv start s Hc Hp) as I1.
    assert (Hc1 : NoDup (s_chain (fst (start_round start s)))).
    { unfold start_round. destruct (plan _ _ _) as [|[h x] r]; exact Hc. }
    assert (Pr1 : processed_of (snd (start_round start s)) = []).
    { unfold start_round. destruct (plan _ _ _) as [|[h x] r]; reflexivity. }
    destruct (start_round start s) as [s1 l1] eqn:E1. cbn [fst snd] in *.
    destruct (s_mode s1) eqn:Em1.
    + cbn [fst snd]. rewrite P1. split; [exact L1|rewrite Pr1, app_nil_r; reflexivity].
    + pose proof (end_round_log start s1 Hc1 (proj1 I1)) as [L2 P2].
      assert (Pr2 : processed_of (snd (end_round start s1)) = []).
      { unfold end_round, start_round. destruct (s_flag s1); [|reflexivity]. cbn.
        destruct (plan _ _ _) as [|[h x] r]; reflexivity. }
      destruct (end_round start s1) as [s2 l2] eqn:E2. cbn [fst snd] in *.
      rewrite P2, P1. split.
      * apply Forall_app. split; [exact L1|]. rewrite P1 in L2. exact L2.
      * unfold processed_of in *. rewrite ?flat_map_app, Pr1, Pr2. rewrite app_nil_r. reflexivity.
  - destruct (s_mode s) as [[|[h x] r]|] eqn:Em; try (cbn; split; [constructor|rewrite app_nil_r; reflexivity]).
    try rewrite Em in Hm. destruct Hm as (_ & Hcg & Hn & Hf).
    inversion Hf as [|? ? (Hx1 & Hx2) Hf']; subst. cbn in Hx2.
    assert (Hp' : NoDup (s_proc s ++ [x])) by (apply NoDup_snoc; assumption).
    destruct r as [|[h2 x2] r'].
    + pose proof (end_round_log start (mkS (s_chain s) (s_proc s ++ [x]) None (s_flag s)) Hc Hp') as [L2 P2].
      assert (Pr2 : processed_of (snd (end_round start (mkS (s_chain s) (s_proc s ++ [x]) None (s_flag s)))) = []).
      { unfold end_round, start_round. cbn. destruct (s_flag s); [|reflexivity]. cbn.
        destruct (plan _ _ _) as [|[hh xx] rr]; reflexivity. }
      destruct (end_round start _) as [s2 l2] eqn:E2. cbn [fst snd] in *. rewrite P2. split.
      * constructor; [exact Hx2|]. eapply Forall_impl; [|exact L2].
        intros [] Hl; cbn in *; auto. intros Hin. apply Hl. apply in_or_app. left. exact Hin.
      * cbn. unfold processed_of in Pr2. rewrite Pr2. reflexivity.
    + cbn [fst snd s_proc]. split.
      * constructor; [exact Hx2|]. constructor; [|constructor]. cbn.
        inversion Hf' as [|? ? (Hy1 & Hy2) _]; subst. cbn in *. split; [exact Hy1|].
        intros Hin. apply in_app_or in Hin. destruct Hin as [Hin|[Hin|[]]]; [contradiction|].
        cbn [map] in Hn. inversion Hn as [|? ? Hni _]. apply Hni. left. symmetry. exact Hin.
      * reflexivity.
  - cbn. split; [constructor|rewrite app_nil_r; reflexivity].
  - cbn. split; [constructor|rewrite app_nil_r; reflexivity].
  - destruct (s_mode s) as [[|[h x] r]|] eqn:Em; try (cbn; split; [constructor|rewrite app_nil_r; reflexivity]).
    destruct (hash_at (s_chain s) h =? x); [cbn; split; [constructor|rewrite app_nil_r; reflexivity]|].
    pose proof (end_round_log start (mkS (s_chain s) (s_proc s) None (s_flag s)) Hc Hp) as [L2 P2].
    assert (Pr2 : processed_of (snd (end_round start (mkS (s_chain s) (s_proc s) None (s_flag s)))) = []).
    { unfold end_round, start_round. cbn. destruct (s_flag s); [|reflexivity]. cbn.
      destruct (plan _ _ _) as [|[hh xx] rr]; reflexivity. }
    destruct (end_round start _) as [s2 l2] eqn:E2. cbn [fst snd] in *. rewrite P2. split.
    + constructor; [exact I|exact L2].
    + cbn. unfold processed_of in Pr2. rewrite Pr2, app_nil_r. reflexivity.
Qed.

(* ---------------------------------------------------------------------------------------- *)
(* whole histories *)

Theorem srun_inv start : forall es s, Forall ev_ok es -> SI start s -> SI start (fst (srun start s es)).
Proof.
  induction es as [|e es IH]; intros s He Hs; cbn [srun]; [exact Hs|].
  inversion He as [|? ? He1 He2]; subst.
  pose proof (sstep_inv start s e He1 Hs) as H1.
  destruct (sstep start s e) as [s1 l1]. cbn [fst] in H1.
  specialize (IH s1 He2 H1). destruct (srun start s1 es) as [s2 l2]. exact IH.
Qed.

Theorem srun_processed start : forall es s, Forall ev_ok es -> SI start s ->
  s_proc (fst (srun start s es)) = s_proc s ++ processed_of (snd (srun start s es)).
Proof.
  induction es as [|e es IH]; intros s He Hs; cbn [srun]; [cbn; rewrite app_nil_r; reflexivity|].
  inversion He as [|? ? He1 He2]; subst.
  pose proof (sstep_inv start s e He1 Hs) as H1.
  pose proof (sstep_log start s e He1 Hs) as [_ P1].
  destruct (sstep start s e) as [s1 l1]. cbn [fst snd] in *.
  specialize (IH s1 He2 H1). destruct (srun start s1 es) as [s2 l2]. cbn [fst snd] in *.
  rewrite IH, P1. unfold processed_of. rewrite flat_map_app, app_assoc. reflexivity.
Qed.

(* every block is processed at most once in a whole history, and never one that was already
   recorded as processed at the beginning *)
Theorem processed_once start es s : Forall ev_ok es -> SI start s ->
  NoDup (processed_of (snd (srun start s es))) /\
  forall x, In x (processed_of (snd (srun start s es))) -> ~ In x (s_proc s).
Proof.
  intros He Hs. pose proof (srun_inv start es s He Hs) as [_ [Hn _]].
  rewrite (srun_processed start es s He Hs) in Hn. split.
  - clear - Hn. induction (s_proc s) as [|a l IH]; [exact Hn|]. inversion Hn; auto.
  - intros x Hx Hin. clear - Hn Hx Hin.
    induction (s_proc s) as [|a l IH]; [contradiction|]. cbn in Hn. inversion Hn as [|? ? Hna Hn']; subst.
    destruct Hin as [->|Hin]; [apply Hna; apply in_or_app; right; exact Hx|apply IH; assumption].
Qed.

(* every request of a whole history is at or above the start height *)
Theorem requests_above_start start : forall es s, Forall ev_ok es -> SI start s ->
  Forall (fun h => (start <= h)%nat) (request_heights_of (snd (srun start s es))).
Proof.
  induction es as [|e es IH]; intros s He Hs; cbn [srun]; [constructor|].
  inversion He as [|? ? He1 He2]; subst.
  pose proof (sstep_inv start s e He1 Hs) as H1.
  pose proof (sstep_log start s e He1 Hs) as [L1 _].
  destruct (sstep start s e) as [s1 l1]. cbn [fst snd] in *.
  specialize (IH s1 He2 H1). destruct (srun start s1 es) as [s2 l2]. cbn [fst snd] in *.
  unfold request_heights_of. rewrite flat_map_app. apply Forall_app. split; [|exact IH].
  clear - L1. induction l1 as [|x l IHl]; [constructor|]. inversion L1 as [|? ? Hx Hl]; subst.
  destruct x; cbn; auto. constructor; [cbn in Hx; tauto|auto].
Qed.

(* a pending block that left the best chain is abandoned at the next tick, the round ends, and if
   a trigger arrived meanwhile the next round plans on the chain as it is now *)
Theorem orphan_abandoned start s h x r : s_mode s = Some ((h, x) :: r) -> hash_at (s_chain s) h <> x ->
  let '(s', l) := sstep start s ETick in
  In (LAbandon x) l /\ s_proc s' = s_proc s /\
  (s_flag s = false -> s_mode s' = None) /\
  (s_flag s = true -> s_flag s' = false /\
     s_mode s' = match plan (s_chain s) start (s_proc s) with [] => None | p => Some p end).
Proof.
  intros Em Hne. cbn [sstep]. rewrite Em. apply N.eqb_neq in Hne. rewrite Hne.
  unfold end_round, start_round. cbn [s_flag s_chain s_proc].
  destruct (s_flag s).
  - destruct (plan (s_chain s) start (s_proc s)) as [|[h1 x1] r1]; cbn; repeat split; auto; discriminate.
  - cbn. repeat split; auto; discriminate.
Qed.

(* a round's requests are exactly the plan made when it started, as long as it is not cut short:
   the n-th success is followed by the request of the plan's next block *)
Theorem next_request_is_next_planned start s h x h2 x2 r : s_mode s = Some ((h, x) :: (h2, x2) :: r) ->
  sstep start s ESuccess =
  (mkS (s_chain s) (s_proc s ++ [x]) (Some ((h2, x2) :: r)) (s_flag s), [LProcessed x; LRequest h2 x2]).
Proof. intros Em. cbn [sstep]. rewrite Em. reflexivity. Qed.

Example sync_example :
  let c1 := [100; 101; 102; 103; 104; 105] in
  let c2 := [100; 101; 102; 203; 204; 205; 206] in
  snd (srun 2 (sinit c1 [102]) [ETrigger; ESuccess; EFail; EChain c2; ETrigger; ETick; ESuccess; ESuccess; ESuccess; ESuccess]) =
  [LRound; LRequest 3 103; LProcessed 103; LRequest 4 104; LAbandon 104;
   LRound; LRequest 3 203; LProcessed 203; LRequest 4 204; LProcessed 204; LRequest 5 205; LProcessed 205;
   LRequest 6 206; LProcessed 206].
Proof. vm_compute. reflexivity. Qed.
