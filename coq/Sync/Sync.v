(* Block synchronisation of the NodeManager (node_manager.go: TriggerBlockSynchronize,
   runSynchronizeBlocks, synchronizeBlocks) for C05.

   A best chain is the list of its block hashes by height (index = height).  The set of processed
   blocks is what BlockTxManager.FetchBlockTxIDs reports as existing.  One round walks back from
   the tip to the most recent processed block (or the start height) and then requests the blocks
   ascending, waiting for each; the BlockManager below retries a failing download of the same
   block until it succeeds or is aborted (block_manager.go processRequest), so a failure is a
   stutter step here.  A tick is the 10 s poll that aborts a pending block which left the best
   chain. *)
From BR Require Import Base.Prelude.
Open Scope N_scope.

Definition hash_at (chain : list N) (h : nat) : N := nth h chain 0.

(* the walk back, repaired (D15): the start height is tested before stepping to the parent *)
Fixpoint walk_down (chain : list N) (start : nat) (proc : list N) (h : nat) (acc : list (nat * N))
  : list (nat * N) :=
  match h with
  | O => acc
  | S h' => if (h <=? start)%nat then acc
            else let p := hash_at chain h' in
                 if memN p proc then acc else walk_down chain start proc h' ((h', p) :: acc)
  end.

(* as found: the test came after the step, so a tip exactly at the start height pulled in the
   block below it; reaching genesis abandoned the round *)
Fixpoint walk_down_af (chain : list N) (start : nat) (proc : list N) (h : nat) (acc : list (nat * N))
  : list (nat * N) :=
  match h with
  | O => []
  | S h' => let p := hash_at chain h' in
            if memN p proc then acc
            else if (h' <=? start)%nat then (h', p) :: acc
            else walk_down_af chain start proc h' ((h', p) :: acc)
  end.

Definition plan_gen (af : bool) (chain : list N) (start : nat) (proc : list N) : list (nat * N) :=
  match chain with
  | [] => []
  | _ => let H := (length chain - 1)%nat in
         if (H <? start)%nat then []
         else let t := hash_at chain H in
              if memN t proc then []
              else (if af then walk_down_af else walk_down) chain start proc H [(H, t)]
  end.
Definition plan := plan_gen false.

(* ---------------------------------------------------------------------------------------- *)
Inductive ev :=
| EChain (c : list N)      (* the header repository's best chain becomes c *)
| ETrigger                 (* TriggerBlockSynchronize *)
| ESuccess                 (* the pending block's download completes: recorded as processed *)
| EFail                    (* a download attempt fails (no node / dropped / wrong block): retried *)
| ELate                    (* the completion callback of a download thread of an EARLIER block
                              arrives (its thread ended late): it is not the pending request's *)
| ETick.                   (* the 10 s poll of the waiting round *)

Record sst := mkS {
  s_chain : list N;
  s_proc : list N;                     (* processed blocks, oldest first *)
  s_mode : option (list (nat * N));    (* running round: blocks still to do, head = pending request *)
  s_flag : bool                        (* blockSyncNeeded *)
}.

Inductive lg := LRound | LRequest (h : nat) (x : N) | LProcessed (x : N) | LAbandon (x : N).

Definition start_round (start : nat) (s : sst) : sst * list lg :=
  match plan (s_chain s) start (s_proc s) with
  | [] => (mkS (s_chain s) (s_proc s) None (s_flag s), [LRound])
  | (h, x) :: r => (mkS (s_chain s) (s_proc s) (Some ((h, x) :: r)) (s_flag s), [LRound; LRequest h x])
  end.

(* a round that ends with the restart flag set is followed by another one (runSynchronizeBlocks) *)
Definition end_round (start : nat) (s : sst) : sst * list lg :=
  if s_flag s then start_round start (mkS (s_chain s) (s_proc s) None false)
  else (mkS (s_chain s) (s_proc s) None false, []).

Definition sstep (start : nat) (s : sst) (e : ev) : sst * list lg :=
  match e with
  | EChain c => (mkS c (s_proc s) (s_mode s) (s_flag s), [])
  | ETrigger =>
      match s_mode s with
      | None => (* a round that finds nothing to do ends at once, and honours the flag *)
          let '(s1, l1) := start_round start s in
          match s_mode s1 with
          | None => let '(s2, l2) := end_round start s1 in (s2, l1 ++ l2)
          | Some _ => (s1, l1)
          end
      | Some _ => (mkS (s_chain s) (s_proc s) (s_mode s) true, [])
      end
  | ESuccess =>
      match s_mode s with
      | Some ((h, x) :: r) =>
          let s1 := mkS (s_chain s) (s_proc s ++ [x]) None (s_flag s) in
          match r with
          | [] => let '(s2, l2) := end_round start s1 in (s2, LProcessed x :: l2)
          | (h2, x2) :: _ => (mkS (s_chain s) (s_proc s ++ [x]) (Some r) (s_flag s), [LProcessed x; LRequest h2 x2])
          end
      | _ => (s, [])
      end
  | EFail => (s, [])
  | ELate => (s, [])
  | ETick =>
      match s_mode s with
      | Some ((h, x) :: r) =>
          if hash_at (s_chain s) h =? x then (s, [])
          else let '(s2, l2) := end_round start (mkS (s_chain s) (s_proc s) None (s_flag s)) in
               (s2, LAbandon x :: l2)
      | _ => (s, [])
      end
  end.

Fixpoint srun (start : nat) (s : sst) (es : list ev) : sst * list lg :=
  match es with
  | [] => (s, [])
  | e :: es' => let '(s1, l1) := sstep start s e in
                let '(s2, l2) := srun start s1 es' in (s2, l1 ++ l2)
  end.

Definition sinit (chain proc : list N) : sst := mkS chain proc None false.

(* ---------------------------------------------------------------------------------------- *)
(* correspondence: the harness drives a real NodeManager + BlockManager with the same events and
   reports the blocks handed to the block source (consecutive repeats of one hash removed), the
   blocks whose coinbase reached the processor, and the processed set at quiescence *)
Definition requests_of (l : list lg) : list N :=
  flat_map (fun x => match x with LRequest _ h => [h] | _ => [] end) l.
Definition processed_of (l : list lg) : list N :=
  flat_map (fun x => match x with LProcessed h => [h] | _ => [] end) l.
Definition request_heights_of (l : list lg) : list nat :=
  flat_map (fun x => match x with LRequest h _ => [h] | _ => [] end) l.

Fixpoint listN_eqb (a b : list N) : bool :=
  match a, b with
  | [], [] => true
  | x :: a', y :: b' => (x =? y) && listN_eqb a' b'
  | _, _ => false
  end.
Fixpoint listnat_eqb (a b : list nat) : bool :=
  match a, b with
  | [], [] => true
  | x :: a', y :: b' => Nat.eqb x y && listnat_eqb a' b'
  | _, _ => false
  end.

Fixpoint heights_ok (m o : list nat) (k : list bool) : bool :=
  match m, o, k with
  | [], [], [] => true
  | a :: m', b :: o', kk :: k' => (negb kk || Nat.eqb a b) && heights_ok m' o' k'
  | _, _, _ => false
  end.

Record ycase := mkYCase {
  y_start : nat; y_chain : list N; y_proc : list N; y_events : list ev;
  y_requests : list N;
  y_heights : list nat; y_hknown : list bool;   (* height handed down with each request; known for
                                                   the blocks that were eventually confirmed *)
  y_processed : list N; y_final : list N;
  y_idle : bool            (* no synchronisation thread is running at the end *)
}.

Definition ycase_ok (c : ycase) : bool :=
  let '(s, l) := srun (y_start c) (sinit (y_chain c) (y_proc c)) (y_events c) in
  listN_eqb (requests_of l) (y_requests c) && heights_ok (request_heights_of l) (y_heights c) (y_hknown c) &&
  listN_eqb (processed_of l) (y_processed c) && listN_eqb (s_proc s) (y_final c) &&
  Bool.eqb (match s_mode s with None => true | Some _ => false end) (y_idle c).
Definition ymismatches (cs : list ycase) : list N := failing (map ycase_ok cs).
