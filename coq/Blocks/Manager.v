(* BlockManager (block_manager.go) for C16: the bookkeeping of one queued request after another -
   downloader registry, retry timer, completion / abort signalling - for any number of
   downloaders, as a step function over events. *)
From BR Require Import Base.Prelude.
Open Scope N_scope.

Inductive ev :=
| ENewRequest (h : N)                 (* Run takes the next request off the queue *)
| ETick (source_ok : bool)            (* retry timer; does the requestor have a node? *)
| EFinish (id : N) (ok : bool)        (* a downloader's Run returned (nil error or not) *)
| EAbort                              (* the requester gave up on the current request *)
| ESeeComplete.                       (* processRequest notices currentComplete is closed *)

Inductive sig := SCompleted (h : N) | SAborted (h : N) | SNone.

Record mst := mkM {
  cur : option N;                     (* hash of the request being processed *)
  cur_done : bool;                    (* currentIsComplete *)
  dls : list (N * N);                 (* registry: (downloader id, block hash) *)
  next_id : N;
  idle : N;                           (* countWithoutActiveDownload *)
  failed : bool                       (* processRequest returned ErrNodeNotAvailable: Run exits *)
}.

Definition active (h : N) (l : list (N * N)) : N := N.of_nat (length (filter (fun p => snd p =? h) l)).

Definition start_dl (h : N) (m : mst) : mst :=
  mkM (cur m) (cur_done m) (dls m ++ [(next_id m, h)]) (next_id m + 1) (idle m) (failed m).

Definition mstep (concurrent : N) (m : mst) (e : ev) : mst * sig :=
  if failed m then (m, SNone) else
  match e with
  | ENewRequest h =>
      match cur m with
      | Some _ => (m, SNone)          (* one request at a time *)
      | None => (mkM (Some h) false (dls m) (next_id m) 0 false, SNone)
      end
  | ETick ok =>
      match cur m with
      | None => (m, SNone)
      | Some h =>
          let a := active h (dls m) in
          let idle' := if 0 <? a then 0 else idle m + 1 in
          let m1 := mkM (cur m) (cur_done m) (dls m) (next_id m) idle' false in
          let m2 := if (a <? concurrent) && ok then start_dl h m1 else m1 in
          if 20 <? idle' then (mkM (cur m2) (cur_done m2) (dls m2) (next_id m2) idle' true, SNone)
          else (m2, SNone)
      end
  | EFinish id ok =>
      match List.find (fun p => fst p =? id) (dls m) with
      | None => (m, SNone)
      | Some (_, h) =>
          let l := filter (fun p => negb (fst p =? id)) (dls m) in
          let done := cur_done m || (ok && match cur m with Some c => c =? h | None => false end) in
          (mkM (cur m) done l (next_id m) (idle m) false, SNone)
      end
  | EAbort =>
      match cur m with
      | None => (m, SNone)
      | Some h => (mkM None false (dls m) (next_id m) 0 false, SAborted h)
      end
  | ESeeComplete =>
      match cur m with
      | Some h => if cur_done m then (mkM None false (dls m) (next_id m) 0 false, SCompleted h)
                  else (m, SNone)
      | None => (m, SNone)
      end
  end.

(* the first request also sends one block request immediately (before the first tick) *)
Definition mstep' (concurrent : N) (m : mst) (e : ev) : mst * sig :=
  match e, cur m with
  | ENewRequest h, None =>
      if failed m then (m, SNone)
      else (start_dl h (mkM (Some h) false (dls m) (next_id m) 0 false), SNone)
  | _, _ => mstep concurrent m e
  end.

Fixpoint mrun (concurrent : N) (m : mst) (es : list ev) : mst * list sig :=
  match es with
  | [] => (m, [])
  | e :: es' => let '(m1, s) := mstep' concurrent m e in
                let '(m2, ss) := mrun concurrent m1 es' in (m2, s :: ss)
  end.

Definition minit : mst := mkM None false [] 0 0 false.
