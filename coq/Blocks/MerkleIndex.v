(* C18: what "the path recomputes the root" pins down about the INDEX, for an injective node hash:
   every index bit inside the tree.  Flipping bit k (k < path length) swaps the two operands of
   level k; the roots can then agree only if the two operands of that level are equal - the case
   CalculateRoot refuses as a bad index.  (Bits at or above the path length do not enter the
   computation at all; the repaired VerifyMerkleProof refuses them, D19.) *)
From BR Require Import Base.Prelude Blocks.Merkle.
Open Scope N_scope.

Section Index.
  Variable H : N -> N -> N.
  Hypothesis H_inj : forall a b c d, H a b = H c d -> a = c /\ b = d.

  (* no level of the computation pairs a value with itself *)
  Fixpoint distinct_operands (cur : N) (path : list N) (i : nat) : Prop :=
    match path with
    | [] => True
    | s :: p => cur <> s /\ distinct_operands (if Nat.even i then H cur s else H s cur) p (Nat.div2 i)
    end.

  Lemma calc_root_binds_index_gen : forall p c1 c2 i j, distinct_operands c1 p i ->
    calc_root H c1 p i = calc_root H c2 p j ->
    c1 = c2 /\ forall k, (k < length p)%nat -> Nat.testbit i k = Nat.testbit j k.
  Proof.
    induction p as [|s p IH]; intros c1 c2 i j Hd He; cbn [calc_root length] in *.
    - split; [exact He|]. intros k Hk. inversion Hk.
    - destruct Hd as [Hne Hd].
      destruct (IH _ _ _ _ Hd He) as [Hc Hb].
      assert (Hpar : c1 = c2 /\ Nat.even i = Nat.even j).
      { destruct (Nat.even i) eqn:Ei, (Nat.even j) eqn:Ej.
        - apply H_inj in Hc. split; [tauto|reflexivity].
        - apply H_inj in Hc. destruct Hc as [Ha _]. contradiction.
        - apply H_inj in Hc. destruct Hc as [Ha Hb']. subst. contradiction.
        - apply H_inj in Hc. split; [tauto|reflexivity]. }
      destruct Hpar as [Hcc Hpar]. split; [exact Hcc|].
      intros [|k] Hk.
      + cbn [Nat.testbit]. unfold Nat.odd. rewrite Hpar. reflexivity.
      + cbn [Nat.testbit]. apply Hb. apply Nat.succ_lt_mono. exact Hk.
  Qed.

  Theorem calc_root_binds_index : forall p x i j, distinct_operands x p i ->
    calc_root H x p i = calc_root H x p j ->
    forall k, (k < length p)%nat -> Nat.testbit i k = Nat.testbit j k.
  Proof. intros p x i j Hd He. exact (proj2 (calc_root_binds_index_gen p x x i j Hd He)). Qed.

  (* and conversely the computation reads no other bit *)
  Theorem calc_root_reads_low_bits : forall p x i j,
    (forall k, (k < length p)%nat -> Nat.testbit i k = Nat.testbit j k) ->
    calc_root H x p i = calc_root H x p j.
  Proof.
    induction p as [|s p IH]; intros x i j Hb; cbn [calc_root]; [reflexivity|].
    assert (He : Nat.even i = Nat.even j).
    { pose proof (Hb 0%nat (Nat.lt_0_succ _)) as H0. cbn [Nat.testbit] in H0. unfold Nat.odd in H0.
      destruct (Nat.even i), (Nat.even j); cbn in H0; congruence. }
    rewrite He. apply IH. intros k Hk. apply (Hb (S k)). cbn [length]. apply -> Nat.succ_lt_mono. exact Hk.
  Qed.
End Index.
