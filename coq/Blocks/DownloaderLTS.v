(* Labelled transition system of one block download (block_downloader.go + the node side of
   bitcoin_node.go / handlers.go) for C16.  Every channel send / receive and every stateLock
   section is its own step; the processes are
     Run        - the downloader thread (two-phase select, cancel-and-wait)
     Handler    - HandleBlock on the node's handler thread
     ExtCancel  - BlockDownloader.Cancel called by the manager (cancelDownloaders / Stop)
     Stop       - BlockDownloader.Stop called by the node when the peer drops
     Node       - arrival of the block message, the tx-count read, CancelBlockRequest's answer
   plus the shutdown interrupt and the three timers, which may fire at any time.
   Labels: 0 is an internal step (a send, a receive, a lock section of a running call); the
   others are the call-granularity events a schedule is made of.  Channel capacities come from
   Gen/Consts.v (regenerated from block_downloader.go). *)
From RecordUpdate Require Import RecordSet.
From BR Require Import Base.Prelude Gen.Consts Blocks.Reach.
Import RecordSetNotations.
Open Scope N_scope.

(* run pc *)
Definition R1 := 0.      (* first select: interrupt / Started / 2 min / Complete *)
Definition R1s := 1.     (* received Started; about to set isStarted *)
Definition R2 := 2.      (* second select: interrupt / 1 h / Complete *)
Definition RCancel := 3. (* cancelAndWaitForComplete: at Cancel's lock section *)
Definition RSendS := 4.  (* Run's own Cancel sends Started *)
Definition RSendC := 5.  (* Run's own Cancel sends Complete *)
Definition RW := 6.      (* waiting for Complete (10 s x 60 timer) *)
Definition RGot := 7.    (* received Complete; about to set isComplete *)
Definition RDone := 8.

(* handler pc *)
Definition H0 := 0.      (* not invoked *)
Definition HSendS := 1.
Definition HCheck := 2.  (* sent Started; about to check the cancel flag and the hash *)
Definition HProc := 3.   (* reading transactions *)
Definition HSendC := 4.
Definition HDone := 5.

(* node state *)
Definition NReq := 0.       (* handler registered, block not yet arriving *)
Definition NReader := 1.    (* blockReader set: CancelBlockRequest answers "started" *)
Definition NClosed := 2.    (* reader closed by a cancel while in progress *)
Definition NCancelled := 3. (* cancelled before the block arrived: handler never starts *)
Definition NGone := 4.      (* block completed / request cleared: cancel answers "not found" *)

(* completion values *)
Definition VCancelled := 1.
Definition VOkay := 2.
Definition VOther := 3.      (* wrong block, processor / store error, bad merkle root *)
(* results of Run *)
Definition ResInterrupted := 4.
Definition ResTimeout := 5.

(* labels *)
Definition LTau := 0.
Definition LInterrupt := 1.
Definition LArrive := 2.          (* the block message arrives and is for this request *)
Definition LHandlerStart := 3.    (* the handler thread is started with the right block *)
Definition LHandlerStartWrong := 4. (* ... with a block of a different hash *)
Definition LEndOk := 5.           (* all transactions are handed over and verify *)
Definition LEndErr := 6.          (* processor / store / merkle error *)
Definition LEndCut := 7.          (* the stream ends before the announced count *)
Definition LCancel := 8.          (* the manager calls Cancel *)
Definition LStop := 9.            (* the node calls Stop (peer dropped) *)
Definition LNoHandler := 10.      (* the tx count cannot be read: the handler never runs *)
Definition LTimer := 11.
Definition LStreamClosed := 12.   (* pseudo-label the harness appends to a schedule when the transaction
                                     stream is closed at rest (ended, or cut by a cancel); no transition *)

Record st := mkSt {
  run : N; res : N; after_c : bool;  (* Run's Cancel: a Complete send follows the Started send *)
  hnd : N; hval : N; wrong : bool; node : N;
  chS : N; q1 : N; q2 : N;           (* Started count; Complete queue (0 = empty slot) *)
  cancelled : bool; started : bool; complete : bool;
  extS : bool; extC : bool;          (* manager-side Cancel: pending sends *)
  stopS : bool; stopC : bool;        (* node-side Stop: pending sends *)
  ext_left : N; stop_left : N; interrupted : bool
}.
#[export] Instance eta_st : Settable _ :=
  settable! mkSt <run; res; after_c; hnd; hval; wrong; node; chS; q1; q2; cancelled; started; complete;
                  extS; extC; stopS; stopC; ext_left; stop_left; interrupted>.

Definition b2n (b : bool) : N := if b then 1 else 0.
Definition n2b (n : N) : bool := negb (n =? 0).

Definition digits (s : st) : list (N * N) :=
  [ (run s, 9); (res s, 6); (b2n (after_c s), 2); (hnd s, 6); (hval s, 4); (b2n (wrong s), 2); (node s, 5);
    (chS s, 4); (q1 s, 4); (q2 s, 4);
    (b2n (cancelled s), 2); (b2n (started s), 2); (b2n (complete s), 2);
    (b2n (extS s), 2); (b2n (extC s), 2); (b2n (stopS s), 2); (b2n (stopC s), 2);
    (ext_left s, 3); (stop_left s, 2); (b2n (interrupted s), 2) ].

Definition encode (s : st) : N := fold_left (fun acc p => acc * snd p + fst p) (digits s) 0.

Definition decode (n : N) : st :=
  let r := n in
  let interrupted := n2b (r mod 2) in let r := r / 2 in
  let stop_left := r mod 2 in let r := r / 2 in
  let ext_left := r mod 3 in let r := r / 3 in
  let stopC := n2b (r mod 2) in let r := r / 2 in
  let stopS := n2b (r mod 2) in let r := r / 2 in
  let extC := n2b (r mod 2) in let r := r / 2 in
  let extS := n2b (r mod 2) in let r := r / 2 in
  let complete := n2b (r mod 2) in let r := r / 2 in
  let started := n2b (r mod 2) in let r := r / 2 in
  let cancelled := n2b (r mod 2) in let r := r / 2 in
  let q2 := r mod 4 in let r := r / 4 in
  let q1 := r mod 4 in let r := r / 4 in
  let chS := r mod 4 in let r := r / 4 in
  let node := r mod 5 in let r := r / 5 in
  let wrong := n2b (r mod 2) in let r := r / 2 in
  let hval := r mod 4 in let r := r / 4 in
  let hnd := r mod 6 in let r := r / 6 in
  let after_c := n2b (r mod 2) in let r := r / 2 in
  let res := r mod 6 in let r := r / 6 in
  let run := r mod 9 in
  mkSt run res after_c hnd hval wrong node chS q1 q2 cancelled started complete extS extC stopS stopC
       ext_left stop_left interrupted.

Definition capS : N := Z.to_N cap_started.
Definition capC : N := Z.to_N cap_complete.

Definition chC (s : st) : N := (if q1 s =? 0 then 0 else 1) + (if q2 s =? 0 then 0 else 1).
Definition enqueue (v : N) (s : st) : st :=
  if q1 s =? 0 then s <| q1 := v |> else s <| q2 := v |>.
Definition dequeue (s : st) : N * st := (q1 s, s <| q1 := q2 s |> <| q2 := 0 |>).

(* CancelBlockRequest: the answer and the node's new state *)
Definition canceller (nd : N) : bool * N :=
  if nd =? NReader then (true, NClosed)
  else if nd =? NReq then (false, NCancelled)
  else (false, nd).

(* Cancel's lock section, shared by Run's own call and the manager's call:
   (state, sendStarted, sendComplete) *)
Definition cancel_section (s : st) : st * bool * bool :=
  if complete s || cancelled s then (s, false, false)
  else
    let '(already, nd) := canceller (node s) in
    (s <| node := nd |> <| cancelled := true |>, negb (started s), negb already).

Definition recv_complete (s : st) : list (N * st) :=
  if 0 <? chC s then let '(v, s1) := dequeue s in [(LTau, s1 <| run := RGot |> <| res := v |>)] else [].

(* all labelled successors of a state *)
Definition next_l (s : st) : list (N * st) :=
  (* ---- Run ---- *)
  (if run s =? R1 then
     (if interrupted s then [(LTau, s <| run := RCancel |> <| res := ResInterrupted |>)] else []) ++
     (if 0 <? chS s then [(LTau, s <| run := R1s |> <| chS := chS s - 1 |>)] else []) ++
     [(LTimer, s <| run := RCancel |> <| res := ResTimeout |>)] ++
     recv_complete s
   else if run s =? R1s then [(LTau, s <| run := R2 |> <| started := true |>)]
   else if run s =? R2 then
     (if interrupted s then [(LTau, s <| run := RCancel |> <| res := ResInterrupted |>)] else []) ++
     [(LTimer, s <| run := RDone |> <| res := ResTimeout |>)] ++
     recv_complete s
   else if run s =? RCancel then
     let '(s1, sS, sC) := cancel_section s in
     [(LTau, s1 <| run := if sS then RSendS else if sC then RSendC else RW |> <| after_c := sC |>)]
   else if run s =? RSendS then
     (if chS s <? capS
      then [(LTau, s <| run := if after_c s then RSendC else RW |> <| after_c := false |> <| chS := chS s + 1 |>)]
      else [])
   else if run s =? RSendC then
     (if chC s <? capC then [(LTau, enqueue VCancelled (s <| run := RW |>))] else [])
   else if run s =? RW then
     [(LTimer, s <| run := RDone |>)] ++
     (if 0 <? chC s then let '(_, s1) := dequeue s in [(LTau, s1 <| run := RGot |>)] else [])
   else if run s =? RGot then [(LTau, s <| run := RDone |> <| complete := true |>)]
   else []) ++
  (* ---- shutdown interrupt ---- *)
  (if interrupted s then [] else [(LInterrupt, s <| interrupted := true |>)]) ++
  (* ---- node ---- *)
  (if node s =? NReq then [(LArrive, s <| node := NReader |>)] else []) ++
  (if ((node s =? NReader) || (node s =? NClosed)) && (hnd s =? H0)
   then [(LNoHandler, s <| node := NGone |>)] else []) ++
  (if ((node s =? NReader) || (node s =? NClosed)) && (hnd s =? HDone)
   then [(LTau, s <| node := NGone |>)] else []) ++
  (* ---- handler ---- *)
  (* (the handler thread is dispatched while the reader is installed; its first statement may run
     after a cancel has closed the reader: the late start is why Started has room for two) *)
  (if (hnd s =? H0) && ((node s =? NReader) || (node s =? NClosed))
   then [(LHandlerStart, s <| hnd := HSendS |>); (LHandlerStartWrong, s <| hnd := HSendS |> <| wrong := true |>)]
   else []) ++
  (if (hnd s =? HSendS) && (chS s <? capS) then [(LTau, s <| hnd := HCheck |> <| chS := chS s + 1 |>)] else []) ++
  (if hnd s =? HCheck then
     (if cancelled s then [(LTau, s <| hnd := HSendC |> <| hval := VCancelled |>)]
      else if wrong s then [(LTau, s <| hnd := HSendC |> <| hval := VOther |>)]
      else [(LTau, s <| hnd := HProc |>)])
   else []) ++
  (if hnd s =? HProc then
     (* the cancel flag is polled after every transaction and once after the merkle check: a
        cancel that is visible may or may not be noticed before the handler is through *)
     [(LEndOk, s <| hnd := HSendC |> <| hval := VOkay |>);
      (LEndErr, s <| hnd := HSendC |> <| hval := VOther |>);
      (LEndCut, s <| hnd := HSendC |> <| hval := VCancelled |>)] ++
     (if cancelled s then [(LEndOk, s <| hnd := HSendC |> <| hval := VCancelled |>);
                           (LEndErr, s <| hnd := HSendC |> <| hval := VCancelled |>)] else []) ++
     (* a cancel closed the reader under the reading handler: its stream ends there, cut short *)
     (if node s =? NClosed then [(LTau, s <| hnd := HSendC |> <| hval := VCancelled |>)] else [])
   else []) ++
  (if (hnd s =? HSendC) && (chC s <? capC) then [(LTau, enqueue (hval s) (s <| hnd := HDone |>))] else []) ++
  (* ---- manager-side Cancel ---- *)
  (if (0 <? ext_left s) && negb (extS s) && negb (extC s) then
     let '(s1, sS, sC) := cancel_section s in
     [(LCancel, s1 <| extS := sS |> <| extC := sC |> <| ext_left := ext_left s - 1 |>)] else []) ++
  (if extS s && (chS s <? capS) then [(LTau, s <| extS := false |> <| chS := chS s + 1 |>)] else []) ++
  (if negb (extS s) && extC s && (chC s <? capC) then [(LTau, enqueue VCancelled (s <| extC := false |>))] else []) ++
  (* ---- node-side Stop ---- *)
  (if 0 <? stop_left s then
     (if complete s then [(LStop, s <| stop_left := stop_left s - 1 |>)]
      else
        let send := negb (cancelled s) && negb (started s) in
        [(LStop, s <| cancelled := true |> <| stopS := send |> <| stopC := send |> <| stop_left := stop_left s - 1 |>)])
   else []) ++
  (if stopS s && (chS s <? capS) then [(LTau, s <| stopS := false |> <| chS := chS s + 1 |>)] else []) ++
  (if negb (stopS s) && stopC s && (chC s <? capC) then [(LTau, enqueue VCancelled (s <| stopC := false |>))] else []).

Definition next (n : N) : list N := map (fun p => encode (snd p)) (next_l (decode n)).

Definition init_st (ext stop : N) : st :=
  mkSt R1 0 false H0 0 false NReq 0 0 0 false false false false false false false ext stop false.

(* ---- properties checked on every reachable state ------------------------------------- *)

(* nobody is parked on a full channel: every pending send has room *)
Definition no_blocked_send (n : N) : bool :=
  let s := decode n in
  (negb ((run s =? RSendS) || (hnd s =? HSendS) || extS s || stopS s) || (chS s <? capS)) &&
  (negb ((run s =? RSendC) || (hnd s =? HSendC) || (negb (extS s) && extC s) || (negb (stopS s) && stopC s))
   || (chC s <? capC)).

(* a state without successors is a finished one: Run returned, no sender is pending, the handler
   either never ran or returned *)
Definition quiescent_clean (n : N) : bool :=
  let s := decode n in
  match next n with
  | [] => (run s =? RDone) && negb (extS s) && negb (extC s) && negb (stopS s) && negb (stopC s) &&
          ((hnd s =? H0) || (hnd s =? HDone))
  | _ => true
  end.

(* Run reports success only if the handler ran to its end on the right block without error *)
Definition ok_only_after_success (n : N) : bool :=
  let s := decode n in
  negb ((run s =? RDone) && (res s =? VOkay)) || ((hnd s =? HDone) && (hval s =? VOkay) && negb (wrong s)).

(* a measure that strictly decreases along every transition: executions are finite, so every
   execution reaches a state without successors, which [quiescent_clean] shows to be finished *)
Definition rank_st (s : st) : N :=
  (8 - run s) + (5 - hnd s) +
  (if node s =? NReq then 3 else if node s =? NReader then 2 else if node s =? NClosed then 1 else 0) +
  (if interrupted s then 0 else 1) +
  (3 * ext_left s + b2n (extS s) + b2n (extC s)) + (3 * stop_left s + b2n (stopS s) + b2n (stopC s)).
Definition decreasing (n : N) : bool :=
  forallb (fun n' => rank_st (decode n') <? rank_st (decode n)) (next n).

(* ---- schedules at call granularity (the tie to the implementation) --------------------- *)

Definition succ_by (l : N) (n : N) : list N :=
  map (fun p => encode (snd p)) (filter (fun p => fst p =? l) (next_l (decode n))).

(* closure under internal steps *)
Fixpoint tau_closure (fuel : nat) (todo : list N) (seen : PS.t) (acc : list N) : list N :=
  match fuel with
  | O => acc
  | S f => match todo with
           | [] => acc
           | x :: todo' => if PS.mem (key x) seen then tau_closure f todo' seen acc
                           else tau_closure f (succ_by LTau x ++ todo') (PS.add (key x) seen) (x :: acc)
           end
  end.

Definition after (S : list N) (l : N) : list N :=
  tau_closure (N.to_nat 100000) (flat_map (succ_by l) S) PS.empty [].

Definition run_schedule (ext stop : N) (sched : list N) : list N :=
  fold_left after sched (tau_closure (N.to_nat 100000) [encode (init_st ext stop)] PS.empty []).

(* what the harness can see once everything it started has come to rest *)
Record observation := mkObs {
  o_run_done : bool; o_res : N;        (* Run returned; class of its result *)
  o_handler_done : bool;               (* HandleBlock returned (or was never called) *)
  o_chS : N; o_chC : N                 (* residual channel contents *)
}.

Definition obs_of (s : st) : observation :=
  mkObs (run s =? RDone) (if run s =? RDone then res s else 0)
        ((hnd s =? H0) || (hnd s =? HDone)) (chS s) (chC s).

Definition obs_eqb (a b : observation) : bool :=
  Bool.eqb (o_run_done a) (o_run_done b) && (o_res a =? o_res b) &&
  Bool.eqb (o_handler_done a) (o_handler_done b) && (o_chS a =? o_chS b) && (o_chC a =? o_chC b).

Definition tau_quiescent (n : N) : bool := match succ_by LTau n with [] => true | _ => false end.

(* the observation is one the model admits after this schedule *)
Definition schedule_admits (ext stop : N) (sched : list N) (o : observation) : bool :=
  existsb (fun n => tau_quiescent n && obs_eqb (obs_of (decode n)) o) (run_schedule ext stop sched).

(* the handler thread parks only while it reads transactions: whenever no internal step is
   possible it has not been invoked, is reading the stream, or has returned
   (DownloaderProofs.handler_parks_only_reading_always) *)
Definition handler_parks_only_reading (n : N) : bool :=
  let s := decode n in
  negb (tau_quiescent n) || (hnd s =? H0) || (hnd s =? HProc) || (hnd s =? HDone).

(* What the property itself says about an observation, whatever the channel capacities are: no
   Cancel / Stop call is parked (the harness reports that as result class 9), and once the block's
   transaction stream has ended HandleBlock has nothing left to wait for but the signalling
   channels, so it must have returned.  A run of the implementation that violates this is a
   failing input even when the model regenerated from the source (capacities!) admits it. *)
Definition is_end (l : N) : bool := (l =? LEndOk) || (l =? LEndErr) || (l =? LEndCut) || (l =? LStreamClosed).
Definition prop_ok (sched : list N) (o : observation) : bool :=
  negb (o_res o =? 9) && (negb (existsb is_end sched) || o_handler_done o).

Record dcase := mkDCase { dc_ext : N; dc_stop : N; dc_sched : list N; dc_obs : observation }.
Definition dcase_ok (c : dcase) : bool :=
  schedule_admits (dc_ext c) (dc_stop c) (filter (fun l => negb (l =? LStreamClosed)) (dc_sched c)) (dc_obs c) &&
  prop_ok (dc_sched c) (dc_obs c).
Definition dmismatches (cs : list dcase) : list N := failing (map dcase_ok cs).
