(* BlockDownloader.handleBlock (block_downloader.go) for C04: which calls reach the transaction
   processor and the block-txid store, in which order, and what the download completes with.
   Hashing stays outside: whether the header hashes to the request, whether the merkle root over
   the received transactions equals the header's, and whether every finalised proof verifies are
   inputs (Blocks/Merkle.v relates the last two to the transaction list). *)
From BR Require Import Base.Prelude.
Open Scope N_scope.

Inductive effect :=
| ECoinbase
| EConfirm (txid : N)
| EAppend (txids : list N).

(* completion classes *)
Definition CNil := 0.
Definition CCancelled := 1.
Definition CWrongBlock := 2.
Definition CError := 3.

Record block_in := mkBlockIn {
  bi_hash_ok : bool;            (* header hashes to the requested block *)
  bi_count : N;                 (* announced transaction count *)
  bi_txs : list N;              (* txids received before the stream ended *)
  bi_relevant : list N;         (* txids the processor calls relevant *)
  bi_root_ok : bool;            (* merkle root over bi_txs = header merkle root *)
  bi_proofs_ok : bool;          (* every finalised proof verifies against the header *)
  bi_proc_fail : option nat;    (* ProcessTx fails at this call (0-based) *)
  bi_cancel_at : option nat;    (* the cancel flag is set once this many txs were processed *)
  bi_coinbase_fail : bool;
  bi_confirm_fail : option nat; (* ConfirmTx fails at this call (0-based) *)
  bi_store_fail : bool
}.

Definition opt_eqb (o : option nat) (k : nat) : bool := match o with Some j => Nat.eqb j k | None => false end.
Definition opt_leb (o : option nat) (k : nat) : bool := match o with Some j => Nat.leb j k | None => false end.

(* the per-transaction loop: None = loop ran to the end of the stream; Some c = early return *)
Fixpoint tx_loop (x : block_in) (txs : list N) (k : nat) (rel : list N) : option N * list N :=
  match txs with
  | [] => (None, rel)
  | t :: txs' =>
      if opt_eqb (bi_proc_fail x) k then (Some CError, rel)
      else
        let rel' := if memN t (bi_relevant x) then rel ++ [t] else rel in
        if opt_leb (bi_cancel_at x) (S k) then (Some CCancelled, rel')
        else tx_loop x txs' (S k) rel'
  end.

Fixpoint confirms (x : block_in) (rel : list N) (k : nat) : list effect * bool :=
  match rel with
  | [] => ([], true)
  | t :: rel' =>
      if opt_eqb (bi_confirm_fail x) k then ([EConfirm t], false)   (* the failing call was made *)
      else let '(es, ok) := confirms x rel' (S k) in (EConfirm t :: es, ok)
  end.

Definition handle_block (x : block_in) : list effect * N :=
  if negb (bi_hash_ok x) then ([], CWrongBlock)
  else
    match tx_loop x (bi_txs x) 0 [] with
    | (Some c, _) => ([], c)
    | (None, rel) =>
        if negb (N.of_nat (length (bi_txs x)) =? bi_count x) then ([], CCancelled)
        else if negb (bi_root_ok x) then ([], CError)
        else if negb (bi_proofs_ok x) then ([], CError)
        else if opt_leb (bi_cancel_at x) (length (bi_txs x)) then ([], CCancelled)
        else if bi_coinbase_fail x then ([ECoinbase], CError)
        else
          let '(es, ok) := confirms x rel 0 in
          if negb ok then (ECoinbase :: es, CError)
          else if bi_store_fail x then (ECoinbase :: es ++ [EAppend rel], CError)
          else (ECoinbase :: es ++ [EAppend rel], CNil)
    end.

(* ---- correspondence ---------------------------------------------------------------------- *)

Fixpoint listN_eqb (a b : list N) : bool :=
  match a, b with
  | [], [] => true
  | x :: a', y :: b' => (x =? y) && listN_eqb a' b'
  | _, _ => false
  end.

Definition effect_eqb (a b : effect) : bool :=
  match a, b with
  | ECoinbase, ECoinbase => true
  | EConfirm x, EConfirm y => x =? y
  | EAppend x, EAppend y => listN_eqb x y
  | _, _ => false
  end.

Fixpoint effects_eqb (a b : list effect) : bool :=
  match a, b with
  | [], [] => true
  | x :: a', y :: b' => effect_eqb x y && effects_eqb a' b'
  | _, _ => false
  end.

(* observed: effects in call order, completion class, and whether every proof handed to ConfirmTx
   verified against the header for its txid *)
Record hcase := mkHCase { hc_in : block_in; hc_effects : list effect; hc_result : N; hc_proofs_verified : bool }.

Definition hcase_ok (c : hcase) : bool :=
  let '(es, r) := handle_block (hc_in c) in
  effects_eqb es (hc_effects c) && (r =? hc_result c) && hc_proofs_verified c.

Definition hmismatches (cs : list hcase) : list N := failing (map hcase_ok cs).
