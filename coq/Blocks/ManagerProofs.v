From BR Require Import Base.Prelude Blocks.Manager.
Open Scope N_scope.

(* signals of a request: between two ENewRequest events exactly the events of that request *)
Definition is_terminal (s : sig) : bool := match s with SNone => false | _ => true end.

Ltac split_step H :=
  repeat match type of H with
  | context [match List.find ?f ?l with _ => _ end] => destruct (List.find f l) as [[? ?]|] eqn:?
  | context [if ?c then _ else _] => destruct c eqn:?
  end.

(* a terminal signal ends the current request, and only the current request gets one *)
Theorem terminal_ends_request c m e m' s : mstep' c m e = (m', s) -> is_terminal s = true ->
  exists h, cur m = Some h /\ cur m' = None /\ (s = SCompleted h \/ s = SAborted h).
Proof.
  unfold mstep', mstep. intros H Hs.
  destruct e as [h|ok|id ok| |]; destruct (cur m) as [c0|] eqn:Ec; split_step H;
    inversion H; subst; cbn in Hs; try discriminate; exists c0; cbn; auto.
Qed.

(* no signal without a current request: never a second terminal signal for the same request *)
Theorem no_signal_without_request c m e : cur m = None -> is_terminal (snd (mstep' c m e)) = false.
Proof.
  intros Hc. unfold mstep', mstep. rewrite Hc.
  destruct e as [h|ok|id ok| |]; destruct (failed m); try reflexivity.
  destruct (List.find _ (dls m)) as [[i h]|]; reflexivity.
Qed.

Theorem complete_needs_success c m e m' s : mstep' c m e = (m', s) ->
  cur_done m = false -> cur_done m' = true ->
  exists id h, e = EFinish id true /\ cur m = Some h /\ In (id, h) (dls m).
Proof.
  unfold mstep', mstep. intros H H0 H1.
  destruct e as [h|ok|id ok| |]; destruct (cur m) as [c0|] eqn:Ec.
  all: try (split_step H; inversion H; subst; cbn in H1; congruence).
  - destruct (failed m); [inversion H; subst; congruence|].
    destruct (List.find (fun p => fst p =? id) (dls m)) as [[i h]|] eqn:Efind; [|inversion H; subst; congruence].
    inversion H; subst; clear H. cbn [cur_done] in H1. rewrite H0 in H1. cbn [orb] in H1.
    apply andb_true_iff in H1 as [Hok Hh]. apply N.eqb_eq in Hh. subst h.
    apply find_some in Efind as [Hin Hid]. cbn in Hid. apply N.eqb_eq in Hid. subst i.
    exists id, c0. rewrite Hok. auto.
  - destruct (failed m); [inversion H; subst; congruence|].
    destruct (List.find (fun p => fst p =? id) (dls m)) as [[i h]|]; inversion H; subst; cbn in H1;
      rewrite H0 in H1; cbn in H1; try congruence. rewrite andb_false_r in H1. discriminate.
Qed.

Theorem completed_signal_needs_done c m e m' h : mstep' c m e = (m', SCompleted h) -> cur_done m = true.
Proof.
  unfold mstep', mstep. intros H.
  destruct e as [h0|ok|id ok| |]; destruct (cur m) as [c0|] eqn:Ec; split_step H; inversion H; reflexivity.
Qed.

(* at most max(1, concurrent) downloaders of the current block are registered at any time *)
Definition bound_ok (c : N) (m : mst) : Prop :=
  match cur m with
  | Some h => active h (dls m) <= N.max 1 c
  | None => True
  end.

Lemma active_app h l x : active h (l ++ [x]) = active h l + (if snd x =? h then 1 else 0).
Proof.
  unfold active. rewrite filter_app, app_length. cbn [filter]. destruct (snd x =? h); cbn [length]; lia.
Qed.

Lemma active_filter_le h f l : active h (filter f l) <= active h l.
Proof.
  unfold active. induction l as [|x l IH]; cbn [filter]; [lia|].
  destruct (f x); cbn [filter]; destruct (snd x =? h); cbn [length]; lia.
Qed.

(* downloads of an earlier block that are still winding down do not count against the current
   one; a new request starts with those of its own hash only if the same hash is queued twice,
   so the bound is stated for fresh hashes *)
Theorem concurrency_bound c m e : bound_ok c m ->
  (forall h, e = ENewRequest h -> active h (dls m) = 0) ->
  bound_ok c (fst (mstep' c m e)).
Proof.
  unfold bound_ok. intros Hb Hfresh.
  destruct e as [h|ok|id ok| |]; unfold mstep', mstep; destruct (cur m) as [c0|] eqn:Ec;
    destruct (failed m) eqn:Ef; cbn [fst]; try rewrite Ec; try exact Hb; try exact I.
  - (* new request *)
    unfold start_dl. cbn [cur dls next_id]. rewrite active_app. cbn [snd]. rewrite N.eqb_refl.
    rewrite (Hfresh h eq_refl). lia.
  - (* tick *)
    destruct (20 <? (if 0 <? active c0 (dls m) then 0 else idle m + 1));
      destruct ((active c0 (dls m) <? c) && ok) eqn:E; cbn [fst cur dls start_dl]; try exact Hb.
    + rewrite active_app. cbn [snd]. rewrite N.eqb_refl. apply andb_true_iff in E as [E _]. apply N.ltb_lt in E. lia.
    + rewrite active_app. cbn [snd]. rewrite N.eqb_refl. apply andb_true_iff in E as [E _]. apply N.ltb_lt in E. lia.
  - (* finish *)
    destruct (List.find (fun p => fst p =? id) (dls m)) as [[i h]|]; cbn [fst cur dls]; [|rewrite Ec; exact Hb].
    pose proof (active_filter_le c0 (fun p => negb (fst p =? id)) (dls m)). lia.
  - destruct (List.find (fun p => fst p =? id) (dls m)) as [[i h]|]; cbn [fst cur]; [exact I|rewrite Ec; exact I].
  - destruct (cur_done m); cbn [fst cur]; [exact I|rewrite Ec; exact Hb].
Qed.

(* the registry returns to empty: a downloader leaves it exactly when its Run returns *)
Theorem registry_shrinks c m id ok : In id (map fst (dls m)) -> failed m = false ->
  ~ In id (map fst (dls (fst (mstep' c m (EFinish id ok))))).
Proof.
  intros Hin Hf. unfold mstep', mstep. rewrite Hf.
  destruct (cur m); destruct (List.find (fun p => fst p =? id) (dls m)) as [[i h]|] eqn:E; cbn [fst dls].
  all: try (intros Hin'; apply in_map_iff in Hin' as ([i' h'] & Hi & Hin'); cbn in Hi; subst i';
            apply filter_In in Hin' as [_ Hne]; cbn in Hne; rewrite N.eqb_refl in Hne; discriminate).
  all: exfalso; apply in_map_iff in Hin as ([i' h'] & Hi & Hin); cbn in Hi; subst i';
       pose proof (find_none _ _ E _ Hin) as Hn; cbn in Hn; rewrite N.eqb_refl in Hn; discriminate.
Qed.
