From BR Require Import Base.Prelude Blocks.BlockHandler.
Open Scope N_scope.

(* nothing is confirmed, no coinbase is processed and no block txids are recorded unless the
   header is the requested one, the announced count was received in full, the merkle root
   matches, every proof verifies, the processor never failed and no cancel was seen before *)
Theorem effects_guarded x : fst (handle_block x) <> [] ->
  bi_hash_ok x = true /\ N.of_nat (length (bi_txs x)) = bi_count x /\ bi_root_ok x = true /\
  bi_proofs_ok x = true /\ fst (tx_loop x (bi_txs x) 0 []) = None.
Proof.
  unfold handle_block. intros Hne.
  destruct (bi_hash_ok x); cbn [negb] in *; [|contradiction].
  destruct (tx_loop x (bi_txs x) 0 []) as [[c|] rel] eqn:El; cbn [fst] in *; [contradiction|].
  destruct (N.of_nat (length (bi_txs x)) =? bi_count x) eqn:Ec; cbn [negb] in *; [|contradiction].
  destruct (bi_root_ok x); cbn [negb] in *; [|contradiction].
  destruct (bi_proofs_ok x); cbn [negb] in *; [|contradiction].
  apply N.eqb_eq in Ec. auto.
Qed.

Lemma tx_loop_rel x : forall txs k rel rel', tx_loop x txs k rel = (None, rel') ->
  rel' = rel ++ filter (fun t => memN t (bi_relevant x)) txs.
Proof.
  induction txs as [|t txs IH]; intros k rel rel' H; cbn [tx_loop filter] in *.
  - inversion H; subst. rewrite app_nil_r. reflexivity.
  - destruct (opt_eqb (bi_proc_fail x) k); [discriminate|].
    destruct (opt_leb (bi_cancel_at x) (S k)); [discriminate|].
    apply IH in H. rewrite H. destruct (memN t (bi_relevant x)); [rewrite <- app_assoc|]; reflexivity.
Qed.

Lemma tx_loop_some x : forall txs k rel c rel', tx_loop x txs k rel = (Some c, rel') ->
  c = CError \/ c = CCancelled.
Proof.
  induction txs as [|t txs IH]; intros k rel c rel' H; cbn [tx_loop] in H; [discriminate|].
  destruct (opt_eqb (bi_proc_fail x) k); [inversion H; auto|].
  destruct (opt_leb (bi_cancel_at x) (S k)); [inversion H; auto|].
  exact (IH _ _ _ _ H).
Qed.

Lemma confirms_all x : forall rel k es, confirms x rel k = (es, true) -> es = map EConfirm rel.
Proof.
  induction rel as [|t rel IH]; intros k es H; cbn [confirms map] in *; [inversion H; reflexivity|].
  destruct (opt_eqb (bi_confirm_fail x) k); [discriminate|].
  destruct (confirms x rel (S k)) as [es' ok] eqn:E. inversion H; subst.
  rewrite (IH (S k) es' E). reflexivity.
Qed.

(* a download that completes without error issued exactly: the coinbase, then one confirmation per
   relevant transaction in block order, then the record of exactly those txids *)
Theorem success_is_exact x es : handle_block x = (es, CNil) ->
  let rel := filter (fun t => memN t (bi_relevant x)) (bi_txs x) in
  es = ECoinbase :: map EConfirm rel ++ [EAppend rel].
Proof.
  unfold handle_block. intros H.
  destruct (bi_hash_ok x); cbn [negb] in *; [|inversion H].
  destruct (tx_loop x (bi_txs x) 0 []) as [[c|] rel] eqn:El.
  { inversion H; subst. destruct (tx_loop_some _ _ _ _ _ _ El); discriminate. }
  apply tx_loop_rel in El. cbn [app] in El.
  destruct (N.of_nat (length (bi_txs x)) =? bi_count x); cbn [negb] in *; [|inversion H].
  destruct (bi_root_ok x); cbn [negb] in *; [|inversion H].
  destruct (bi_proofs_ok x); cbn [negb] in *; [|inversion H].
  destruct (opt_leb (bi_cancel_at x) (length (bi_txs x))); [inversion H|].
  destruct (bi_coinbase_fail x); [inversion H|].
  destruct (confirms x rel 0) as [es' ok] eqn:Ecf.
  destruct ok; cbn [negb] in *; [|inversion H].
  destruct (bi_store_fail x); [inversion H|].
  inversion H; subst. rewrite (confirms_all x _ 0 es' Ecf). reflexivity.
Qed.

(* every confirmation, successful completion or not, is of a relevant received transaction *)
Theorem confirms_are_relevant x t : In (EConfirm t) (fst (handle_block x)) ->
  In t (bi_txs x) /\ memN t (bi_relevant x) = true.
Proof.
  intros Hin.
  assert (Hrel : forall rel k, In (EConfirm t) (fst (confirms x rel k)) -> In t rel).
  { induction rel as [|r rel IH]; intros k H; cbn [confirms] in H; [destruct H|].
    destruct (opt_eqb (bi_confirm_fail x) k).
    - destruct H as [H|[]]. inversion H; left; reflexivity.
    - destruct (confirms x rel (S k)) as [es ok] eqn:E. cbn [fst] in *.
      destruct H as [H|H]; [inversion H; left; reflexivity|].
      right. apply (IH (S k)). rewrite E. exact H. }
  unfold handle_block in Hin.
  destruct (bi_hash_ok x); cbn [negb] in *; [|destruct Hin].
  destruct (tx_loop x (bi_txs x) 0 []) as [[c|] rel] eqn:El; [destruct Hin|].
  apply tx_loop_rel in El. cbn [app] in El.
  destruct (negb _); [destruct Hin|]. destruct (negb _); [destruct Hin|].
  destruct (negb _); [destruct Hin|]. destruct (opt_leb _ _); [destruct Hin|].
  destruct (bi_coinbase_fail x); [destruct Hin as [H|[]]; discriminate|].
  destruct (confirms x rel 0) as [es' ok] eqn:Ecf.
  assert (Hes : In (EConfirm t) es' -> In t rel) by (intros H; apply (Hrel rel 0%nat); rewrite Ecf; exact H).
  assert (Hfin : In t rel -> In t (bi_txs x) /\ memN t (bi_relevant x) = true).
  { intros H. rewrite El in H. apply filter_In in H. exact H. }
  destruct ok; cbn [negb] in Hin.
  - destruct (bi_store_fail x); cbn [fst] in Hin; destruct Hin as [H|H]; try discriminate;
      apply in_app_or in H as [H|[H|[]]]; try discriminate; auto.
  - cbn [fst] in Hin. destruct Hin as [H|H]; [discriminate|auto].
Qed.
