(* Reflective reachability for finite transition systems whose states are encoded as N.
   [closed next R]: R is closed under next.  If R contains the initial state and is closed,
   every reachable state is in R; so a property checked on all of R (by computation) holds in
   every reachable state.  R itself is computed by an (untrusted) worklist search. *)
From BR Require Import Base.Prelude.
Open Scope N_scope.

Section Reach.
  Variable next : N -> list N.

  Inductive reachable (init : N) : N -> Prop :=
  | reach_init : reachable init init
  | reach_step s s' : reachable init s -> In s' (next s) -> reachable init s'.

  Definition closed (R : list N) : bool :=
    forallb (fun s => forallb (fun s' => memN s' R) (next s)) R.

  Lemma closed_sound R init : memN init R = true -> closed R = true ->
    forall s, reachable init s -> memN s R = true.
  Proof.
    intros Hi Hc s Hr. induction Hr as [|s s' Hr IH Hin]; [exact Hi|].
    unfold closed in Hc. rewrite forallb_forall in Hc.
    apply memN_In in IH. specialize (Hc s IH). rewrite forallb_forall in Hc. exact (Hc s' Hin).
  Qed.

  Theorem invariant_by_closure R init (P : N -> bool) :
    memN init R = true -> closed R = true -> forallb P R = true ->
    forall s, reachable init s -> P s = true.
  Proof.
    intros Hi Hc HP s Hr. pose proof (closed_sound R init Hi Hc s Hr) as Hm.
    apply memN_In in Hm. rewrite forallb_forall in HP. exact (HP s Hm).
  Qed.

  (* worklist search with fuel (only used to produce R; nothing is proved about it) *)
  Fixpoint explore (fuel : nat) (todo visited : list N) : list N :=
    match fuel with
    | O => visited
    | S f =>
        match todo with
        | [] => visited
        | s :: todo' =>
            if memN s visited then explore f todo' visited
            else explore f (next s ++ todo') (s :: visited)
        end
    end.
End Reach.
