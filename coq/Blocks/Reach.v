(* Reflective reachability for finite transition systems whose states are encoded as N.
   If a list R contains the initial state and is closed under [next] (checked by computation
   with a positive-trie set for membership), every reachable state is in R; so a property
   checked on all of R holds in every reachable state.  R itself is produced by an (untrusted)
   worklist search; nothing is proved about the search. *)
From Coq Require Import MSets.MSetPositive.
From BR Require Import Base.Prelude.
Open Scope N_scope.

Module PS := PositiveSet.

Definition key (n : N) : positive := N.succ_pos n.

Lemma key_inj a b : key a = key b -> a = b.
Proof. unfold key. intros H. apply (f_equal Npos) in H. rewrite !N.succ_pos_spec in H. lia. Qed.

Definition set_of (l : list N) : PS.t := fold_left (fun s n => PS.add (key n) s) l PS.empty.

Lemma set_of_spec_gen l : forall s n,
  PS.mem (key n) (fold_left (fun s n => PS.add (key n) s) l s) = true <-> In n l \/ PS.mem (key n) s = true.
Proof.
  induction l as [|x l IH]; intros s n; cbn [fold_left In]; [tauto|].
  rewrite IH. split.
  - intros [H|H]; [tauto|]. apply PS.mem_spec, PS.add_spec in H. destruct H as [H|H].
    + left. left. symmetry. apply key_inj. exact H.
    + right. apply PS.mem_spec. exact H.
  - intros [[->|H]|H]; [right|left; exact H|right].
    + apply PS.mem_spec, PS.add_spec. left. reflexivity.
    + apply PS.mem_spec, PS.add_spec. right. apply PS.mem_spec. exact H.
Qed.

Lemma set_of_spec l n : PS.mem (key n) (set_of l) = true <-> In n l.
Proof.
  unfold set_of. rewrite set_of_spec_gen. split; [intros [H|H]; [exact H|]|tauto].
  apply PS.mem_spec, PS.empty_spec in H. destruct H.
Qed.

Section Reach.
  Variable next : N -> list N.

  Inductive reachable (init : N) : N -> Prop :=
  | reach_init : reachable init init
  | reach_step s s' : reachable init s -> In s' (next s) -> reachable init s'.

  Definition closed (R : list N) : bool :=
    let S := set_of R in
    forallb (fun s => forallb (fun s' => PS.mem (key s') S) (next s)) R.

  Lemma closed_sound R init : In init R -> closed R = true ->
    forall s, reachable init s -> In s R.
  Proof.
    intros Hi Hc s Hr. induction Hr as [|s s' Hr IH Hin]; [exact Hi|].
    unfold closed in Hc. rewrite forallb_forall in Hc.
    specialize (Hc s IH). rewrite forallb_forall in Hc.
    apply set_of_spec. exact (Hc s' Hin).
  Qed.

  Theorem invariant_by_closure R init (P : N -> bool) :
    In init R -> closed R = true -> forallb P R = true ->
    forall s, reachable init s -> P s = true.
  Proof.
    intros Hi Hc HP s Hr. pose proof (closed_sound R init Hi Hc s Hr) as Hm.
    rewrite forallb_forall in HP. exact (HP s Hm).
  Qed.

  (* finite executions: if a measure strictly decreases along every transition out of a reachable
     state, a path from a reachable state is no longer than the measure *)
  Inductive path : N -> list N -> Prop :=
  | path_nil s : path s []
  | path_cons s s' p : In s' (next s) -> path s' p -> path s (s' :: p).

  Theorem paths_bounded_by (rank : N -> N) init :
    (forall s, reachable init s -> forall s', In s' (next s) -> rank s' < rank s) ->
    forall p s, reachable init s -> path s p -> N.of_nat (length p) <= rank s.
  Proof.
    intros Hdec. induction p as [|s' p IH]; intros s Hr Hp; [cbn; lia|].
    inversion Hp as [|? ? ? Hin Hp']; subst.
    specialize (Hdec s Hr s' Hin).
    specialize (IH s' (reach_step init s s' Hr Hin) Hp'). cbn [length]. lia.
  Qed.

  (* worklist search with fuel (only used to produce R) *)
  Fixpoint explore (fuel : nat) (todo : list N) (seen : PS.t) (acc : list N) : list N :=
    match fuel with
    | O => acc
    | S f =>
        match todo with
        | [] => acc
        | s :: todo' =>
            if PS.mem (key s) seen then explore f todo' seen acc
            else explore f (next s ++ todo') (PS.add (key s) seen) (s :: acc)
        end
    end.
  Definition explore_from (fuel : N) (init : N) : list N :=
    explore (N.to_nat fuel) [init] PS.empty [].
End Reach.
