From BR Require Import Base.Prelude Blocks.Merkle.
Open Scope N_scope.

Section Proofs.
  Variable H : N -> N -> N.

  Lemma list_ind2 (P : list N -> Prop) :
    P [] -> (forall a, P [a]) -> (forall a b r, P r -> P (a :: b :: r)) -> forall l, P l.
  Proof.
    intros H0 H1 H2. fix IH 1. intros [|a [|b r]]; [exact H0|apply H1|apply H2; apply IH].
  Qed.

  Lemma pair_up_length l : length (pair_up H l) = Nat.div2 (S (length l)).
  Proof.
    induction l as [| a | a b r IH] using list_ind2; [reflexivity|reflexivity|].
    cbn [pair_up length]. rewrite IH. reflexivity.
  Qed.

  (* the parent of position i is the hash of i and its sibling, in the order of the index bit *)
  Lemma pair_up_nth l : forall i, (i < length l)%nat ->
    nth (Nat.div2 i) (pair_up H l) 0 =
    if Nat.even i then H (nth i l 0) (sibling l i) else H (sibling l i) (nth i l 0).
  Proof.
    induction l as [| a | a b r IH] using list_ind2; intros i Hi.
    - cbn in Hi. lia.
    - cbn in Hi. assert (i = 0%nat) by lia. subst. reflexivity.
    - destruct i as [|[|i]].
      + reflexivity.
      + reflexivity.
      + cbn [length] in Hi. assert (Hi' : (i < length r)%nat) by lia.
        specialize (IH i Hi').
        change (Nat.div2 (S (S i))) with (S (Nat.div2 i)).
        change (pair_up H (a :: b :: r)) with (H a b :: pair_up H r).
        cbn [nth]. rewrite IH.
        change (Nat.even (S (S i))) with (Nat.even i).
        unfold sibling. change (Nat.even (S (S i))) with (Nat.even i).
        destruct (Nat.even i) eqn:E.
        * cbn [nth pred]. reflexivity.
        * destruct i as [|i']; [discriminate|]. cbn [nth pred]. reflexivity.
  Qed.

  Lemma div2_lt i n : (i < n)%nat -> (Nat.div2 i < Nat.div2 (S n))%nat.
  Proof. intros Hlt. rewrite !Nat.div2_div. lia. Qed.

  Lemma div2_shrinks n f : (2 <= n)%nat -> (n <= S f)%nat -> (Nat.div2 (S n) <= f)%nat.
  Proof. intros H2 Hn. rewrite Nat.div2_div. lia. Qed.

  (* recomputing the root from a leaf and its path gives the merkle root *)
  Theorem path_verifies_fuel : forall f l i, (length l <= f)%nat -> (i < length l)%nat ->
    calc_root H (nth i l 0) (path_fuel H f l i) i = root_fuel H f l.
  Proof.
    induction f as [|f IH]; intros l i Hf Hi; [lia|].
    destruct l as [|a [|b r]].
    - cbn in Hi. lia.
    - cbn in Hi. assert (i = 0%nat) by lia. subst. reflexivity.
    - cbn [path_fuel root_fuel calc_root].
      set (l := a :: b :: r) in *.
      assert (Hlen : (length (pair_up H l) <= f)%nat).
      { rewrite pair_up_length. apply div2_shrinks; [unfold l; cbn [length]; lia|exact Hf]. }
      assert (Hi2 : (Nat.div2 i < length (pair_up H l))%nat)
        by (rewrite pair_up_length; apply div2_lt; exact Hi).
      rewrite <- (IH (pair_up H l) (Nat.div2 i) Hlen Hi2).
      rewrite (pair_up_nth l i Hi). reflexivity.
  Qed.

  Theorem path_verifies l i : (i < length l)%nat ->
    calc_root H (nth i l 0) (merkle_path H l i) i = merkle_root H l.
  Proof. intros Hi. apply path_verifies_fuel; [lia|exact Hi]. Qed.

  (* the duplication rule makes the root blind to a repeated last transaction of an odd block:
     the "mutated block" [..; c; c] has the root of [..; c] *)
  Theorem root_mutation3 a b c : merkle_root H [a; b; c; c] = merkle_root H [a; b; c].
  Proof. reflexivity. Qed.

  Theorem root_mutation1 a : merkle_root H [a; a] = H a a /\ merkle_root H [a] = a.
  Proof. split; reflexivity. Qed.
End Proofs.
