(* Bitcoin merkle trees over an abstract node hash H (double SHA-256 of the concatenation in the
   code): root, proof path, root recomputation from a path (merkle_proof.CalculateRoot). *)
From BR Require Import Base.Prelude.
Open Scope N_scope.

Section Merkle.
  Variable H : N -> N -> N.

  (* one level up: pairs are hashed, an odd last element is hashed with itself *)
  Fixpoint pair_up (l : list N) : list N :=
    match l with
    | [] => []
    | a :: r => match r with
                | [] => [H a a]
                | b :: r' => H a b :: pair_up r'
                end
    end.

  Fixpoint root_fuel (f : nat) (l : list N) : N :=
    match f with
    | O => hd 0 l
    | S f' => match l with
              | [] => 0
              | [a] => a
              | _ => root_fuel f' (pair_up l)
              end
    end.
  Definition merkle_root (l : list N) : N := root_fuel (length l) l.

  (* sibling of position i at this level: the neighbour, or the element itself when it is the
     odd last one *)
  Definition sibling (l : list N) (i : nat) : N :=
    if Nat.even i then nth (S i) l (nth i l 0) else nth (pred i) l 0.

  Fixpoint path_fuel (f : nat) (l : list N) (i : nat) : list N :=
    match f with
    | O => []
    | S f' => match l with
              | [] => []
              | [a] => []
              | _ => sibling l i :: path_fuel f' (pair_up l) (Nat.div2 i)
              end
    end.
  Definition merkle_path (l : list N) (i : nat) : list N := path_fuel (length l) l i.

  (* CalculateRoot: left or right by the index bit of each level *)
  Fixpoint calc_root (cur : N) (path : list N) (i : nat) : N :=
    match path with
    | [] => cur
    | s :: p => calc_root (if Nat.even i then H cur s else H s cur) p (Nat.div2 i)
    end.
End Merkle.
