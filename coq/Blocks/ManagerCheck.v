(* Decider evaluated on what a real BlockManager did in a scripted scenario (C16): every queued
   request got exactly one terminal signal; "completed" only after a download of that block
   returned without error; never more than max(1, concurrent) simultaneous downloads; the
   registry is empty and no goroutine is parked in downloader / manager frames at the end. *)
From BR Require Import Base.Prelude Blocks.Manager.
Open Scope N_scope.

Record mcase := mkMCase {
  mc_conc : N;
  mc_reqs : list (nat * N * bool);   (* signals seen, kind 1 completed / 2 aborted / 0 none / 3 other, ok-before *)
  mc_max_active : N; mc_left : N; mc_parked : N }.

Definition req_ok (r : nat * N * bool) : bool :=
  let '(signals, kind, ok_before) := r in
  Nat.eqb signals 1 && (((kind =? 1) && ok_before) || (kind =? 2)).

Definition mcase_ok (c : mcase) : bool :=
  forallb req_ok (mc_reqs c) && (mc_max_active c <=? N.max 1 (mc_conc c)) &&
  (mc_left c =? 0) && (mc_parked c =? 0).

Definition mmismatches (cs : list mcase) : list N := failing (map mcase_ok cs).
