(* C16: every interleaving of one block download, by closure of the reachable state set. *)
From BR Require Import Base.Prelude Gen.Consts Blocks.Reach Blocks.DownloaderLTS.
Open Scope N_scope.

(* up to two manager-side Cancel calls (cancelDownloaders and Stop both cancel) and one node-side
   Stop call; calls beyond the first effective one are no-ops on the state *)
Definition i0 : N := encode (init_st 2 1).
Definition R0 : list N := Eval vm_compute in explore_from next 400000 i0.

Lemma R0_init : In i0 R0.
Proof. apply memN_In. vm_compute. reflexivity. Qed.

Lemma R0_closed : closed next R0 = true.
Proof. vm_compute. reflexivity. Qed.

Lemma reachable_in_R0 s : reachable next i0 s -> In s R0.
Proof. exact (closed_sound next R0 i0 R0_init R0_closed s). Qed.

Definition all_props (n : N) : bool :=
  no_blocked_send n && quiescent_clean n && ok_only_after_success n && decreasing n.

Lemma all_props_always s : reachable next i0 s -> all_props s = true.
Proof.
  apply (invariant_by_closure next R0 i0 all_props R0_init R0_closed).
  vm_compute. reflexivity.
Qed.

Theorem no_blocked_send_always s : reachable next i0 s -> no_blocked_send s = true.
Proof.
  intros H. pose proof (all_props_always s H) as Ha. unfold all_props in Ha.
  apply andb_true_iff in Ha as [Ha _]. apply andb_true_iff in Ha as [Ha _].
  apply andb_true_iff in Ha as [Ha _]. exact Ha.
Qed.

Theorem quiescent_clean_always s : reachable next i0 s -> quiescent_clean s = true.
Proof.
  intros H. pose proof (all_props_always s H) as Ha. unfold all_props in Ha.
  repeat (apply andb_true_iff in Ha as [Ha ?]). assumption.
Qed.

Theorem ok_only_after_success_always s : reachable next i0 s -> ok_only_after_success s = true.
Proof.
  intros H. pose proof (all_props_always s H) as Ha. unfold all_props in Ha.
  repeat (apply andb_true_iff in Ha as [Ha ?]). assumption.
Qed.

Theorem decreasing_always s : reachable next i0 s -> decreasing s = true.
Proof.
  intros H. pose proof (all_props_always s H) as Ha. unfold all_props in Ha.
  repeat (apply andb_true_iff in Ha as [Ha ?]). assumption.
Qed.

(* executions are finite: a path from a reachable state is no longer than its rank *)
Theorem paths_bounded : forall p s, reachable next i0 s -> path next s p ->
  N.of_nat (length p) <= rank_st (decode s).
Proof.
  apply (paths_bounded_by next (fun n => rank_st (decode n)) i0).
  intros s Hr s' Hin. pose proof (decreasing_always s Hr) as Hd. unfold decreasing in Hd.
  rewrite forallb_forall in Hd. specialize (Hd s' Hin). apply N.ltb_lt in Hd. exact Hd.
Qed.

(* hence: every maximal execution ends in a state without successors, where Run has returned,
   no sender is pending and the handler is not in flight *)
Theorem maximal_runs_finish s : reachable next i0 s -> next s = [] ->
  let d := decode s in
  run d = RDone /\ extS d = false /\ extC d = false /\ stopS d = false /\ stopC d = false /\
  (hnd d = H0 \/ hnd d = HDone).
Proof.
  intros Hr Hn. pose proof (quiescent_clean_always s Hr) as Hq. unfold quiescent_clean in Hq.
  rewrite Hn in Hq. cbv zeta.
  repeat (apply andb_true_iff in Hq as [Hq ?]).
  apply N.eqb_eq in Hq.
  repeat match goal with H : negb _ = true |- _ => apply negb_true_iff in H end.
  repeat split; try assumption.
  match goal with H : (_ || _) = true |- _ => apply orb_true_iff in H as [H|H]; apply N.eqb_eq in H; auto end.
Qed.

(* the channel capacities the argument depends on are those of the code *)
(* the handler is never parked on a signalling channel: with no internal step possible it is
   either not invoked, reading transactions, or through *)
Theorem handler_parks_only_reading_always s : reachable next i0 s -> handler_parks_only_reading s = true.
Proof.
  apply (invariant_by_closure next R0 i0 handler_parks_only_reading R0_init R0_closed).
  vm_compute. reflexivity.
Qed.

Theorem handler_parks_only_reading_prop s : reachable next i0 s -> tau_quiescent s = true ->
  let h := hnd (decode s) in h = H0 \/ h = HProc \/ h = HDone.
Proof.
  intros Hr Hq. pose proof (handler_parks_only_reading_always s Hr) as Hp.
  unfold handler_parks_only_reading in Hp. rewrite Hq in Hp. cbn [negb orb] in Hp.
  apply orb_true_iff in Hp as [Hp|Hp]; [apply orb_true_iff in Hp as [Hp|Hp]|];
    apply N.eqb_eq in Hp; cbv zeta; auto.
Qed.

(* ... so once its stream has ended (the handler has left HProc for good) it returns *)
Theorem ended_handler_returns s : reachable next i0 s -> tau_quiescent s = true ->
  hnd (decode s) = HSendC \/ hnd (decode s) = HDone -> hnd (decode s) = HDone.
Proof.
  intros Hr Hq [Hh|Hh]; [|exact Hh].
  pose proof (handler_parks_only_reading_always s Hr) as Hp. unfold handler_parks_only_reading in Hp.
  rewrite Hq, Hh in Hp. vm_compute in Hp. discriminate.
Qed.

(* the capacities read from the source are ones the state encoding can represent (room for three
   Started signals, two Complete values); every theorem above is re-checked for the values found *)
Theorem capacities : (capS = 2 \/ capS = 3) /\ capC = 2.
Proof. split; [first [left; reflexivity | right; reflexivity] | reflexivity]. Qed.

(* non-vacuity: a cancel racing a running handler *)
Example schedule_example :
  schedule_admits 2 1 [LArrive; LHandlerStart; LCancel; LEndOk] (mkObs true VCancelled true 1 0) = true /\
  schedule_admits 2 1 [LArrive; LHandlerStart; LCancel; LEndOk] (mkObs true VOkay true 1 0) = true /\
  schedule_admits 2 1 [LArrive; LHandlerStart; LCancel; LEndOk] (mkObs false 0 true 0 0) = false.
Proof. repeat split; vm_compute; reflexivity. Qed.
