(* C04 - Block confirmations are issued only for fully verified blocks, with valid proofs.
   Blocks/BlockHandler.v: the calls handleBlock makes and what the download completes with;
   Blocks/Merkle.v: merkle root and proof paths over an abstract node hash. *)
From BR Require Import Base.Prelude Blocks.Merkle Blocks.MerkleProofs Blocks.BlockHandler
     Blocks.BlockHandlerProofs.
Open Scope N_scope.

(* no coinbase processing, no confirmation and no block-txid record unless the header is the
   requested one, the announced count was received in full, the merkle root over all received
   transactions equals the header's, every proof verifies, and the processor / cancel never
   interrupted the stream *)
Theorem C04_guarded : forall x, fst (handle_block x) <> [] ->
  bi_hash_ok x = true /\ N.of_nat (length (bi_txs x)) = bi_count x /\ bi_root_ok x = true /\
  bi_proofs_ok x = true /\ fst (tx_loop x (bi_txs x) 0 []) = None.
Proof. exact effects_guarded. Qed.
Print Assumptions C04_guarded.

(* a download that completes without error made exactly these calls, in this order: coinbase,
   one confirmation per relevant transaction in block order, the record of exactly those txids *)
Theorem C04_exact : forall x es, handle_block x = (es, CNil) ->
  let rel := filter (fun t => memN t (bi_relevant x)) (bi_txs x) in
  es = ECoinbase :: map EConfirm rel ++ [EAppend rel].
Proof. exact success_is_exact. Qed.
Print Assumptions C04_exact.

Theorem C04_confirms_are_relevant : forall x t, In (EConfirm t) (fst (handle_block x)) ->
  In t (bi_txs x) /\ memN t (bi_relevant x) = true.
Proof. exact confirms_are_relevant. Qed.
Print Assumptions C04_confirms_are_relevant.

(* the proof of position i recomputes the merkle root of the block, for every list of
   transactions and every position: for any node hash H *)
Theorem C04_proof_verifies : forall (H : N -> N -> N) l i, (i < length l)%nat ->
  calc_root H (nth i l 0) (merkle_path H l i) i = merkle_root H l.
Proof. exact path_verifies. Qed.
Print Assumptions C04_proof_verifies.

(* why the root check alone is not enough (D21): a repeated last transaction of an odd block
   leaves the root unchanged, for any H *)
Theorem C04_root_blind_to_repeated_last : forall (H : N -> N -> N) a b c,
  merkle_root H [a; b; c; c] = merkle_root H [a; b; c].
Proof. exact root_mutation3. Qed.
Print Assumptions C04_root_blind_to_repeated_last.

(* the handler as found confirmed on root_ok alone; the repaired one also needs proofs_ok: the
   mutated block is refused *)
Example C04_mutated_block_refused :
  handle_block (mkBlockIn true 4 [1; 2; 3; 3] [3] true false None None false None false) = ([], CError) /\
  handle_block (mkBlockIn true 3 [1; 2; 3] [3] true true None None false None false) =
    ([ECoinbase; EConfirm 3; EAppend [3]], CNil).
Proof. split; vm_compute; reflexivity. Qed.
