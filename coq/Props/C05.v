(* C05 - Best-chain blocks from the start height are processed in order, each once.
   Sync/Sync.v: one synchronisation round (walk back from the tip, then ascending requests) and
   the multi-round state machine with triggers, the restart flag, successes, failed attempts and
   the orphan poll.  Histories are arbitrary event lists; every chain in them has distinct hashes. *)
From BR Require Import Base.Prelude Sync.Sync Sync.SyncProofs Sync.SyncComplete.
Open Scope N_scope.

(* one round: the planned blocks are the best-chain blocks of their heights, at or above the start
   height, unprocessed; contiguous ascending up to the tip; beginning at the start height or
   right above a processed block *)
Theorem C05_round_plan : forall chain start proc,
  let p := plan chain start proc in
  good chain start proc p /\ contig p /\
  (p <> [] -> exists pre, p = pre ++ [((length chain - 1)%nat, hash_at chain (length chain - 1))]) /\
  (p <> [] -> exists lo, head_height p lo /\ stops_right chain start proc lo).
Proof. exact plan_spec. Qed.
Print Assumptions C05_round_plan.

(* the walk as found requested the block below the start height when the tip was exactly at it
   (D15, repaired) *)
Theorem C05_as_found_refuted :
  exists chain start proc p, In p (plan_gen true chain start proc) /\ (fst p < start)%nat.
Proof. exact plan_as_found_refuted. Qed.
Print Assumptions C05_as_found_refuted.

(* whole histories: never a request below the start height *)
Theorem C05_never_below_start : forall start es s, Forall ev_ok es -> SI start s ->
  Forall (fun h => (start <= h)%nat) (request_heights_of (snd (srun start s es))).
Proof. exact requests_above_start. Qed.
Print Assumptions C05_never_below_start.

(* whole histories: each block is recorded as processed at most once, and never one that was
   already recorded *)
Theorem C05_processed_once : forall start es s, Forall ev_ok es -> SI start s ->
  NoDup (processed_of (snd (srun start s es))) /\
  forall x, In x (processed_of (snd (srun start s es))) -> ~ In x (s_proc s).
Proof. exact processed_once. Qed.
Print Assumptions C05_processed_once.

(* a step requests only blocks at or above the start height that are not recorded as processed
   at that moment, and records as processed only blocks that were not *)
Theorem C05_step_log : forall start s e, ev_ok e -> SI start s ->
  Forall (lg_ok start (s_proc (fst (sstep start s e))) (s_proc s)) (snd (sstep start s e)) /\
  s_proc (fst (sstep start s e)) = s_proc s ++ processed_of (snd (sstep start s e)).
Proof. exact sstep_log. Qed.
Print Assumptions C05_step_log.

(* within a round the next request is the next planned block *)
Theorem C05_ascending_within_round : forall start s h x h2 x2 r, s_mode s = Some ((h, x) :: (h2, x2) :: r) ->
  sstep start s ESuccess =
  (mkS (s_chain s) (s_proc s ++ [x]) (Some ((h2, x2) :: r)) (s_flag s), [LProcessed x; LRequest h2 x2]).
Proof. exact next_request_is_next_planned. Qed.
Print Assumptions C05_ascending_within_round.

(* a pending block that left the best chain is abandoned at the next poll; a trigger received
   meanwhile makes the next round plan on the chain as it is then *)
Theorem C05_orphan_abandoned : forall start s h x r, s_mode s = Some ((h, x) :: r) -> hash_at (s_chain s) h <> x ->
  let '(s', l) := sstep start s ETick in
  In (LAbandon x) l /\ s_proc s' = s_proc s /\
  (s_flag s = false -> s_mode s' = None) /\
  (s_flag s = true -> s_flag s' = false /\
     s_mode s' = match plan (s_chain s) start (s_proc s) with [] => None | p => Some p end).
Proof. exact orphan_abandoned. Qed.
Print Assumptions C05_orphan_abandoned.

(* completeness of a round ("... up to the tip"): from an idle reader, with the best chain fixed
   and every download eventually succeeding - whatever pattern of failed attempts (no node, node
   drops mid-block, wrong block) and of late completion callbacks of earlier downloads is
   interleaved - the round started by a trigger requests exactly its plan, in that order, records
   exactly those blocks as processed, in that order, and ends; with C05_round_plan: every
   best-chain block from the start height (or from right above the most recent processed block)
   up to the tip, contiguous and ascending *)
Theorem C05_round_completes : forall start s es, s_mode s = None -> s_flag s = false ->
  let pl := plan (s_chain s) start (s_proc s) in
  filter (fun e => negb (is_stutter e)) es = ETrigger :: repeat ESuccess (length pl) ->
  let r := srun start s es in
  s_chain (fst r) = s_chain s /\ s_proc (fst r) = s_proc s ++ map snd pl /\
  s_mode (fst r) = None /\
  requests_of (snd r) = map snd pl /\ processed_of (snd r) = map snd pl.
Proof. exact round_completes_despite_failures. Qed.
Print Assumptions C05_round_completes.

(* non-vacuity: chain of 6, start height 2, block 102 processed: the plan is 103, 104, 105; two
   failed attempts and a late callback in between change nothing *)
Example C05_round_completes_example :
  let s := sinit [100; 101; 102; 103; 104; 105] [102] in
  let es := [ETrigger; EFail; ESuccess; ELate; EFail; ESuccess; ESuccess] in
  map snd (plan (s_chain s) 2 (s_proc s)) = [103; 104; 105] /\
  filter (fun e => negb (is_stutter e)) es = ETrigger :: repeat ESuccess 3 /\
  s_proc (fst (srun 2 s es)) = [102; 103; 104; 105].
Proof. cbv zeta. repeat split; vm_compute; reflexivity. Qed.

(* non-vacuity: a history with a success, a failed attempt, new headers, a reorg of the pending
   block, the poll and the follow-up round *)
Example C05_example :
  let c1 := [100; 101; 102; 103; 104; 105] in
  let c2 := [100; 101; 102; 203; 204; 205; 206] in
  SI 2 (sinit c1 [102]) /\
  snd (srun 2 (sinit c1 [102]) [ETrigger; ESuccess; EFail; EChain c2; ETrigger; ETick; ESuccess; ESuccess; ESuccess; ESuccess]) =
  [LRound; LRequest 3 103; LProcessed 103; LRequest 4 104; LAbandon 104;
   LRound; LRequest 3 203; LProcessed 203; LRequest 4 204; LProcessed 204; LRequest 5 205; LProcessed 205;
   LRequest 6 206; LProcessed 206].
Proof.
  split; [|vm_compute; reflexivity].
  split; cbn; [|split; [|exact I]]; repeat (constructor; [cbn; intuition discriminate|]); constructor.
Qed.
Print Assumptions C05_example.
