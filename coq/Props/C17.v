(* C17 - A header marked invalid, and everything built on it, is excluded until unmarked. *)
From BR Require Import Base.Prelude Base.Compact Headers.Tree Headers.TreeBasics Headers.TreeInv
     Headers.TreeSteps Headers.TreeStream Headers.TreeProps Headers.TreeExample.
Open Scope N_scope.

(* marking a header held in memory: every header built on it leaves the tree, the marked hash is
   unknown afterwards and not on the best chain, and the new tip is a maximal-work header of what
   remains *)
Theorem C17_excluded : forall s x pick n, Inv s -> op_ok s (OMark x pick) ->
  memN x (invalid s) = false -> find_mem (nodes s) x = Some n ->
  let s' := fst (mark s x pick) in
  (forall m, In m (nodes s) -> is_anc (nodes s) x (n_hash m) = true -> find (n_hash m) (nodes s') = None) /\
  (forall m, In m (nodes s') -> In m (nodes s) /\ is_anc (nodes s) x (n_hash m) = false) /\
  find x (nodes s') = None /\ on_best s' x = false /\ memN x (invalid s') = true /\
  admissible (nodes s') (tip s') = true.
Proof. exact mark_excludes. Qed.
Print Assumptions C17_excluded.

(* while marked it is refused as invalid wherever it could attach; its children are refused *)
Theorem C17_refused : forall cfg s h pick p,
  memN (h_hash h) (invalid s) = true -> bits_valid (h_bits h) = true ->
  find_mem (nodes s) (h_prev h) = Some p -> find_mem (nodes s) (h_hash h) = None ->
  submit cfg s h pick = (s, RSubmit VInvalid []).
Proof. exact marked_is_refused. Qed.
Print Assumptions C17_refused.

Theorem C17_children_refused : forall cfg s h pick,
  bits_valid (h_bits h) = true -> find_mem (nodes s) (h_prev h) = None ->
  exists v, submit cfg s h pick = (s, RSubmit v []) /\ v <> VOk.
Proof. exact child_of_absent_refused. Qed.
Print Assumptions C17_children_refused.

(* the marking survives Save/Load (and every other operation): Load restores exactly the list *)
Theorem C17_persist : forall s d pick, inv_file_ok s -> invalid (fst (load s d pick)) = invalid s.
Proof. exact load_keeps_invalid. Qed.
Print Assumptions C17_persist.

Theorem C17_file_invariant : forall cfg ops s, inv_file_ok s -> inv_file_ok (fst (run cfg s ops)).
Proof. exact run_inv_file. Qed.
Print Assumptions C17_file_invariant.

(* unmarking removes it from the list, so the verdict rules (C08) accept it again *)
Theorem C17_unmark : forall s x, inv_file_ok s -> memN x (invalid (fst (unmark s x))) = false.
Proof. exact unmark_clears. Qed.
Print Assumptions C17_unmark.

(* ... and only it: every other marked hash stays marked (and so stays refused, C17_refused); the
   tree and the tip are untouched *)
Theorem C17_unmark_only_that : forall s x y, y <> x ->
  memN y (invalid (fst (unmark s x))) = memN y (invalid s) /\
  nodes (fst (unmark s x)) = nodes s /\ tip (fst (unmark s x)) = tip s.
Proof. exact unmark_keeps_others. Qed.
Print Assumptions C17_unmark_only_that.

Example C17_example :
  let s := fst (run ex_cfg (init ex_g) (firstn 9 ex_ops)) in
  find 5 (nodes s) = None /\ tip s = 4 /\ invalid s = [5] /\
  snd (submit ex_cfg s (mkHdr 5 4 486604799 1231008305) 0) = RSubmit VInvalid [].
Proof. repeat split; vm_compute; reflexivity. Qed.
