(* C12 - A crash at any storage write during Clean or Save leaves a loadable, sound state.

   What is decided how.  The crash points are those of the implementation: the harness records the
   Write / Remove sequence of every Clean and Save of a history and loads a fresh repository from
   the storage image after every prefix (empty and full included).  What "sound" means is decided
   here: the best chain the loaded repository reports must be a chain of headers the repository
   had accepted, linked parent to child from genesis, whose tip carries exactly the work the model
   computes for it and at least the work of the tip at the last completed Save.  The theorems below
   are the soundness of that decider against the tree model of Headers/Tree.v, and the facts of
   the model that make the demand meaningful.  The file formats and the order of the individual
   writes are NOT modelled: that a given prefix image loads is established by enumeration on the
   implementation, not by proof (partial, see DESIGN.md). *)
From BR Require Import Base.Prelude Base.Compact Headers.Tree Headers.TreeBasics Headers.TreeInv
     Headers.TreeSteps Headers.TreeProps Headers.TreeExample Headers.Crash Headers.CrashProofs.
Open Scope N_scope.

Theorem C12_decider_sound : forall g s o, crash_ok g s o = true ->
  co_ok o = true /\
  exists rest, co_chain o = g :: rest /\ Linked (nodes s) g rest /\
               work_of (nodes s) (last (co_chain o) 0) = co_work o /\ saved_work s <= co_work o.
Proof. exact crash_ok_sound. Qed.
Print Assumptions C12_decider_sound.

(* every header of an accepted chain is one the model holds *)
Theorem C12_chain_headers_accepted : forall l chain p x, Linked l p (chain ++ [x]) -> find x l <> None.
Proof. exact linked_last_known. Qed.
Print Assumptions C12_chain_headers_accepted.

(* ... and an accepted chain is not just any linked list: in a well-formed tree it IS the model's
   chain of its last header, i.e. the loaded repository reports the true ancestry of its tip *)
Theorem C12_chain_is_true_ancestry : forall l g ng rest, wf l -> find g l = Some ng -> n_prev ng = 0 ->
  Linked l g rest -> chain_of l (last rest g) = g :: rest.
Proof. exact linked_is_chain_of. Qed.
Print Assumptions C12_chain_is_true_ancestry.

(* why the implementation's images are sound, and exactly when they are not: a Load reports the
   main-file history below its horizon and the branch files above it; if the two agree below the
   horizon the report is the chain under the index ... *)
Theorem C12_splice_sound : forall hist mem p, agree_below hist mem p = true -> splice hist mem p = mem.
Proof. exact splice_sound. Qed.
Print Assumptions C12_splice_sound.

(* ... otherwise it is a splice of two chains (known finding D27; the harness must justify, with
   this very predicate evaluated in the kernel, every crash point it sets aside as D27) *)
Theorem C12_splice_refuted : exists hist mem p, agree_below hist mem p = false /\
  splice hist mem p <> mem /\ splice hist mem p <> hist.
Proof. exact splice_refuted. Qed.
Print Assumptions C12_splice_refuted.

(* the uninterrupted case (all writes done): Save then Load restores the saved chain, heights and
   invalid list (C11) - so the bound "at least the work of the last completed Save" is what an
   uninterrupted run delivers, and the reachable states satisfy the hypotheses above *)
Theorem C12_uninterrupted_restores : forall s d pick, Inv s -> inv_file_ok s -> (0 <= d)%Z ->
  let s2 := fst (load (fst (save s)) d pick) in
  Inv s2 /\
  invalid s2 = invalid s /\
  chain_of (nodes s2) (tip s) = chain_of (nodes s) (tip s) /\
  (forall x, In x (chain_of (nodes s) (tip s)) -> height_of (nodes s2) x = height_of (nodes s) x) /\
  (forall n, In n (nodes s2) -> exists n0, In n0 (nodes s) /\ core n0 = core n).
Proof. exact save_load_restores. Qed.
Print Assumptions C12_uninterrupted_restores.

(* non-vacuity: the decider accepts the example history's own chain and rejects a spliced one *)
Example C12_example :
  let s := final ex_cfg ex_g ex_ops in
  crash_ok (h_hash ex_g) s (mkCObs true (chain_of (nodes s) (tip s)) (work_of (nodes s) (tip s))) = true /\
  crash_ok (h_hash ex_g) s (mkCObs true (h_hash ex_g :: tl (tl (chain_of (nodes s) (tip s)))) (work_of (nodes s) (tip s))) = false /\
  Nat.leb 2 (length (chain_of (nodes s) (tip s))) = true.
Proof. vm_compute. repeat split; try reflexivity. Qed.
Print Assumptions C12_example.
