(* C09 - Hash, height and best-chain lookups agree with the accepted tree, always. *)
From BR Require Import Base.Prelude Base.Compact Headers.Tree Headers.TreeBasics Headers.TreeInv
     Headers.TreeSteps Headers.TreeStream Headers.TreeProps Headers.TreeExample.
Open Scope N_scope.

(* for every known header in every reachable state: the reported height is its tree depth, the
   best-chain flag holds exactly when it is an ancestor-or-equal of the reported tip, a reported
   predecessor is its true parent one height below, and a header is retrievable only if it is in
   memory or on the best chain *)
Theorem C09_known : forall s x n, Inv s -> find x (nodes s) = Some n ->
  let k := lookup_of s x in
  lk_height k = n_height n /\
  Z.of_nat (length (ancestors (nodes s) x)) = (lk_height k + 1)%Z /\
  lk_ck_ok k = true /\ lk_ck_height k = n_height n /\
  (lk_ck_flag k = true <-> In x (chain_of (nodes s) (tip s))) /\
  (lk_prev k <> 0 -> lk_prev k = n_prev n /\ lk_prev_height k = (n_height n - 1)%Z) /\
  (lk_get_ok k = true -> n_mem n = true \/ In x (chain_of (nodes s) (tip s))).
Proof. exact lookup_known. Qed.
Print Assumptions C09_known.

Theorem C09_unknown : forall s x, find x (nodes s) = None ->
  lookup_of s x = mkLookup x (-1) (-1) false false 0 (-1) false.
Proof. exact lookup_unknown. Qed.
Print Assumptions C09_unknown.

(* height/hash queries on the best chain: position k of the reported chain is the ancestor of the
   tip at height k (memory or storage alike: the model has one chain) *)
Theorem C09_range : forall cfg g ops,
  cfg_ok cfg -> genesis_ok g -> ops_ok cfg (init g) ops ->
  let s := final cfg g ops in
  exists tn rest, ancestors (nodes s) (tip s) = tn :: rest /\ n_hash tn = tip s /\
    linked_down (tn :: rest) /\
    Z.of_nat (length (tn :: rest)) = (tip_height s + 1)%Z /\
    chain_of (nodes s) (tip s) = rev (map n_hash (tn :: rest)).
Proof. exact chain_linked. Qed.
Print Assumptions C09_range.

Theorem C09_reachable : forall cfg g ops, cfg_ok cfg -> genesis_ok g -> ops_ok cfg (init g) ops ->
  Inv (final cfg g ops).
Proof. intros cfg g ops Hc Hg Ho. exact (run_inv cfg ops Hc (init g) (init_inv g Hg) Ho). Qed.
Print Assumptions C09_reachable.

Example C09_example : exists n, find 3 (nodes (final ex_cfg ex_g ex_ops)) = Some n /\
  lookup_of (final ex_cfg ex_g ex_ops) 3 = mkLookup 3 2 2 false true 2 1 true.
Proof. eexists. split; vm_compute; reflexivity. Qed.
