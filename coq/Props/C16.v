(* C16 - Block download requests always terminate, exactly once, under every interleaving.
   Blocks/DownloaderLTS.v: one download at the granularity of every channel operation and lock
   section (finer than the call granularity the property asks for), all interleavings by closure
   of the reachable set; Blocks/Manager.v: the manager's bookkeeping for any number of downloads. *)
From BR Require Import Base.Prelude Gen.Consts Blocks.Reach Blocks.DownloaderLTS Blocks.DownloaderProofs
     Blocks.Manager Blocks.ManagerProofs.
Open Scope N_scope.

(* in every reachable state of every interleaving, whoever is about to send on Started / Complete
   finds room: nothing ever parks on the signalling channels *)
Theorem C16_no_blocked_send : forall s, reachable next i0 s -> no_blocked_send s = true.
Proof. exact no_blocked_send_always. Qed.
Print Assumptions C16_no_blocked_send.

(* every execution is finite (timers are events that eventually fire) ... *)
Theorem C16_executions_finite : forall p s, reachable next i0 s -> path next s p ->
  N.of_nat (length p) <= rank_st (decode s).
Proof. exact paths_bounded. Qed.
Print Assumptions C16_executions_finite.

(* ... and ends with Run returned, no pending sender and the handler not in flight *)
Theorem C16_run_returns : forall s, reachable next i0 s -> next s = [] ->
  let d := decode s in
  run d = RDone /\ extS d = false /\ extC d = false /\ stopS d = false /\ stopC d = false /\
  (hnd d = H0 \/ hnd d = HDone).
Proof. exact maximal_runs_finish. Qed.
Print Assumptions C16_run_returns.

(* Run reports success only if the handler ran to the end of the right block without error *)
Theorem C16_success_is_real : forall s, reachable next i0 s -> ok_only_after_success s = true.
Proof. exact ok_only_after_success_always. Qed.
Print Assumptions C16_success_is_real.

(* the handler thread is never parked on a signalling channel: when nothing internal can move it has
   not been invoked, is reading transactions, or has returned; once its stream ended it returns *)
Theorem C16_handler_parks_only_reading : forall s, reachable next i0 s -> tau_quiescent s = true ->
  let h := hnd (decode s) in h = H0 \/ h = HProc \/ h = HDone.
Proof. exact handler_parks_only_reading_prop. Qed.
Print Assumptions C16_handler_parks_only_reading.

Theorem C16_ended_handler_returns : forall s, reachable next i0 s -> tau_quiescent s = true ->
  hnd (decode s) = HSendC \/ hnd (decode s) = HDone -> hnd (decode s) = HDone.
Proof. exact ended_handler_returns. Qed.
Print Assumptions C16_ended_handler_returns.

Theorem C16_capacities : (capS = 2 \/ capS = 3) /\ capC = 2.
Proof. exact capacities. Qed.
Print Assumptions C16_capacities.

(* manager: a terminal signal is sent only for the current request and ends it - so each queued
   request gets at most one, completed or aborted, never both *)
Theorem C16_one_terminal : forall c m e m' s, mstep' c m e = (m', s) -> is_terminal s = true ->
  exists h, cur m = Some h /\ cur m' = None /\ (s = SCompleted h \/ s = SAborted h).
Proof. exact terminal_ends_request. Qed.
Print Assumptions C16_one_terminal.

Theorem C16_no_second_signal : forall c m e, cur m = None -> is_terminal (snd (mstep' c m e)) = false.
Proof. exact no_signal_without_request. Qed.
Print Assumptions C16_no_second_signal.

(* a block is marked complete only when a registered downloader of the current hash returns nil *)
Theorem C16_complete_only_after_success : forall c m e m' s, mstep' c m e = (m', s) ->
  cur_done m = false -> cur_done m' = true ->
  exists id h, e = EFinish id true /\ cur m = Some h /\ In (id, h) (dls m).
Proof. exact complete_needs_success. Qed.
Print Assumptions C16_complete_only_after_success.

Theorem C16_completed_signal_needs_mark : forall c m e m' h,
  mstep' c m e = (m', SCompleted h) -> cur_done m = true.
Proof. exact completed_signal_needs_done. Qed.
Print Assumptions C16_completed_signal_needs_mark.

Theorem C16_concurrency_bound : forall c m e, bound_ok c m ->
  (forall h, e = ENewRequest h -> active h (dls m) = 0) -> bound_ok c (fst (mstep' c m e)).
Proof. exact concurrency_bound. Qed.
Print Assumptions C16_concurrency_bound.

Theorem C16_registry_empties : forall c m id ok, In id (map fst (dls m)) -> failed m = false ->
  ~ In id (map fst (dls (fst (mstep' c m (EFinish id ok))))).
Proof. exact registry_shrinks. Qed.
Print Assumptions C16_registry_empties.

Example C16_schedule_example :
  schedule_admits 2 1 [LArrive; LHandlerStart; LCancel; LEndOk] (mkObs true VCancelled true 1 0) = true /\
  schedule_admits 2 1 [LArrive; LHandlerStart; LCancel; LEndOk] (mkObs true VOkay true 1 0) = true /\
  schedule_admits 2 1 [LArrive; LHandlerStart; LCancel; LEndOk] (mkObs false 0 true 0 0) = false.
Proof. exact schedule_example. Qed.

Example C16_manager_example :
  snd (mrun 2 minit [ENewRequest 7; ETick true; EFinish 0 false; EFinish 1 true; ESeeComplete;
                     ENewRequest 8; EAbort]) =
  [SNone; SNone; SNone; SNone; SCompleted 7; SNone; SAborted 8].
Proof. vm_compute. reflexivity. Qed.
