(* C14 - Message framing never desynchronises on protocol-conformant traffic.
   Net/NodeFSM.v: what each handler consumes of a frame whose header declares [f_len] payload
   bytes, in every node state; the read loop as a state machine in which a handler that parks or
   loses its place is a transition to a state that answers no ping. *)
From BR Require Import Base.Prelude Gen.Consts Net.NodeFSM Net.NodeProofs.
Open Scope N_scope.

(* for a verified (ready) peer, every well-formed frame - any command, classic or extended, any
   length, whether a block is requested or not, with or without a tx manager - is consumed to
   exactly its declared length, header(s) included.  The model says per handler how the payload is
   taken: a length-limited read, a counted stream with a deferred discard of the remainder, a raw
   read by item count (inv), or nothing at all (getaddr, which has no payload). *)
Theorem C14_consumed_exactly : forall s f, n_ready s = true -> well_formed f = true ->
  consumed_code s f = consumed s f.
Proof. exact conformant_frame_consumed. Qed.
Print Assumptions C14_consumed_exactly.

(* in every other state as well, except headers before the handshake completed *)
Theorem C14_consumed_exactly_gen : forall s f, well_formed f = true ->
  (forall c fi a, f_msg f = MHeaders c fi a -> n_ready s = true \/ n_hs_complete s = true) ->
  consumed_code s f = consumed s f.
Proof. exact conformant_frame_consumed_gen. Qed.
Print Assumptions C14_consumed_exactly_gen.

(* observation D26, outside this property (the peer is not verified): such headers are not consumed *)
Theorem C14_headers_before_handshake_desync : forall s f c fi a, n_ready s = false -> n_hs_complete s = false ->
  f_msg f = MHeaders c fi a -> 0 < f_len f -> consumed_code s f < consumed s f.
Proof. exact headers_before_handshake_desync. Qed.
Print Assumptions C14_headers_before_handshake_desync.

(* the primitive behind "no handler" and "discard the remainder": DiscardInput drops exactly the
   number of bytes it is asked to, whatever the (positive) chunk size it reads with *)
Theorem C14_discard_exact : forall chunk n, 0 < chunk -> discard_input chunk n = n.
Proof. exact discard_input_exact. Qed.
Print Assumptions C14_discard_exact.

(* a ready node is stopped by a message only if the message violates the protocol: a second
   protoconf, a pong with the wrong nonce, or headers its repository refuses.  In particular no
   number of repeated version/verack, unrequested blocks or transactions, unknown commands or
   empty lists stops it *)
Theorem C14_only_violations_stop : forall s m, n_stopped s = false -> n_ready s = true ->
  n_stopped (fst (recv s m)) = true ->
  (m = MProtoconf /\ 1 <= n_protoconf s) \/ m = MPong false \/ (exists c f, m = MHeaders c f false).
Proof. exact ready_stops_only_on_violation. Qed.
Print Assumptions C14_only_violations_stop.

(* after any sequence of messages and handshake-thread steps, if the connection is up a ping is
   answered with a pong *)
Theorem C14_ping_answered : forall acts s,
  let s' := fst (nrun s acts) in n_stopped s' = false -> snd (recv s' MPing) = [ESend 4].
Proof. exact pong_after_any_sequence. Qed.
Print Assumptions C14_ping_answered.

(* the read loop cannot park on the handshake channel: a notification is dropped when the channel
   is full (the code as found blocked on the 11th post-handshake version/verack: D16) *)
Theorem C14_handshake_channel_bounded : forall s v,
  N.of_nat (length (n_chan (push_hs s v))) <= N.max cap_hs (N.of_nat (length (n_chan s))).
Proof. exact handshake_channel_bounded. Qed.
Print Assumptions C14_handshake_channel_bounded.

Example C14_example :
  let hs := [ARecv MVersion; AHs; ARecv MVerack; AHs; ARecv (MHeaders 1 HBsv false)] in
  let flood := map (fun _ => ARecv MVerack) (seq 0 40) in
  let traffic := [ARecv (MOther true); ARecv (MTx true); ARecv (MBlock false false); ARecv (MInv 0);
                  ARecv (MHeaders 0 HUnknown true); ARecv MGetAddr; ARecv (MPong true)] in
  let s := fst (nrun (ninit false true) (hs ++ flood ++ traffic)) in
  n_ready s = true /\ n_stopped s = false /\ length (n_chan s) = 10%nat /\ snd (recv s MPing) = [ESend 4].
Proof. vm_compute. repeat split; reflexivity. Qed.
Print Assumptions C14_example.
