(* C19 - Header locators are well-formed and let a same-chain peer continue from our tip. *)
From BR Require Import Base.Prelude Base.Compact Headers.Tree Headers.TreeBasics Headers.TreeInv
     Headers.TreeSteps Headers.TreeStream Headers.TreeProps Headers.TreeExample Headers.TreeLocator Blocks.Merkle
     Blocks.MerkleProofs Headers.SplitLocator Headers.SplitLocatorProofs.
Open Scope N_scope.

(* no hash appears twice *)
Theorem C19_nodup : forall s max, NoDup (locator s max).
Proof. exact locator_nodup. Qed.
Print Assumptions C19_nodup.

(* the best-chain part: at most max hashes, newest first with strictly descending heights
   starting at the tip's parent, each the best-chain header of its height and held in memory *)
Theorem C19_best_chain_part : forall s max,
  let l := nodes s in let main := chain_of l (tip s) in
  let w := locator_walk (length l) l main (tip_height s - 1) 5 max [] in
  (1 <= max -> length w <= max)%nat /\
  desc_heights (map fst w) = true /\
  (forall p, In p w -> find_mem l (snd p) <> None /\ snd p = nth (Z.to_nat (fst p)) main 0).
Proof. exact locator_walk_ok. Qed.
Print Assumptions C19_best_chain_part.

(* every locator hash is a header held in memory: whatever chain a peer answers from, if it
   shares a locator hash with ours the first header of its reply has a parent we hold, so
   ProcessHeader does not answer unknown-parent (verdict rules, C08) *)
Theorem C19_peer_connects : forall s max x, Inv s -> In x (locator s max) ->
  find_mem (nodes s) x <> None.
Proof. exact locator_in_memory. Qed.
Print Assumptions C19_peer_connects.

(* The split fork points (mainnet heights 478558 / 556766): Headers/SplitLocator.v models the
   branch-level walk with the split table over any best chain [hash_at], any memory horizon [low]
   and any split table; the harness runs it against the real fixture chain around the splits. *)
Theorem C19_splits_best_count : forall hash_at low sps tip max, (1 <= max)%nat ->
  (best_count (branch_locator hash_at low sps tip max) <= max)%nat.
Proof. exact branch_locator_best_count. Qed.
Print Assumptions C19_splits_best_count.

Theorem C19_splits_entries : forall hash_at low sps tip max, (0 <= tip)%Z -> (low <= tip)%Z ->
  Forall (fun e => snd e = true \/ (snd (fst e) = hash_at (fst (fst e)) /\ (low <= fst (fst e) <= tip)%Z))
         (branch_locator hash_at low sps tip max).
Proof. exact branch_locator_entries. Qed.
Print Assumptions C19_splits_entries.

Theorem C19_splits_starts_below_tip : forall hash_at low sps tip max, (0 < tip)%Z -> (low <= tip - 1)%Z ->
  (1 <= max)%nat ->
  exists rest, branch_locator hash_at low sps tip max = ((tip - 1)%Z, hash_at (tip - 1)%Z, false) :: rest.
Proof. exact branch_locator_starts_below_tip. Qed.
Print Assumptions C19_splits_starts_below_tip.

Example C19_example : locator (final ex_cfg ex_g ex_ops) 10 = [3; 4].
Proof. vm_compute. reflexivity. Qed.
