(* C18 - A merkle proof verifies only if it ties the transaction to a known header. *)
From BR Require Import Base.Prelude Base.Compact Headers.Tree Headers.TreeBasics Headers.TreeInv
     Headers.TreeSteps Headers.TreeStream Headers.TreeProps Headers.TreeExample Headers.TreeLocator Blocks.Merkle
     Blocks.MerkleProofs Blocks.MerkleIndex.
Open Scope N_scope.

(* a successful verification: the path recomputed the header's merkle root (path_ok), the header
   is one the repository knows - and is retrievable when only its hash was supplied - the height
   is its tree depth and the flag says whether it is on the reported best chain *)
Theorem C18_sound : forall s x wh ok h f, Inv s -> verify_proof s x wh ok = RVerify true h f ->
  ok = true /\
  exists n, find x (nodes s) = Some n /\ h = n_height n /\
            (f = true <-> In x (chain_of (nodes s) (tip s))) /\
            (wh = false -> n_mem n = true \/ In x (chain_of (nodes s) (tip s))).
Proof. exact verify_sound. Qed.
Print Assumptions C18_sound.

Theorem C18_unknown_fails : forall s x wh ok, find x (nodes s) = None ->
  verify_proof s x wh ok = RVerify false (-1) false.
Proof. exact verify_unknown_fails. Qed.
Print Assumptions C18_unknown_fails.

Theorem C18_bad_path_fails : forall s x wh, verify_proof s x wh false = RVerify false (-1) false.
Proof. exact verify_bad_path_fails. Qed.
Print Assumptions C18_bad_path_fails.

(* what "the path recomputes the root" pins down, for an injective node hash: the transaction id
   and every path element (any alteration of either changes the recomputed root) ... *)
Theorem C18_alter_txid : forall (H : N -> N -> N),
  (forall a b c d, H a b = H c d -> a = c /\ b = d) ->
  forall p i x y, calc_root H x p i = calc_root H y p i -> x = y.
Proof. exact calc_root_binds_leaf. Qed.
Print Assumptions C18_alter_txid.

Theorem C18_alter_path : forall (H : N -> N -> N),
  (forall a b c d, H a b = H c d -> a = c /\ b = d) ->
  forall p q i x, length p = length q -> calc_root H x p i = calc_root H x q i -> p = q.
Proof. exact calc_root_binds_path. Qed.
Print Assumptions C18_alter_path.

(* ... and an honest proof does recompute it *)
Theorem C18_honest_proof_verifies : forall (H : N -> N -> N) l i, (i < length l)%nat ->
  calc_root H (nth i l 0) (merkle_path H l i) i = merkle_root H l.
Proof. exact path_verifies. Qed.
Print Assumptions C18_honest_proof_verifies.
(* ... and the index: every index bit inside the tree is pinned down.  Two indexes that recompute
   the same root from the same transaction and path agree on every bit below the path length,
   unless some level pairs a value with itself - then the altered index puts the value to the
   right of its own duplicate, which CalculateRoot refuses as a bad index (a duplicate is only
   ever the right operand of the value it copies) *)
Theorem C18_alter_index : forall (H : N -> N -> N),
  (forall a b c d, H a b = H c d -> a = c /\ b = d) ->
  forall p x i j, distinct_operands H x p i -> calc_root H x p i = calc_root H x p j ->
  forall k, (k < length p)%nat -> Nat.testbit i k = Nat.testbit j k.
Proof. exact calc_root_binds_index. Qed.
Print Assumptions C18_alter_index.

(* bits at or above the path length do not enter the computation at all (the aliasing found as
   D19): that is why the repaired VerifyMerkleProof has to refuse them itself; that it does is
   decided by the correspondence check *)
Theorem C18_high_index_bits_unread : forall (H : N -> N -> N) p x i j,
  (forall k, (k < length p)%nat -> Nat.testbit i k = Nat.testbit j k) ->
  calc_root H x p i = calc_root H x p j.
Proof. exact calc_root_reads_low_bits. Qed.
Print Assumptions C18_high_index_bits_unread.

Example C18_example :
  verify_proof (final ex_cfg ex_g ex_ops) 3 true true = RVerify true 2 false /\
  verify_proof (final ex_cfg ex_g ex_ops) 1 false true = RVerify true 0 true /\
  verify_proof (final ex_cfg ex_g ex_ops) 77 true true = RVerify false (-1) false.
Proof. repeat split; vm_compute; reflexivity. Qed.
