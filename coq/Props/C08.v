(* C08 - Each header submission gets the reference verdict and a refusal changes nothing. *)
From BR Require Import Base.Prelude Base.Compact Headers.Tree Headers.TreeBasics Headers.TreeInv
     Headers.TreeSteps Headers.TreeStream Headers.TreeProps Headers.TreeExample.
Open Scope N_scope.

(* the decision table, in the order of the checks *)
Theorem C08_verdict_rules : forall cfg s h pick,
  let v := match snd (submit cfg s h pick) with RSubmit v _ => v | _ => VOther end in
  (bits_valid (h_bits h) = false -> v = VBadBits) /\
  (bits_valid (h_bits h) = true -> find_mem (nodes s) (h_prev h) = None ->
     v = if h_prev h =? c_genesis cfg then VWrongChain else VUnknown) /\
  (bits_valid (h_bits h) = true -> forall p, find_mem (nodes s) (h_prev h) = Some p ->
     (find_mem (nodes s) (h_hash h) <> None -> v = VOk) /\
     (find_mem (nodes s) (h_hash h) = None ->
        (memN (h_hash h) (invalid s) = true -> v = VInvalid) /\
        (memN (h_hash h) (invalid s) = false ->
           (has_cont_child (nodes s) (h_prev h) = true /\ (c_maxdepth cfg < tip_height s - n_height p)%Z -> v = VTooDeep) /\
           (has_cont_child (nodes s) (h_prev h) = false \/ (tip_height s - n_height p <= c_maxdepth cfg)%Z -> v = VOk)))).
Proof. exact verdict_rules. Qed.
Print Assumptions C08_verdict_rules.

(* any non-accepting answer leaves the whole state - hence every observable, the stream and what a
   later Save writes - identical *)
Theorem C08_refusal_noop : forall cfg s h pick s' v ann,
  submit cfg s h pick = (s', RSubmit v ann) -> v <> VOk -> s' = s /\ ann = [].
Proof. exact refusal_changes_nothing. Qed.
Print Assumptions C08_refusal_noop.

(* re-submitting a header held in memory together with its parent, any number of times *)
Theorem C08_resubmit : forall cfg s h pick p d k,
  bits_valid (h_bits h) = true -> find_mem (nodes s) (h_prev h) = Some p ->
  find_mem (nodes s) (h_hash h) = Some d ->
  run cfg s (repeat (OSubmit h pick) k) = (s, repeat (RSubmit VOk []) k).
Proof. exact resubmit_many. Qed.
Print Assumptions C08_resubmit.

Theorem C08_accepted_is_known : forall cfg s h pick s' ann,
  submit cfg s h pick = (s', RSubmit VOk ann) -> find_mem (nodes s) (h_hash h) = None ->
  exists n, find (h_hash h) (nodes s') = Some n /\ n_hdr n = h.
Proof. exact accepted_then_known. Qed.
Print Assumptions C08_accepted_is_known.

(* non-vacuity: the example history contains an accepted header, a duplicate, and a reorg *)
Example C08_example_verdicts :
  map (fun o => match o with RSubmit v _ => Some v | _ => None end)
      (firstn 3 (snd (run ex_cfg (init ex_g) ex_ops))) = [Some VOk; Some VOk; Some VOk] /\
  snd (submit ex_cfg (final ex_cfg ex_g ex_ops) (mkHdr 9 8 486604799 0) 0) = RSubmit VUnknown [] /\
  snd (submit ex_cfg (final ex_cfg ex_g ex_ops) (mkHdr 9 4 16842752 0) 0) = RSubmit VBadBits [].
Proof. repeat split; vm_compute; reflexivity. Qed.
