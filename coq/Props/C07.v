(* C07 - The new-header stream lets a subscriber reconstruct the best chain exactly. *)
From BR Require Import Base.Prelude Base.Compact Headers.Tree Headers.TreeBasics Headers.TreeInv
     Headers.TreeSteps Headers.TreeStream Headers.TreeProps Headers.TreeExample.
Open Scope N_scope.

(* For every submission in every reachable state: attaching the announced headers, in order, each
   at its previous hash (discarding what was above), to the chain reported before yields the chain
   reported after; only headers of the new best chain are announced; nothing is announced when the
   tip does not move (duplicates, side-branch growth, refusals). *)
Theorem C07_reconstruct : forall cfg s h pick s' v ann,
  cfg_ok cfg -> Inv s -> op_ok s (OSubmit h pick) ->
  submit cfg s h pick = (s', RSubmit v ann) ->
  apply_stream (prevs_of (nodes s')) (chain_of (nodes s) (tip s)) ann = Some (chain_of (nodes s') (tip s')) /\
  (forall x, In x ann -> In x (chain_of (nodes s') (tip s'))) /\
  (tip s' = tip s -> ann = []).
Proof. exact submit_stream. Qed.
Print Assumptions C07_reconstruct.

(* the tree-level fact: announce(old,new) is the new chain above the fork point, lowest first *)
Theorem C07_announce : forall l old new o nw, wf l ->
  find old l = Some o -> find new l = Some nw ->
  (announce l old new <> [] \/ chain_of l old = chain_of l new) ->
  apply_stream (prevs_of l) (chain_of l old) (announce l old new) = Some (chain_of l new).
Proof. exact announce_reconstructs. Qed.
Print Assumptions C07_announce.

(* every reachable state satisfies the invariant C07_reconstruct needs *)
Theorem C07_reachable : forall cfg g ops, cfg_ok cfg -> genesis_ok g -> ops_ok cfg (init g) ops ->
  Inv (final cfg g ops).
Proof. intros cfg g ops Hc Hg Ho. exact (run_inv cfg ops Hc (init g) (init_inv g Hg) Ho). Qed.
Print Assumptions C07_reachable.

Example C07_hyps_satisfiable : cfg_ok ex_cfg /\ genesis_ok ex_g /\ ops_ok ex_cfg (init ex_g) ex_ops.
Proof. exact ex_hyps. Qed.
