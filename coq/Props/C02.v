(* C02 - Only headers with valid, consensus-exact proof of work are accepted.
   Models: Base/Compact.v (compact bits <-> target <-> work, as the dependency computes them),
   Headers/Pow.v (WorkIsValid, Branch.Target, the bits comparison, as ProcessHeader applies them). *)
From BR Require Import Base.Prelude Base.Compact Gen.Consts Gen.Fixture Headers.Tree Headers.Pow
     Headers.PowProofs.
Open Scope N_scope.

(* the constants the difficulty rule depends on are the consensus ones (regenerated from /repo) *)
Theorem C02_consts_are_consensus :
  daa_activation_height = 556767%Z /\ daa_window = 144%Z /\ daa_samples = 3%Z /\
  daa_min_span = (72 * 600)%Z /\ daa_max_span = (288 * 600)%Z /\ daa_spacing = 600%Z.
Proof. exact consts_are_consensus. Qed.
Print Assumptions C02_consts_are_consensus.

(* what an accepting answer for a new header implies: its hash does not exceed the target its bits
   encode, and from the activation height on its bits are the ones the network's algorithm
   requires for its position on its own branch *)
Theorem C02_accept_sound : forall x, pow_verdict false true x = Ok VOk -> pi_dup x = false ->
  pi_parent_known x = true /\
  (exists d, decode_bits (pi_bits x) = Ok d /\ pi_hash x <= d) /\
  ((daa_activation_height <= pi_height x)%Z ->
     exists f0 f1 f2 l0 l1 l2, pi_samples x = Some (f0, f1, f2, l0, l1, l2) /\
       pi_bits x = encode_bits (target_net f0 f1 f2 l0 l1 l2) max_bits).
Proof. exact pow_accept_sound. Qed.
Print Assumptions C02_accept_sound.

Theorem C02_accept_complete : forall x d f0 f1 f2 l0 l1 l2,
  bits_valid (pi_bits x) = true -> decode_bits (pi_bits x) = Ok d -> pi_hash x <= d ->
  pi_parent_known x = true -> pi_dup x = false ->
  pi_samples x = Some (f0, f1, f2, l0, l1, l2) ->
  pi_bits x = encode_bits (target_net f0 f1 f2 l0 l1 l2) max_bits ->
  pow_verdict false true x = Ok VOk.
Proof. exact pow_accept_complete. Qed.
Print Assumptions C02_accept_complete.

(* the code's target computation is the network's: median of three by three conditional swaps,
   signed span clamped to [72,288] blocks' worth, (2^256 - W)/W, capped at the limit *)
Theorem C02_target_is_consensus : forall f0 f1 f2 l0 l1 l2,
  target_code false f0 f1 f2 l0 l1 l2 = target_net f0 f1 f2 l0 l1 l2 /\
  target_net f0 f1 f2 l0 l1 l2 <= max_work.
Proof. intros. split; [apply target_code_eq_net|apply target_capped]. Qed.
Print Assumptions C02_target_is_consensus.

Theorem C02_median_is_median : forall b0 b1 b2,
  let m := median3_net b0 b1 b2 in
  (m = b0 \/ m = b1 \/ m = b2) /\
  (exists lo hi, (lo = b0 \/ lo = b1 \/ lo = b2) /\ (hi = b0 \/ hi = b1 \/ hi = b2) /\
                 fst lo <= fst m /\ fst m <= fst hi).
Proof. exact median_net_is_one_of. Qed.
Print Assumptions C02_median_is_median.

(* whatever 80 bytes a peer supplies the decision is a verdict, never a crash *)
Theorem C02_never_crashes : forall difficulty x s, pow_verdict false difficulty x <> Panic s.
Proof. exact pow_never_panics. Qed.
Print Assumptions C02_never_crashes.

(* exactly which bits crash the dependency's converter (all 2^32 values) *)
Theorem C02_decode_panics_iff : forall bits,
  ((exists s, decode_bits bits = Panic s) <-> bits_valid bits = false) /\
  (bits < 4294967296 ->
   (bits_valid bits = false <->
    (bits / 16777216 = 1 /\ (bits / 65536) mod 256 <> 0) \/
    (bits / 16777216 = 2 /\ (bits / 65536) mod 256 = 0))).
Proof. intros. split; [apply decode_panics_iff|apply bits_invalid_raw]. Qed.
Print Assumptions C02_decode_panics_iff.

Theorem C02_decode_normal : forall e m, 3 <= e -> e < 256 -> 65536 <= m -> m < 16777216 ->
  decode_bits (e * 16777216 + m) = Ok (m * 256 ^ (e - 3)).
Proof. exact decode_normal. Qed.
Print Assumptions C02_decode_normal.

Theorem C02_work_of_target : forall d, d < two256 -> work_of_target d = two256 / (d + 1).
Proof. exact work_of_target_div. Qed.
Print Assumptions C02_work_of_target.

(* every header of the real chain shipped with the repository (heights 556147..557985 through the
   BCH/BSV split and 725147..725835) is accepted by the model: finite sweep inside the kernel *)
Theorem C02_real_chain_accepted :
  fx_all_accepted 556000 fixture_556000 = true /\ fx_all_accepted 725000 fixture_725000 = true.
Proof. split; vm_compute; reflexivity. Qed.
Print Assumptions C02_real_chain_accepted.

(* the pinned commit violated the property in four ways, machine-checked on the as-found model *)
Theorem C02_target_as_found_refuted :
  (exists b0 b1 b2, median3_code true b0 b1 b2 <> median3_net b0 b1 b2) /\
  (exists f l, target_of_medians_code true f l <> target_of_medians_net f l /\ fst l < fst f) /\
  (exists f l, fst l = fst f + 144 * 600 /\
     encode_bits (target_of_medians_code true f l) max_bits = 470810622 /\
     encode_bits (target_of_medians_net f l) max_bits = 470810623).
Proof. exact target_as_found_refuted. Qed.
Print Assumptions C02_target_as_found_refuted.

Theorem C02_crash_as_found_refuted :
  exists x s, pow_verdict true true x = Panic s /\ pi_bits x = 16842752.
Proof. exact pow_as_found_panics. Qed.
Print Assumptions C02_crash_as_found_refuted.

(* non-vacuity: a real header with its real predecessors satisfies the hypotheses of
   C02_accept_sound *)
Example C02_hyps_satisfiable :
  fx_verdict 725000 fixture_725000 (cumworks 0 fixture_725000) 200 = Ok VOk.
Proof. vm_compute. reflexivity. Qed.
