(* C11 - Save then Load restores the same repository. *)
From BR Require Import Base.Prelude Base.Compact Headers.Tree Headers.TreeBasics Headers.TreeInv
     Headers.TreeSteps Headers.TreeStream Headers.TreeProps Headers.TreeExample Headers.TreeRestore
     Headers.TreeHorizon Headers.TreeTip.
Open Scope N_scope.

(* after Save;Load(depth) from any reachable state: the invariant holds again (so the tip is again
   a maximal-work header of what was restored and every later theorem applies), the invalid list is
   the same, the best chain is the same at every height with the same heights, and every restored
   header is one that was there before (same header, height, cumulative work) *)
Theorem C11_restore : forall s d pick, Inv s -> inv_file_ok s -> (0 <= d)%Z ->
  let s2 := fst (load (fst (save s)) d pick) in
  Inv s2 /\
  invalid s2 = invalid s /\
  chain_of (nodes s2) (tip s) = chain_of (nodes s) (tip s) /\
  (forall x, In x (chain_of (nodes s) (tip s)) -> height_of (nodes s2) x = height_of (nodes s) x) /\
  (forall n, In n (nodes s2) -> exists n0, In n0 (nodes s) /\ core n0 = core n).
Proof. exact save_load_restores. Qed.
Print Assumptions C11_restore.

(* generations: every history of Save / Load / Clean / submissions keeps the invariant and the
   agreement between the invalid list and its file *)
Theorem C11_generations : forall cfg ops, cfg_ok cfg -> forall s, Inv s -> inv_file_ok s ->
  ops_ok cfg s ops -> Inv (fst (run cfg s ops)) /\ inv_file_ok (fst (run cfg s ops)).
Proof. intros cfg ops Hc s HI Hf Ho. split; [apply run_inv; assumption|apply run_inv_file; assumption]. Qed.
Print Assumptions C11_generations.
(* side branches: a header off the best chain comes back - same header, height and work, held in
   memory - exactly when the root of its side tree lies above the load horizon (tip height -
   depth); a side tree rooted at or below the horizon is dropped whole; best-chain headers always
   come back *)
Theorem C11_side_trees : forall s d pick n, Inv s -> (0 <= d)%Z -> In n (nodes s) ->
  let s2 := fst (load (fst (save s)) d pick) in
  (is_anc (nodes s) (n_hash n) (tip s) = true \/ (load_horizon s d < side_root s (n_hash n))%Z ->
     exists n2, find (n_hash n) (nodes s2) = Some n2 /\ core n2 = core n /\
                (is_anc (nodes s) (n_hash n) (tip s) = false -> n_mem n2 = true)) /\
  (is_anc (nodes s) (n_hash n) (tip s) = false -> (side_root s (n_hash n) <= load_horizon s d)%Z ->
     find (n_hash n) (nodes s2) = None).
Proof. exact side_trees_restored. Qed.
Print Assumptions C11_side_trees.
(* the reported tip itself is the same whenever it is the only header of its cumulative work
   (K, the memory-horizon invariant, holds in every reachable state: TreeHorizon.run_K).  When
   several headers tie for the most work the repository may report any of them after a Load (the
   tip is re-chosen among the maximal-work headers restored, C01); which one the implementation
   reports is then an input of the model, checked for admissibility. *)
Theorem C11_same_tip : forall s d pick, Inv s -> inv_file_ok s -> K (nodes s) -> (0 <= d)%Z ->
  (forall a, In a (nodes s) -> n_work a = work_of (nodes s) (tip s) -> n_hash a = tip s) ->
  tip (fst (load (fst (save s)) d pick)) = tip s.
Proof. exact save_load_same_tip. Qed.
Print Assumptions C11_same_tip.
(* Not proved in Coq: C11_future (later submissions are treated alike); decided by the
   correspondence check (control run without Save/Load).  Byte-level codecs of the header files
   are compared with the implementation only through Load's behaviour. *)

Example C11_example : tip (fst (load (fst (save (final ex_cfg ex_g ex_ops))) 1 5)) = 5.
Proof. vm_compute. reflexivity. Qed.

(* non-vacuity of C11_same_tip: in the example's final state the tip 5 is the only header of its
   work; whatever the implementation "picks" (here 3, a side header), the model reports 5 *)
Example C11_same_tip_example :
  let s := final ex_cfg ex_g ex_ops in
  (forall a, In a (nodes s) -> n_work a = work_of (nodes s) (tip s) -> n_hash a = tip s) /\
  tip (fst (load (fst (save s)) 1 3)) = 5.
Proof.
  cbv zeta. split; [|vm_compute; reflexivity].
  intros a Ha. vm_compute in Ha. vm_compute.
  repeat (destruct Ha as [<-|Ha]; [vm_compute; intros Hq; try reflexivity; discriminate Hq|]). destruct Ha.
Qed.
