(* C06 - Each transaction seen reaches the processor exactly once; no duplicate requests.
   Model: Tx/TxManager.v.  Every interleaving of calls from any number of peers is an operation
   list (each call is atomic on the entry it touches); the clock is an input. *)
From BR Require Import Base.Prelude Tx.TxManager Tx.TxProofs.
Open Scope N_scope.

(* however many peers deliver a transaction, in whatever order and however interleaved with
   announcements and polls, it is handed to the processor exactly once (never if never delivered) *)
Theorem C06_processed_once : forall t ops,
  count_tx t (map fst (processed ops (snd (run [] ops)))) =
  if existsb (is_delivery t) ops then 1%nat else O.
Proof. exact processed_once. Qed.
Print Assumptions C06_processed_once.

(* from any state: forwarded once unless it was already received *)
Theorem C06_forwarded_once : forall t ops s,
  forwards t ops (snd (run s ops)) =
  if received t s then O else if existsb (is_delivery t) ops then 1%nat else O.
Proof. exact forwarded_once. Qed.
Print Assumptions C06_forwarded_once.

(* what is saved is what the processor called relevant (the flag of that delivery) *)
Theorem C06_saved_iff_relevant : forall ops outs t rel,
  In (t, rel) (processed ops outs) -> exists n now, In (OAddTx n t rel now) ops.
Proof. exact processed_relevant. Qed.
Print Assumptions C06_saved_iff_relevant.

(* a request (AddTxID answering true, or a poll returning the txid) is only granted when the
   previous request is at least the timeout old, and it stamps the request time; between grants
   the request time does not move: so while a request is outstanding nobody else is asked *)
Theorem C06_single_grant : forall t s o, wf s -> grants t o (snd (step s o)) = true ->
  (match lookup t s with
   | Some e => e_received e = false /\ (op_timeout o <= op_now o - e_last e)%Z
   | None => True
   end) /\
  last_req t (fst (step s o)) = Some (op_now o).
Proof. exact grant_needs_timeout. Qed.
Print Assumptions C06_single_grant.

Theorem C06_request_time_stable : forall t s o e, lookup t s = Some e ->
  grants t o (snd (step s o)) = false -> last_req t (fst (step s o)) = Some (e_last e).
Proof. exact last_request_stable. Qed.
Print Assumptions C06_request_time_stable.

(* an announcement during an outstanding request is remembered ... *)
Theorem C06_announce_recorded : forall n t now T s e, lookup t s = Some e -> e_received e = false ->
  expired now T e = false ->
  step s (OAddTxID n t now T) =
    (update t (mkEntry (e_last e) false (append_id n (e_nodes e))) s, RGrant false) /\
  memN n (append_id n (e_nodes e)) = true.
Proof. exact announce_recorded. Qed.
Print Assumptions C06_announce_recorded.

(* ... and after the timeout that node's poll gets the transaction *)
Theorem C06_retry : forall n t now T s e, lookup t s = Some e -> e_received e = false ->
  memN n (e_nodes e) = true -> expired now T e = true ->
  In t (eligible n now T s) /\
  forall max chosen ok granted,
    snd (step s (OGet n now T max chosen)) = RRequests ok granted -> ok = true ->
    N.of_nat (length chosen) < max -> In t granted.
Proof. exact retry_after_timeout. Qed.
Print Assumptions C06_retry.

(* never requested again after delivery *)
Theorem C06_no_request_after_delivery : forall t s o, wf s -> received t s = true ->
  grants t o (snd (step s o)) = false.
Proof. exact no_grant_after_delivery. Qed.
Print Assumptions C06_no_request_after_delivery.

(* a poll touches only the txids it returns; what it did not return (cut short by max) stays
   requestable from that peer *)
Theorem C06_poll_touches_only_granted : forall n now T max chosen s t ok granted,
  snd (step s (OGet n now T max chosen)) = RRequests ok granted -> ~ In t granted ->
  lookup t (fst (step s (OGet n now T max chosen))) = lookup t s.
Proof. exact poll_touches_only_granted. Qed.
Print Assumptions C06_poll_touches_only_granted.

Theorem C06_unreturned_stays_eligible : forall n now T max chosen s t ok granted, wf s ->
  snd (step s (OGet n now T max chosen)) = RRequests ok granted ->
  In t (eligible n now T s) -> ~ In t granted ->
  In t (eligible n now T (fst (step s (OGet n now T max chosen)))).
Proof. exact unreturned_stays_eligible. Qed.
Print Assumptions C06_unreturned_stays_eligible.

(* the invariants hold in every reachable state; received is permanent *)
Theorem C06_reachable : forall ops, wf (fst (run [] ops)).
Proof. intros ops. apply wf_run. constructor. Qed.
Print Assumptions C06_reachable.

Theorem C06_received_permanent : forall t s o,
  received t (fst (step s o)) = received t s || is_delivery t o.
Proof. exact step_received. Qed.
Print Assumptions C06_received_permanent.

(* non-vacuity: two peers announce, the first request times out, the second peer's poll gets it,
   both deliver *)
Example C06_example :
  snd (run [] [OAddTxID 1 7 0 10; OAddTxID 2 7 3 10; OGet 2 5 10 100 []; OGet 2 12 10 100 [7];
               OAddTx 2 7 true 13; OAddTx 1 7 true 14; OAddTxID 3 7 50 10]) =
  [RGrant true; RGrant false; RRequests true []; RRequests true [7];
   RForward true; RForward false; RGrant false].
Proof. vm_compute. reflexivity. Qed.
