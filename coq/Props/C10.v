(* C10 - Clean (consolidate, save, prune) never changes what the repository reports. *)
From BR Require Import Base.Prelude Base.Compact Headers.Tree Headers.TreeBasics Headers.TreeInv
     Headers.TreeSteps Headers.TreeStream Headers.TreeProps Headers.TreeExample.
Open Scope N_scope.

(* at any state, for any prune depth: tip, tip height and work, the chain at every height, the
   invalid list, the height / best-chain flag / known-ness of every hash are unchanged *)
Theorem C10_identity : forall s d,
  let s' := fst (clean s d) in
  tip s' = tip s /\ invalid s' = invalid s /\
  tip_height s' = tip_height s /\
  work_of (nodes s') (tip s') = work_of (nodes s) (tip s) /\
  chain_of (nodes s') (tip s') = chain_of (nodes s) (tip s) /\
  (forall x, lookup_core (lookup_of s' x) = lookup_core (lookup_of s x)) /\
  (forall x, find x (nodes s') = None <-> find x (nodes s) = None).
Proof. exact clean_observables. Qed.
Print Assumptions C10_identity.

(* best-chain history dropped from memory remains retrievable by hash (and by height: C10_identity) *)
Theorem C10_history_kept : forall s d x, Inv s ->
  lk_get_ok (lookup_of s x) = true -> lk_get_ok (lookup_of (fst (clean s d)) x) = true.
Proof. exact clean_keeps_history. Qed.
Print Assumptions C10_history_kept.

(* any number of times: the invariant (and with it C10_identity at the next Clean) is preserved;
   the automatic clean inside a submission is the same function (Tree.submit calls clean_nodes) *)
Theorem C10_preserves_invariant : forall s d, Inv s -> (0 <= d)%Z -> Inv (fst (clean s d)).
Proof. exact clean_inv. Qed.
Print Assumptions C10_preserves_invariant.
(* C10_future (verdicts of later submissions are the same with and without the Clean) is not
   proved in Coq; it is decided by the correspondence check with a clean-free control run. *)

Example C10_example : tip (fst (clean (final ex_cfg ex_g ex_ops) 0)) = 5 /\
  exists n, find 1 (nodes (fst (clean (final ex_cfg ex_g ex_ops) 0))) = Some n /\ n_mem n = false.
Proof. split; [vm_compute; reflexivity|eexists; split; vm_compute; reflexivity]. Qed.
