(* C10 - Clean (consolidate, save, prune) never changes what the repository reports. *)
From BR Require Import Base.Prelude Base.Compact Headers.Tree Headers.TreeBasics Headers.TreeInv
     Headers.TreeSteps Headers.TreeStream Headers.TreeProps Headers.TreeExample Headers.TreeHorizon Headers.TreeRestore Headers.TreeFinal Headers.TreeFuture.
Open Scope N_scope.

(* at any state, for any prune depth: tip, tip height and work, the chain at every height, the
   invalid list, the height / best-chain flag / known-ness of every hash are unchanged *)
Theorem C10_identity : forall s d,
  let s' := fst (clean s d) in
  tip s' = tip s /\ invalid s' = invalid s /\
  tip_height s' = tip_height s /\
  work_of (nodes s') (tip s') = work_of (nodes s) (tip s) /\
  chain_of (nodes s') (tip s') = chain_of (nodes s) (tip s) /\
  (forall x, lookup_core (lookup_of s' x) = lookup_core (lookup_of s x)) /\
  (forall x, find x (nodes s') = None <-> find x (nodes s) = None).
Proof. exact clean_observables. Qed.
Print Assumptions C10_identity.

(* best-chain history dropped from memory remains retrievable by hash (and by height: C10_identity) *)
Theorem C10_history_kept : forall s d x, Inv s ->
  lk_get_ok (lookup_of s x) = true -> lk_get_ok (lookup_of (fst (clean s d)) x) = true.
Proof. exact clean_keeps_history. Qed.
Print Assumptions C10_history_kept.

(* any number of times: the invariant (and with it C10_identity at the next Clean) is preserved;
   the automatic clean inside a submission is the same function (Tree.submit calls clean_nodes) *)
Theorem C10_preserves_invariant : forall s d, Inv s -> (0 <= d)%Z -> Inv (fst (clean s d)).
Proof. exact clean_inv. Qed.
Print Assumptions C10_preserves_invariant.
(* side branches can still be extended and can still overtake afterwards: Clean takes only
   best-chain headers out of memory - every header off the best chain that was in memory still
   is (so a child of it is still accepted, and takes the tip over when it carries more work:
   C01_max_work) - and it never takes the parent of an in-memory side header out of memory (so
   new forks can still start where forks already start) *)
Theorem C10_side_branches_stay : forall s d n, Inv s -> In n (nodes s) -> n_mem n = true ->
  is_anc (nodes s) (n_hash n) (tip s) = false ->
  exists n', find (n_hash n) (nodes (fst (clean s d))) = Some n' /\ n_mem n' = true /\ core n' = core n.
Proof. exact clean_keeps_side_trees. Qed.
Print Assumptions C10_side_branches_stay.

Theorem C10_fork_points_stay : forall s d c q, Inv s -> In c (nodes s) -> n_mem c = true ->
  is_anc (nodes s) (n_hash c) (tip s) = false -> find (n_prev c) (nodes s) = Some q -> n_mem q = true ->
  exists q', find (n_hash q) (nodes (fst (clean s d))) = Some q' /\ n_mem q' = true /\ core q' = core q.
Proof. exact clean_keeps_fork_points. Qed.
Print Assumptions C10_fork_points_stay.
(* history dropped from memory is final: whatever is submitted, marked, un-marked, cleaned or saved
   afterwards (any history without a Load), a header that has left memory stays in the repository,
   stays out of memory and stays on the best chain - a reorganisation never reaches below the
   memory window, so the header files that hold that history never have to be revised *)
Theorem C10_pruned_history_final : forall cfg ops, cfg_ok cfg -> forall s, Inv s -> K (nodes s) ->
  ops_ok cfg s ops -> all_not_load ops -> forall a, In a (nodes s) -> n_mem a = false ->
  let s' := fst (run cfg s ops) in
  exists a', In a' (nodes s') /\ core a' = core a /\ n_mem a' = false /\
             is_anc (nodes s') (n_hash a) (tip s') = true.
Proof. exact pruned_history_final. Qed.
Print Assumptions C10_pruned_history_final.
(* (Inv and K hold in every reachable state: TreeSteps.run_inv, TreeHorizon.run_K.) *)

(* the future: a header that extends a side branch (its parent is held in memory, off the best
   chain) and a header that extends the tip receive the same verdict and cause the same
   announcement whether or not the repository was cleaned first - in particular a side branch
   extended past the tip's work takes over in both (C01_max_work decides the new tip) *)
Theorem C10_future_side_branch : forall cfg s d h pick p, cfg_ok cfg -> Inv s -> K (nodes s) -> (0 <= d)%Z ->
  op_ok s (OSubmit h pick) ->
  find_mem (nodes s) (h_prev h) = Some p -> is_anc (nodes s) (h_prev h) (tip s) = false ->
  snd (submit cfg (fst (clean s d)) h pick) = snd (submit cfg s h pick).
Proof. exact clean_then_extend_side. Qed.
Print Assumptions C10_future_side_branch.

Theorem C10_future_tip : forall cfg s d h pick, cfg_ok cfg -> Inv s -> K (nodes s) -> (0 <= d)%Z ->
  op_ok s (OSubmit h pick) -> h_prev h = tip s ->
  snd (submit cfg (fst (clean s d)) h pick) = snd (submit cfg s h pick).
Proof. exact clean_then_extend_tip. Qed.
Print Assumptions C10_future_tip.
(* every submission that attaches within the fork-depth limit - to a side branch, to the tip, or
   as a NEW fork at a best-chain header: with the prune depth at least the fork-depth limit (10000
   against 144 in the implementation) the parent is still held in memory after the Clean and the
   verdict and the announcement are the same with and without it *)
Theorem C10_future_within_limit : forall cfg s d h pick p, cfg_ok cfg -> Inv s -> K (nodes s) ->
  (c_maxdepth cfg <= d)%Z -> (0 <= d)%Z ->
  op_ok s (OSubmit h pick) ->
  find_mem (nodes s) (h_prev h) = Some p -> (tip_height s - n_height p <= c_maxdepth cfg)%Z ->
  snd (submit cfg (fst (clean s d)) h pick) = snd (submit cfg s h pick).
Proof. exact clean_then_attach_within. Qed.
Print Assumptions C10_future_within_limit.
(* Beyond the limit the statement is false of the model and of the code, and the property does not
   claim it: a new fork at the last header of a branch that lost its continuation to an
   invalidation continues that branch before the Clean and is a too-deep new branch after it.
   Not proved: the same for whole sequences of later submissions; decided by the correspondence
   check with a clean-free control run. *)

(* non-vacuity: in the example's final state header 4 is a best-chain header below the tip, held
   in memory, one below the tip; a new fork 6 at it is accepted after a Clean as before it *)
Example C10_future_within_example :
  let s := final ex_cfg ex_g ex_ops in
  let h := mkHdr 6 4 486604799 1231008306 in
  (exists p, find_mem (nodes s) (h_prev h) = Some p /\ (tip_height s - n_height p <= c_maxdepth ex_cfg)%Z) /\
  (is_anc (nodes s) 4 (tip s) = true) /\ (tip s <> 4) /\
  (snd (submit ex_cfg (fst (clean s 5)) h 5) = RSubmit VOk nil) /\
  (snd (submit ex_cfg s h 5) = RSubmit VOk nil).
Proof.
  cbv zeta. split; [eexists; split; [vm_compute; reflexivity|vm_compute; discriminate]|].
  split; [vm_compute; reflexivity|]. split; [vm_compute; discriminate|].
  split; vm_compute; reflexivity.
Qed.

Example C10_example : tip (fst (clean (final ex_cfg ex_g ex_ops) 0)) = 5 /\
  exists n, find 1 (nodes (fst (clean (final ex_cfg ex_g ex_ops) 0))) = Some n /\ n_mem n = false.
Proof. split; [vm_compute; reflexivity|eexists; split; vm_compute; reflexivity]. Qed.
