(* C13 - A peer can do nothing before it is verified.
   Net/NodeFSM.v: the session state machine of one connection - the read loop handling one message
   at a time and the handshake thread consuming its channel; a history is any interleaving of the
   two ([ARecv m] / [AHs]), over every message class the reader distinguishes (headers, addr, inv,
   tx, block, extended and unknown commands, repeated and out-of-order version/verack).
   "Reaches the repository / tx manager / address book" are the guarded effects; "selected to
   serve requests" is the ready flag (NodeManager.nextNode skips nodes that are not ready). *)
From Coq Require Import String.
From BR Require Import Base.Prelude Gen.Consts Gen.Handlers Net.NodeFSM Net.NodeProofs Net.Select Net.SelectProofs.
Open Scope N_scope.

(* for every interleaving from a fresh connection, a step taken while the peer is not verified
   produces no ProcessHeader / address-book / tx-manager / block-handler effect *)
Theorem C13_nothing_before_verified : forall verify_only has_txm acts,
  let '(_, ess) := nrun (ninit verify_only has_txm) acts in
  forall k es sk, nth_error ess k = Some es ->
    sk = fst (nrun (ninit verify_only has_txm) (firstn k acts)) ->
    n_verified sk = false -> existsb guarded_effect es = false.
Proof. intros v t acts. apply (no_effect_before_verified acts (ninit v t)). cbn. discriminate. Qed.
Print Assumptions C13_nothing_before_verified.

(* never selectable before verified: ready implies verified in every reachable state *)
Theorem C13_ready_implies_verified : forall verify_only has_txm acts,
  let s := fst (nrun (ninit verify_only has_txm) acts) in n_ready s = true -> n_verified s = true.
Proof.
  intros v t acts. cbn zeta.
  assert (G : forall acts s, (n_ready s = true -> n_verified s = true) ->
            n_ready (fst (nrun s acts)) = true -> n_verified (fst (nrun s acts)) = true).
  { clear. induction acts as [|a acts IH]; intros s H; cbn [nrun]; [exact H|].
    destruct (nstep s a) as [s1 es] eqn:E. pose proof (ready_verified_step s a H) as H1. rewrite E in H1.
    specialize (IH s1 H1). destruct (nrun s1 acts). exact IH. }
  apply G. cbn. discriminate.
Qed.
Print Assumptions C13_ready_implies_verified.

(* the only way to become ready/verified: a non-empty headers reply starting with the BSV split
   header, after the version/verack handshake completed *)
Theorem C13_verified_only_by_proof : forall s a, n_ready s = false -> n_ready (fst (nstep s a)) = true ->
  exists count all_ok, a = ARecv (MHeaders count HBsv all_ok) /\ n_hs_complete s = true /\ count <> 0 /\
                       n_stopped s = false /\ n_verified (fst (nstep s a)) = true.
Proof. exact ready_only_by_bsv_reply. Qed.
Print Assumptions C13_verified_only_by_proof.

(* a verify-only connection disconnects in the step that verifies it, with no guarded effect *)
Theorem C13_verify_only_disconnects : forall s count all_ok, n_stopped s = false -> n_ready s = false ->
  n_hs_complete s = true -> count <> 0 -> n_verify_only s = true ->
  let '(s1, es) := recv s (MHeaders count HBsv all_ok) in
  n_verified s1 = true /\ n_stopped s1 = true /\ In EStop es /\ existsb guarded_effect es = false.
Proof. exact verify_only_disconnects. Qed.
Print Assumptions C13_verify_only_disconnects.

(* any other answer to the verification request closes the connection unverified *)
Theorem C13_wrong_chain_disconnects : forall s count first all_ok, n_stopped s = false -> n_ready s = false ->
  n_hs_complete s = true -> (count = 0 \/ first <> HBsv) ->
  let '(s1, es) := recv s (MHeaders count first all_ok) in
  n_verified s1 = n_verified s /\ n_ready s1 = false /\ n_stopped s1 = true /\ In EStop es.
Proof. exact foreign_reply_disconnects. Qed.
Print Assumptions C13_wrong_chain_disconnects.

(* never selected to serve header, transaction or block requests: the manager's choice
   (NodeManager.nextNode, Net/Select.v) falls only on a node of its list that is ready, not
   stopped, not busy and - for blocks - has the block; with C13_ready_implies_verified a peer that
   is not verified is never chosen *)
Theorem C13_selected_is_ready : forall use_has nodes off n nodes' off',
  next_node use_has nodes off = (Some n, nodes', off') -> nd_ready n = true /\ nd_stopped n = false.
Proof. exact not_ready_never_chosen. Qed.
Print Assumptions C13_selected_is_ready.

Theorem C13_selected_is_eligible : forall use_has nodes off n nodes' off',
  next_node use_has nodes off = (Some n, nodes', off') -> In n nodes /\ eligible use_has n = true.
Proof. exact next_node_sound. Qed.
Print Assumptions C13_selected_is_eligible.

(* the tie between the model's "only when ready" and the source: Gen/Handlers.v is regenerated on
   every run from every assignment to a node's handler table in /repo.  The handlers through
   which peer data reaches the header repository, the address book and the tx manager are
   registered in accept() and nowhere else; the constructor registers exactly the handshake /
   verification set; the block handler is registered by RequestBlock only (a request is made only
   to nodes the manager selected, i.e. ready ones); the remaining entries install caller-supplied
   handlers (SetBlockHandler / SetTxHandler, not used by the reader itself). *)
Definition guarded_handlers : list string :=
  ["handleHeadersTrack"; "handleAddress"; "handlePong"; "handleGetAddresses"; "handleInventory"; "handleTx"]%string.
Definition memS (x : string) (l : list string) : bool := existsb (String.eqb x) l.

Theorem C13_handler_table :
  forallb (fun r => let '(fn, cmd, h) := r in
             (negb (memS h guarded_handlers) || String.eqb fn "accept") &&
             (negb (String.eqb h "handleBlock") || String.eqb fn "RequestBlock")) handler_registrations = true /\
  map (fun r => snd (fst r)) (filter (fun r => String.eqb (fst (fst r)) "NewBitcoinNode") handler_registrations) =
    ["CmdExtended"; "CmdHeaders"; "CmdPing"; "CmdProtoconf"; "CmdReject"; "CmdVerAck"; "CmdVersion"]%string /\
  map (fun r => fst (fst r)) (filter (fun r => negb (memS (fst (fst r)) ["NewBitcoinNode"; "accept"; "RequestBlock"]%string)) handler_registrations) =
    ["SetBlockHandler"; "SetTxHandler"]%string.
Proof. vm_compute. repeat split; reflexivity. Qed.
Print Assumptions C13_handler_table.

(* non-vacuity: a session that verifies, and one in which noise arrives first and nothing happens *)
Example C13_example :
  let good := [ARecv MVersion; AHs; ARecv MVerack; AHs; ARecv (MHeaders 3 HBsv false); ARecv (MAddr 2)] in
  let early := [ARecv (MAddr 5); ARecv (MInv 3); ARecv (MTx true); ARecv MVerack; ARecv MVersion; AHs; AHs;
                ARecv (MBlock true false); ARecv (MHeaders 1 HForeign false)] in
  n_verified (fst (nrun (ninit false true) good)) = true /\
  snd (nrun (ninit false true) good) = [[]; [ESend 1]; []; [ESend 2; ESend 3];
        [ERepoVerify; ESend 5; ESend 6; ESend 3; ESend 7]; [EPeersAdd; EPeersAdd]] /\
  n_verified (fst (nrun (ninit false true) early)) = false /\
  n_stopped (fst (nrun (ninit false true) early)) = true /\
  n_stopped (fst (nrun (ninit true true) good)) = true.
Proof. vm_compute. repeat split; reflexivity. Qed.
Print Assumptions C13_example.
