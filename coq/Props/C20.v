(* C20 — The peer address book is duplicate-free, score-consistent and survives save/load.
   Property theorems only: each is closed by [exact] of a lemma proved in
   Peers/PeersProofs.v, followed by Print Assumptions.  Model: Peers/Peers.v with
   [guard = true] (the code after the "fix:" commit for D14); the run-time tie to
   /repo/peers.go is the correspondence check (harness/cmd/peersim). *)
From BR Require Import Base.Prelude Peers.Peers Peers.PeersProofs.
Open Scope N_scope.

(* Each address is held once in every reachable state of every history of
   Add/UpdateScore/UpdateTime/Get/Count/Save/Load/Clear and file truncations. *)
Theorem C20_nodup : forall g ops, Forall wf_op ops -> bounded g init ops ->
  NoDup (map p_addr (plist (final g ops))).
Proof. exact nodup_reachable. Qed.
Print Assumptions C20_nodup.

(* the list and the lookup describe the same set *)
Theorem C20_lookup_agrees : forall l a,
  (has_addr a l = true <-> exists p, find_last a l = Some p) /\
  (forall p, find_last a l = Some p -> In p l /\ p_addr p = a) /\
  (NoDup (map p_addr l) -> forall p q, find_last a l = Some p -> In q l -> p_addr q = a -> q = p).
Proof. exact lookup_agrees. Qed.
Print Assumptions C20_lookup_agrees.

(* a score query returns exactly the peers in range; -1 = unbounded above *)
Theorem C20_get : forall lo hi l p,
  In p (get lo hi l) <->
  In p l /\ (lo <= p_score p)%Z /\ (hi = (-1)%Z \/ (p_score p <= hi)%Z).
Proof. exact get_exact. Qed.
Print Assumptions C20_get.

(* a peer's score is the int32 sum of the deltas applied to it since it was added *)
Theorem C20_score_sum : forall g a ops,
  forallb keeps_book ops = true ->
  score_of a (plist (final g ops)) = option_map wrap32 (ssum a ops None).
Proof. intros g a ops H. exact (score_is_sum g a ops init None H eq_refl). Qed.
Print Assumptions C20_score_sum.

(* Save then Load reproduces address, score and last-seen time of every peer *)
Theorem C20_roundtrip : forall g l, wf_list l -> load_bytes g (save_bytes l) = Ok l.
Proof. exact load_save. Qed.
Print Assumptions C20_roundtrip.

(* a file cut short at any point keeps every peer fully written before the cut, in order *)
Theorem C20_prefix : forall g l k, wf_list l ->
  (5 <= k -> load_bytes g (firstn k (save_bytes l)) = Ok (firstn (complete (k - 5) l) l))%nat /\
  (k < 5 -> exists e, load_bytes g (firstn k (save_bytes l)) = Err e)%nat.
Proof. intros g l k Hw. split; [apply load_prefix; exact Hw | apply load_short]. Qed.
Print Assumptions C20_prefix.

(* loading any stored bytes never crashes (repaired code) *)
Theorem C20_load_total : forall bs site, load_bytes true bs <> Panic site.
Proof. exact load_total. Qed.
Print Assumptions C20_load_total.

(* ... and the code as found at the pinned commit did (D14) *)
Theorem C20_load_as_found_refuted :
  (exists bs site, load_bytes false bs = Panic site /\ length bs = 5%nat) /\
  (exists bs site, load_bytes false bs = Panic site /\ hd 1 (tl bs) = 1).
Proof. exact load_as_found_refuted. Qed.
Print Assumptions C20_load_as_found_refuted.

(* Load replaces the book by what is stored: its result does not depend on what was held before
   (no address of the previous book survives a Load in the index or in the list) *)
Theorem C20_load_replaces : forall g l1 l2 st0,
  step g (mkSt l1 st0) OLoad = step g (mkSt l2 st0) OLoad.
Proof. exact load_replaces. Qed.
Print Assumptions C20_load_replaces.

Theorem C20_load_is_stored : forall g l0 bs l,
  load_bytes g bs = Ok l -> plist (fst (step g (mkSt l0 (Some bs)) OLoad)) = l.
Proof. exact load_is_stored. Qed.
Print Assumptions C20_load_is_stored.

(* Non-vacuity: a concrete non-trivial history meets the hypotheses, and the records of a
   concrete non-trivial book meet [wf_list]. *)
Definition ex_ops : list op :=
  [OAdd [49;50]; OAdd []; OAdd [49;50]; OScore [49;50] (-7) 1700000000; OSave;
   OScore [] 2147483647 5; OScore [] 1 6; OCut 20; OLoad; OGet 0 (-1); OClear; OLoad].
Example C20_hyps_satisfiable :
  Forall wf_op ex_ops /\ bounded true init ex_ops /\
  plist (fst (run true init (firstn 7 ex_ops))) =
    [mkPeer [49;50] (-7) 1700000000; mkPeer [] (-2147483648) 6].
Proof.
  split; [|split].
  - repeat constructor.
  - cbn. unfold two31. repeat split; lia.
  - vm_compute. reflexivity.
Qed.
Example C20_wf_list_satisfiable :
  wf_list [mkPeer [49;50] (-7) 1700000000; mkPeer [] (-2147483648) 6].
Proof.
  split; [repeat constructor; cbn; unfold two31; lia | cbn; unfold two31; lia].
Qed.
