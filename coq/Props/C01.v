(* C01 - The reported chain is the most-proof-of-work chain of accepted headers.
   Model: Headers/Tree.v (reference tree of the header repository, with the memory window and
   the equal-work choice [pick] as explicit inputs).  All histories of Submit / Mark / Unmark /
   Clean(depth) / Save / Load(depth) / Observe, every arrival order (the op list is arbitrary),
   every equal-work choice. *)
From BR Require Import Base.Prelude Base.Compact Headers.Tree Headers.TreeBasics Headers.TreeInv
     Headers.TreeSteps Headers.TreeStream Headers.TreeProps Headers.TreeExample Headers.TreeHorizon.
Open Scope N_scope.

(* The reported tip carries maximal cumulative work among ALL accepted headers the repository
   holds - in memory or dropped from memory by Clean / Load - in every reachable state of every
   history (submissions in any order, marks, un-marks, Clean, Save, Load, equal-work choices).
   Proof: headers out of memory lie strictly below every header in memory, one per height
   (Headers/TreeHorizon.v), hence are ancestors of the tip. *)
Theorem C01_max_work : forall cfg g ops,
  cfg_ok cfg -> genesis_ok g -> ops_ok cfg (init g) ops ->
  let s := fst (run cfg (init g) ops) in
  forall a, In a (nodes s) -> n_work a <= work_of (nodes s) (tip s).
Proof. exact max_work_every_history. Qed.
Print Assumptions C01_max_work.

(* ... and it is a header held in memory, strictly above every header of its own ancestry *)
Theorem C01_tip_in_memory : forall cfg g ops,
  cfg_ok cfg -> genesis_ok g -> ops_ok cfg (init g) ops ->
  let s := final cfg g ops in
  exists tn, find (tip s) (nodes s) = Some tn /\ n_mem tn = true /\
    (forall n, In n (nodes s) -> n_mem n = true -> n_work n <= n_work tn) /\
    (forall a, In a (ancestors (nodes s) (tip s)) -> n_work a <= n_work tn).
Proof. exact tip_max_work. Qed.
Print Assumptions C01_tip_in_memory.

(* The reported chain is exactly the tip's ancestry: linked by previous-hash, heights 0..tip. *)
Theorem C01_linked : forall cfg g ops,
  cfg_ok cfg -> genesis_ok g -> ops_ok cfg (init g) ops ->
  let s := final cfg g ops in
  exists tn rest, ancestors (nodes s) (tip s) = tn :: rest /\ n_hash tn = tip s /\
    linked_down (tn :: rest) /\
    Z.of_nat (length (tn :: rest)) = (tip_height s + 1)%Z /\
    chain_of (nodes s) (tip s) = rev (map n_hash (tn :: rest)).
Proof. exact chain_linked. Qed.
Print Assumptions C01_linked.

(* A submission that is not accepted changes nothing (so it cannot leave a heavier accepted
   chain unreported), and an accepted one re-selects a maximal-work tip (C01_max_work). *)
Theorem C01_error_safe : forall cfg s h pick s' v ann,
  submit cfg s h pick = (s', RSubmit v ann) -> v <> VOk -> s' = s /\ ann = [].
Proof. exact refusal_changes_nothing. Qed.
Print Assumptions C01_error_safe.

(* the invariant behind both, for every reachable state *)
Theorem C01_invariant : forall cfg ops, cfg_ok cfg -> forall s, Inv s -> ops_ok cfg s ops ->
  Inv (fst (run cfg s ops)).
Proof. exact run_inv. Qed.
Print Assumptions C01_invariant.

Example C01_hyps_satisfiable : cfg_ok ex_cfg /\ genesis_ok ex_g /\ ops_ok ex_cfg (init ex_g) ex_ops.
Proof. exact ex_hyps. Qed.
