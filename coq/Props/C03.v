(* C03 - Only the BSV chain is followed: foreign-chain headers and peers are refused.
   Header-repository part: Headers/Splits.v over the split table regenerated from
   /repo/headers/splits.go.  Peer part: Net/NodeFSM (verification reply handling). *)
From BR Require Import Base.Prelude Gen.Consts Headers.Tree Headers.Splits Headers.SplitsProofs.
From BR Require Import Net.NodeFSM Net.NodeProofs.
Open Scope N_scope.

Theorem C03_consts_are_consensus :
  splits = [ (0x0000000000000000011865af4122fe3b144e2cbeea86142e8ff2fb4107352d43,
              0x00000000000000000019f112ec0a9982926f1258cdcc558dd7c3b7e5dc7fa148, 478559%Z);
             (0x00000000000000000102d94fde9bd0807a2cc7582fe85dd6349b73ce4e8d9322,
              0x0000000000000000004626ff6e3b936941d341c5932ece4357eeccac44e6d56c, 556767%Z) ] /\
  required_before = 0x00000000000000000102d94fde9bd0807a2cc7582fe85dd6349b73ce4e8d9322 /\
  required_after = 0x000000000000000001d956714215d96ffc00e0afda4cd0a96c96f8d802b1662b /\
  required_height = 556767%Z.
Proof. exact splits_are_consensus. Qed.
Print Assumptions C03_consts_are_consensus.

(* on any branch (the height is that of the header's own parent + 1) nothing but the BSV split
   header passes the chain-identity check at height 556767 *)
Theorem C03_only_bsv_at_split : forall x, si_protect x = true -> si_parent_known x = true ->
  si_dup x = false -> si_height x = required_height -> split_verdict x = None ->
  si_hash x = required_after.
Proof. exact only_bsv_at_split. Qed.
Print Assumptions C03_only_bsv_at_split.

Theorem C03_foreign_refused : forall x s, In s splits -> si_hash x = split_after s -> si_dup x = false ->
  (si_parent_known x = false \/ (si_protect x = true /\ si_height x = split_height s)) ->
  split_verdict x = Some VWrongChain.
Proof. exact foreign_refused. Qed.
Print Assumptions C03_foreign_refused.

Theorem C03_bsv_accepted : forall x, si_hash x = required_after -> si_parent_known x = true ->
  si_dup x = false -> si_height x = required_height -> split_verdict x = None.
Proof. exact bsv_accepted. Qed.
Print Assumptions C03_bsv_accepted.

Theorem C03_verify_only_bsv : forall hash prev genesis,
  verify_header hash prev genesis = VerAccept <-> hash = required_after.
Proof. exact verify_only_bsv. Qed.
Print Assumptions C03_verify_only_bsv.

Theorem C03_verify_foreign : forall hash prev genesis s, In s splits -> hash = split_after s ->
  verify_header hash prev genesis = VerWrongChain.
Proof. exact verify_foreign. Qed.
Print Assumptions C03_verify_foreign.

(* the verification request names each fork point once (C19 for the verify-only locator) *)
Theorem C03_verify_only_locator :
  verify_only_locator = [0x00000000000000000102d94fde9bd0807a2cc7582fe85dd6349b73ce4e8d9322;
                         0x0000000000000000011865af4122fe3b144e2cbeea86142e8ff2fb4107352d43] /\
  NoDup verify_only_locator.
Proof. exact verify_only_locator_value. Qed.
Print Assumptions C03_verify_only_locator.

(* the peer clause, on the session model (shared with C13): a connection becomes ready / verified
   only by a headers reply, after the completed handshake, whose first header is the BSV split
   header (VerifyHeader accepts: C03_verify_only_bsv); any other reply - foreign, unknown, already
   known, directly after genesis, empty - leaves it unverified and stops the connection *)
Theorem C03_peer_verified_only_by_bsv : forall s a, n_ready s = false -> n_ready (fst (nstep s a)) = true ->
  exists count all_ok, a = ARecv (MHeaders count HBsv all_ok) /\ n_hs_complete s = true /\ count <> 0 /\
                       n_stopped s = false /\ n_verified (fst (nstep s a)) = true.
Proof. exact ready_only_by_bsv_reply. Qed.
Print Assumptions C03_peer_verified_only_by_bsv.

Theorem C03_other_reply_disconnects : forall s count first all_ok, n_stopped s = false -> n_ready s = false ->
  n_hs_complete s = true -> (count = 0 \/ first <> HBsv) ->
  let '(s1, es) := recv s (MHeaders count first all_ok) in
  n_verified s1 = n_verified s /\ n_ready s1 = false /\ n_stopped s1 = true /\ In EStop es.
Proof. exact foreign_reply_disconnects. Qed.
Print Assumptions C03_other_reply_disconnects.

Example C03_example :
  split_verdict (mkSplitIn 12345 77 556767 true false true 1) = Some VWrongChain /\
  split_verdict (mkSplitIn required_after required_before 556767 true false true 1) = None /\
  split_verdict (mkSplitIn 12345 77 556767 true false false 1) = None.
Proof. repeat split; vm_compute; reflexivity. Qed.
