(* C15 - No bytes from a peer can crash the process.
   What is proved: the payload reader (messages.go readMessage, repaired: D17) never panics and
   allocates in proportion to what arrives, whatever length the header declares; the count-driven
   handlers allocate per item received, whatever count is declared; the session state
   machine is total (every message class in every state is a transition, possibly to "stopped").
   What is only tested: that the Go runtime and the dependency's decoders do not abort on any byte
   string - the harness feeds structured mutants and random bytes to a node in a child process.
   Known finding D18: the dependency's transaction decoder sizes arrays by declared counts. *)
From BR Require Import Base.Prelude Gen.Consts Net.NodeFSM Net.NodeProofs.
Open Scope N_scope.

Theorem C15_read_never_panics : forall len max avail, fst (read_payload false len max avail) <> RdPanic.
Proof. exact read_payload_never_panics. Qed.
Print Assumptions C15_read_never_panics.

Theorem C15_alloc_bounded_by_received : forall len max avail,
  snd (read_payload false len max avail) <= 2 * avail + 512.
Proof. exact read_payload_alloc_bounded. Qed.
Print Assumptions C15_alloc_bounded_by_received.

(* the reader as found (make([]byte, declared length)) fails both statements *)
Theorem C15_as_found_refuted :
  fst (read_payload true two63 18446744073709551615 0) = RdPanic /\
  snd (read_payload true 1099511627776 18446744073709551615 20) = 1099511627776.
Proof. exact read_payload_as_found_refuted. Qed.
Print Assumptions C15_as_found_refuted.

(* the count-driven handlers (inv, headers, addr: handlers.go reads the declared number of items one
   at a time and stops at the first read error): no declared count panics, and the item slots
   allocated are bounded by the items that actually arrived *)
Theorem C15_items_never_panic : forall count item avail,
  fst (fst (read_items false count item avail)) <> RdPanic.
Proof. exact read_items_never_panics. Qed.
Print Assumptions C15_items_never_panic.

Theorem C15_items_alloc_bounded_by_received : forall count item avail, 0 < item ->
  snd (read_items false count item avail) * item <= avail /\
  snd (read_items false count item avail) <= count.
Proof. exact read_items_alloc_bounded. Qed.
Print Assumptions C15_items_alloc_bounded_by_received.

(* a list sized by the declared count fails both (a nine-byte count is enough) *)
Theorem C15_items_presized_refuted :
  fst (fst (read_items true 18446744073709551615 36 36)) = RdPanic /\
  snd (read_items true 1000000000000 36 36) = 1000000000000.
Proof. exact read_items_presized_refuted. Qed.
Print Assumptions C15_items_presized_refuted.

(* known finding D18: the statement "allocations are bounded by what is received" is false of the
   dependency's transaction decoder *)
Theorem C15_tx_decode_refuted :
  exists declared avail, avail <= 100 /\
    exists a, tx_decode_alloc_as_found declared avail = Some a /\ 70000000000000 < a.
Proof. exact tx_decode_alloc_refuted. Qed.
Print Assumptions C15_tx_decode_refuted.

(* a stopped connection does nothing more: Run's threads are told to stop and no handler runs *)
Theorem C15_stopped_is_final : forall s a, n_stopped s = true -> nstep s a = (s, []).
Proof. exact stopped_step. Qed.
Print Assumptions C15_stopped_is_final.

(* the header bits that crashed the converter (D5) are refused before any arithmetic: see C02 *)
