(* C15 - No bytes from a peer can crash the process.
   What is proved: the payload reader (messages.go readMessage, repaired: D17) never panics and
   allocates in proportion to what arrives, whatever length the header declares; the session state
   machine is total (every message class in every state is a transition, possibly to "stopped").
   What is only tested: that the Go runtime and the dependency's decoders do not abort on any byte
   string - the harness feeds structured mutants and random bytes to a node in a child process.
   Known finding D18: the dependency's transaction decoder sizes arrays by declared counts. *)
From BR Require Import Base.Prelude Gen.Consts Net.NodeFSM Net.NodeProofs.
Open Scope N_scope.

Theorem C15_read_never_panics : forall len max avail, fst (read_payload false len max avail) <> RdPanic.
Proof. exact read_payload_never_panics. Qed.
Print Assumptions C15_read_never_panics.

Theorem C15_alloc_bounded_by_received : forall len max avail,
  snd (read_payload false len max avail) <= 2 * avail + 512.
Proof. exact read_payload_alloc_bounded. Qed.
Print Assumptions C15_alloc_bounded_by_received.

(* the reader as found (make([]byte, declared length)) fails both statements *)
Theorem C15_as_found_refuted :
  fst (read_payload true two63 18446744073709551615 0) = RdPanic /\
  snd (read_payload true 1099511627776 18446744073709551615 20) = 1099511627776.
Proof. exact read_payload_as_found_refuted. Qed.
Print Assumptions C15_as_found_refuted.

(* known finding D18: the statement "allocations are bounded by what is received" is false of the
   dependency's transaction decoder *)
Theorem C15_tx_decode_refuted :
  exists declared avail, avail <= 100 /\
    exists a, tx_decode_alloc_as_found declared avail = Some a /\ 70000000000000 < a.
Proof. exact tx_decode_alloc_refuted. Qed.
Print Assumptions C15_tx_decode_refuted.

(* a stopped connection does nothing more: Run's threads are told to stop and no handler runs *)
Theorem C15_stopped_is_final : forall s a, n_stopped s = true -> nstep s a = (s, []).
Proof. exact stopped_step. Qed.
Print Assumptions C15_stopped_is_final.

(* the header bits that crashed the converter (D5) are refused before any arithmetic: see C02 *)
