(* Model of /repo/tx_manager.go (C06).

   One atomic step per call: AddTxID, AddTx and each per-entry action of GetTxRequests read and
   write one entry under that entry's lock (creation happens under the bucket lock), and between
   the bucket unlock and the entry lock a call has read nothing, so every concurrent execution is
   equivalent to an interleaving of whole calls - i.e. to some operation list.  The clock is an
   explicit input [now] of every operation (nondecreasing along a history); the request timeout
   is an input too (the harness switches it through the verif hook instead of sleeping).

   GetTxRequests iterates Go maps in random order and stops after the bucket in which [max] was
   reached: which eligible txids it returns when [max] binds is not determined; the operation
   carries the set the implementation returned ([chosen]) and the model checks that it is
   admissible. *)
From BR Require Import Base.Prelude.
Open Scope N_scope.

Record entry := mkEntry { e_last : Z; e_received : bool; e_nodes : list N }.
Definition txstate := list (N * entry).          (* txid -> entry, at most one per txid *)

Fixpoint lookup (t : N) (s : txstate) : option entry :=
  match s with [] => None | (k, e) :: s' => if k =? t then Some e else lookup t s' end.

Fixpoint update (t : N) (e : entry) (s : txstate) : txstate :=
  match s with
  | [] => [(t, e)]
  | (k, e0) :: s' => if k =? t then (k, e) :: s' else (k, e0) :: update t e s'
  end.

Fixpoint remove_id (n : N) (l : list N) : list N :=
  match l with [] => [] | x :: l' => if x =? n then l' else x :: remove_id n l' end.
Definition append_id (n : N) (l : list N) : list N := if memN n l then l else l ++ [n].

Definition expired (now timeout : Z) (e : entry) : bool := (timeout <=? now - e_last e)%Z.

Inductive op :=
| OAddTxID (node txid : N) (now timeout : Z)
| OAddTx (node txid : N) (relevant : bool) (now : Z)
| OGet (node : N) (now timeout : Z) (max : N) (chosen : list N).

Inductive out :=
| RGrant (b : bool)                (* AddTxID: request it from this node now? *)
| RForward (b : bool)              (* AddTx: handed to the processor queue? *)
| RRequests (ok : bool) (l : list N).   (* GetTxRequests: admissible?, granted txids *)

Definition eligible (node : N) (now timeout : Z) (s : txstate) : list N :=
  map fst (filter (fun p => negb (e_received (snd p)) && memN node (e_nodes (snd p)) &&
                            expired now timeout (snd p)) s).

Fixpoint subsetN (a b : list N) : bool :=
  match a with [] => true | x :: a' => memN x b && subsetN a' b end.
Fixpoint nodupN (l : list N) : bool :=
  match l with [] => true | x :: l' => negb (memN x l') && nodupN l' end.

Fixpoint grant_all (node : N) (now : Z) (ts : list N) (s : txstate) : txstate :=
  match ts with
  | [] => s
  | t :: ts' =>
      match lookup t s with
      | Some e => grant_all node now ts' (update t (mkEntry now (e_received e) (remove_id node (e_nodes e))) s)
      | None => grant_all node now ts' s
      end
  end.

Definition step (s : txstate) (o : op) : txstate * out :=
  match o with
  | OAddTxID n t now timeout =>
      match lookup t s with
      | None => (update t (mkEntry now false []) s, RGrant true)
      | Some e =>
          if e_received e then (s, RGrant false)
          else if negb (expired now timeout e)
          then (update t (mkEntry (e_last e) false (append_id n (e_nodes e))) s, RGrant false)
          else (update t (mkEntry now false (remove_id n (e_nodes e))) s, RGrant true)
      end
  | OAddTx n t rel now =>
      match lookup t s with
      | None => (update t (mkEntry now true []) s, RForward true)
      | Some e =>
          if e_received e then (s, RForward false)
          else (update t (mkEntry (e_last e) true (e_nodes e)) s, RForward true)
      end
  | OGet n now timeout max chosen =>
      let el := eligible n now timeout s in
      let ok := subsetN chosen el && nodupN chosen &&
                (subsetN el chosen || (max <=? N.of_nat (length chosen))) in
      let granted := filter (fun t => memN t el) chosen in
      (grant_all n now granted s, RRequests ok granted)
  end.

Fixpoint run (s : txstate) (ops : list op) : txstate * list out :=
  match ops with
  | [] => (s, [])
  | o :: ops' => let '(s1, r) := step s o in
                 let '(s2, rs) := run s1 ops' in (s2, r :: rs)
  end.

(* the Run loop: every forwarded transaction is processed in order, and saved if relevant *)
Fixpoint processed (ops : list op) (outs : list out) : list (N * bool) :=
  match ops, outs with
  | OAddTx _ t rel _ :: ops', RForward true :: outs' => (t, rel) :: processed ops' outs'
  | _ :: ops', _ :: outs' => processed ops' outs'
  | _, _ => []
  end.

(* ------------------------------------------------------------------------------------- *)
(* correspondence                                                                           *)

Fixpoint perm_eqbN (a b : list N) : bool :=
  match a with
  | [] => match b with [] => true | _ => false end
  | x :: a' => memN x b && perm_eqbN a' (remove_id x b)
  end.

Definition out_eqb (m i : out) : bool :=
  match m, i with
  | RGrant a, RGrant b => Bool.eqb a b
  | RForward _, RForward _ => true                  (* not observable per call *)
  | RRequests ok l, RRequests _ l' => ok && perm_eqbN l l'
  | _, _ => false
  end.

Fixpoint outs_eqb (m i : list out) : bool :=
  match m, i with
  | [], [] => true
  | a :: m', b :: i' => out_eqb a b && outs_eqb m' i'
  | _, _ => false
  end.

Fixpoint count_tx (t : N) (l : list N) : nat :=
  match l with [] => O | x :: l' => if x =? t then S (count_tx t l') else count_tx t l' end.

(* a case: operations with the implementation's answers, plus the txids the processor and the
   saver were called with (in order) *)
Record tcase := mkTCase { tc_ops : list op; tc_outs : list out; tc_processed : list N; tc_saved : list N }.

Definition case_ok (c : tcase) : bool :=
  let '(_, mouts) := run [] (tc_ops c) in
  let p := processed (tc_ops c) mouts in
  outs_eqb mouts (tc_outs c) &&
  perm_eqbN (map fst p) (tc_processed c) &&
  perm_eqbN (map fst (filter snd p)) (tc_saved c).

Definition mismatches (cs : list tcase) : list N := failing (map case_ok cs).

(* stress cases: deliveries issued concurrently; the answers of the individual calls are not
   recorded.  What the processor and the saver received does not depend on the interleaving
   (TxProofs.processed_once: every delivered transaction exactly once), so it is compared with the
   model run over the deliveries in program order. *)
Definition stress_ok (c : tcase) : bool :=
  let '(_, mouts) := run [] (tc_ops c) in
  let p := processed (tc_ops c) mouts in
  perm_eqbN (map fst p) (tc_processed c) &&
  perm_eqbN (map fst (filter snd p)) (tc_saved c).
Definition mismatches_stress (cs : list tcase) : list N := failing (map stress_ok cs).

(* concurrent cases: the calls were issued at the same instant from different goroutines; the
   recorded answers must be those of some sequential order of the calls *)
Fixpoint insert_all {A} (x : A) (l : list A) : list (list A) :=
  match l with
  | [] => [[x]]
  | y :: l' => (x :: l) :: map (cons y) (insert_all x l')
  end.
Fixpoint perms {A} (l : list A) : list (list A) :=
  match l with
  | [] => [[]]
  | x :: l' => flat_map (insert_all x) (perms l')
  end.
Definition lin_ok (c : tcase) : bool :=
  existsb (fun p => case_ok (mkTCase (map fst p) (map snd p) (tc_processed c) (tc_saved c)))
          (perms (combine (tc_ops c) (tc_outs c))).
Definition mismatches_linearisable (cs : list tcase) : list N := failing (map lin_ok cs).
