(* Proofs about the TxManager model (C06). *)
From BR Require Import Base.Prelude Tx.TxManager.
Open Scope N_scope.

Lemma lookup_update_same t e s : lookup t (update t e s) = Some e.
Proof.
  induction s as [|[k e0] s IH]; cbn [update lookup]; [rewrite N.eqb_refl; reflexivity|].
  destruct (k =? t) eqn:E; cbn [lookup]; rewrite E; [reflexivity|exact IH].
Qed.

Lemma lookup_update_other t t' e s : t' <> t -> lookup t' (update t e s) = lookup t' s.
Proof.
  intros Hne. induction s as [|[k e0] s IH]; cbn [update lookup].
  - destruct (t =? t') eqn:E; [apply N.eqb_eq in E; congruence|reflexivity].
  - destruct (k =? t) eqn:E; cbn [lookup].
    + apply N.eqb_eq in E. subst k. destruct (t =? t') eqn:E2; [apply N.eqb_eq in E2; congruence|reflexivity].
    + destruct (k =? t'); [reflexivity|exact IH].
Qed.

Definition received (t : N) (s : txstate) : bool :=
  match lookup t s with Some e => e_received e | None => false end.
Definition last_req (t : N) (s : txstate) : option Z := option_map e_last (lookup t s).

Lemma grant_all_received n now ts : forall s t, received t (grant_all n now ts s) = received t s.
Proof.
  induction ts as [|x ts IH]; intros s t; cbn [grant_all]; [reflexivity|].
  destruct (lookup x s) as [e|] eqn:E; [|apply IH].
  rewrite IH. unfold received. destruct (N.eq_dec t x) as [->|Hne].
  - rewrite lookup_update_same, E. reflexivity.
  - rewrite lookup_update_other by exact Hne. reflexivity.
Qed.

Lemma grant_all_last n now ts : forall s t,
  last_req t (grant_all n now ts s) =
  if memN t ts then option_map (fun _ => now) (last_req t s) else last_req t s.
Proof.
  induction ts as [|x ts IH]; intros s t; cbn [grant_all memN]; [reflexivity|].
  destruct (lookup x s) as [e|] eqn:E.
  - rewrite IH. unfold last_req. destruct (N.eq_dec t x) as [->|Hne].
    + rewrite N.eqb_refl, lookup_update_same, E. cbn [orb option_map]. destruct (memN x ts); reflexivity.
    + rewrite lookup_update_other by exact Hne.
      replace (t =? x) with false by (symmetry; apply N.eqb_neq; exact Hne). reflexivity.
  - rewrite IH. destruct (N.eq_dec t x) as [->|Hne].
    + rewrite N.eqb_refl. cbn [orb]. unfold last_req. rewrite E. cbn. destruct (memN x ts); reflexivity.
    + replace (t =? x) with false by (symmetry; apply N.eqb_neq; exact Hne). reflexivity.
Qed.

(* --- delivered exactly once ------------------------------------------------------------ *)

Definition is_delivery (t : N) (o : op) : bool :=
  match o with OAddTx _ t' _ _ => t' =? t | _ => false end.

Lemma step_received t s o : received t (fst (step s o)) = received t s || is_delivery t o.
Proof.
  destruct o as [n t' now T|n t' rel now|n now T max chosen]; cbn [step is_delivery].
  - rewrite orb_false_r. destruct (lookup t' s) as [e|] eqn:E; cbn [fst].
    + destruct (e_received e) eqn:Er; cbn [fst]; [reflexivity|].
      destruct (negb (expired now T e)); cbn [fst]; unfold received;
        (destruct (N.eq_dec t t') as [->|Hne];
         [rewrite lookup_update_same, E; cbn [e_received]; symmetry; exact Er
         |rewrite lookup_update_other by exact Hne; reflexivity]).
    + unfold received. destruct (N.eq_dec t t') as [->|Hne].
      * rewrite lookup_update_same, E. reflexivity.
      * rewrite lookup_update_other by exact Hne. reflexivity.
  - destruct (lookup t' s) as [e|] eqn:E; cbn [fst].
    + destruct (e_received e) eqn:Er; cbn [fst].
      * destruct (t' =? t) eqn:Et; [|rewrite orb_false_r; reflexivity].
        apply N.eqb_eq in Et. subst t'. unfold received. rewrite E, Er. reflexivity.
      * unfold received. destruct (N.eq_dec t t') as [->|Hne].
        -- rewrite lookup_update_same, N.eqb_refl, orb_true_r. reflexivity.
        -- rewrite lookup_update_other by exact Hne.
           replace (t' =? t) with false by (symmetry; apply N.eqb_neq; congruence).
           rewrite orb_false_r. reflexivity.
    + unfold received. destruct (N.eq_dec t t') as [->|Hne].
      * rewrite lookup_update_same, N.eqb_refl, orb_true_r. reflexivity.
      * rewrite lookup_update_other by exact Hne.
        replace (t' =? t) with false by (symmetry; apply N.eqb_neq; congruence).
        rewrite orb_false_r. reflexivity.
  - rewrite orb_false_r. cbn [fst]. apply grant_all_received.
Qed.

(* the delivery of t is forwarded exactly when t had not been received before *)
Lemma step_forward t s n rel now :
  snd (step s (OAddTx n t rel now)) = RForward (negb (received t s)).
Proof.
  cbn [step]. unfold received. destruct (lookup t s) as [e|]; [|reflexivity].
  destruct (e_received e); reflexivity.
Qed.

Fixpoint forwards (t : N) (ops : list op) (outs : list out) : nat :=
  match ops, outs with
  | o :: ops', r :: outs' =>
      ((match o, r with
        | OAddTx _ t' _ _, RForward true => if (t' =? t)%N then 1%nat else 0%nat
        | _, _ => 0%nat
        end) + forwards t ops' outs')%nat
  | _, _ => O
  end.

Theorem forwarded_once t ops : forall s,
  forwards t ops (snd (run s ops)) =
  if received t s then O else if existsb (is_delivery t) ops then 1%nat else O.
Proof.
  induction ops as [|o ops IH]; intros s; cbn [run]; [cbn; destruct (received t s); reflexivity|].
  pose proof (step_received t s o) as Hr.
  destruct (step s o) as [s1 r] eqn:E. cbn [fst] in Hr.
  specialize (IH s1). destruct (run s1 ops) as [s2 rs]. cbn [snd forwards existsb] in *.
  rewrite IH, Hr.
  destruct o as [n t' now T|n t' rel now|n now T max chosen]; cbn [is_delivery orb] in *.
  - rewrite orb_false_r. destruct r; destruct (received t s); reflexivity.
  - pose proof (step_forward t' s n rel now) as Hf. rewrite E in Hf. cbn [snd] in Hf. subst r.
    destruct (t' =? t) eqn:Et.
    + apply N.eqb_eq in Et. subst t'. destruct (received t s); cbn; reflexivity.
    + rewrite orb_false_r. destruct (received t' s); destruct (received t s); cbn; reflexivity.
  - rewrite orb_false_r. destruct r; destruct (received t s); reflexivity.
Qed.

(* the processor sees exactly the forwarded transactions *)
Lemma processed_count t ops : forall outs,
  count_tx t (map fst (processed ops outs)) = forwards t ops outs.
Proof.
  induction ops as [|o ops IH]; intros outs; [destruct outs; reflexivity|].
  destruct outs as [|r outs]; [destruct o; reflexivity|].
  destruct o as [n t' now T|n t' rel now|n now T max chosen]; cbn [processed forwards]; try apply IH.
  destruct r as [b|b|ok l]; try apply IH. destruct b; [|apply IH].
  cbn [map fst count_tx]. rewrite IH. destruct (t' =? t); reflexivity.
Qed.

Theorem processed_once t ops :
  count_tx t (map fst (processed ops (snd (run [] ops)))) =
  if existsb (is_delivery t) ops then 1%nat else O.
Proof. rewrite processed_count, forwarded_once. reflexivity. Qed.

(* ... and it is saved exactly when it is relevant (the flag the processor returned) *)
Lemma processed_relevant ops : forall outs t rel,
  In (t, rel) (processed ops outs) -> exists n now, In (OAddTx n t rel now) ops.
Proof.
  induction ops as [|o ops IH]; intros outs t rel H; [destruct outs; destruct H|].
  destruct outs as [|r outs]; [destruct o; destruct H|].
  destruct o as [n t' now T|n t' rel' now|n now T max chosen]; cbn [processed] in H;
    try (destruct (IH _ _ _ H) as (n0 & now0 & Hin); exists n0, now0; right; exact Hin).
  destruct r as [b|b|ok l]; try (destruct (IH _ _ _ H) as (n0 & now0 & Hin); exists n0, now0; right; exact Hin).
  destruct b; [|destruct (IH _ _ _ H) as (n0 & now0 & Hin); exists n0, now0; right; exact Hin].
  destruct H as [H|H].
  - inversion H; subst. exists n, now. left; reflexivity.
  - destruct (IH _ _ _ H) as (n0 & now0 & Hin). exists n0, now0. right; exact Hin.
Qed.

(* --- requests ---------------------------------------------------------------------------- *)

Definition grants (t : N) (o : op) (r : out) : bool :=
  match o, r with
  | OAddTxID _ t' _ _, RGrant true => t' =? t
  | OGet _ _ _ _ _, RRequests _ l => memN t l
  | _, _ => false
  end.
Definition op_now (o : op) : Z :=
  match o with OAddTxID _ _ now _ => now | OAddTx _ _ _ now => now | OGet _ now _ _ _ => now end.
Definition op_timeout (o : op) : Z :=
  match o with OAddTxID _ _ _ T => T | OGet _ _ T _ _ => T | _ => 0%Z end.

Lemma eligible_spec n now T s t : In t (eligible n now T s) ->
  exists e, In (t, e) s /\ e_received e = false /\ memN n (e_nodes e) = true /\ expired now T e = true.
Proof.
  unfold eligible. intros H. apply in_map_iff in H as ([k e] & Hk & Hin). cbn in Hk. subst k.
  apply filter_In in Hin as [Hin Hc]. cbn [snd] in Hc.
  apply andb_true_iff in Hc as [Hc H3]. apply andb_true_iff in Hc as [H1 H2].
  apply negb_true_iff in H1. exists e. auto.
Qed.

(* unique keys *)
Definition wf (s : txstate) : Prop := NoDup (map fst s).

Lemma update_keys t e s :
  map fst (update t e s) = if memN t (map fst s) then map fst s else map fst s ++ [t].
Proof.
  induction s as [|[k e0] s IH]; cbn [update map fst memN app]; [reflexivity|].
  destruct (k =? t) eqn:E.
  - apply N.eqb_eq in E. subst k. cbn [map fst]. rewrite N.eqb_refl. reflexivity.
  - cbn [map fst]. rewrite IH. rewrite N.eqb_sym, E. cbn [orb].
    destruct (memN t (map fst s)); reflexivity.
Qed.

Lemma wf_update t e s : wf s -> wf (update t e s).
Proof.
  unfold wf. intros H. rewrite update_keys. destruct (memN t (map fst s)) eqn:E; [exact H|].
  apply NoDup_snoc; [exact H|]. intros Hin. apply memN_In in Hin. congruence.
Qed.

Lemma wf_grant_all n now ts : forall s, wf s -> wf (grant_all n now ts s).
Proof.
  induction ts as [|x ts IH]; intros s H; cbn [grant_all]; [exact H|].
  destruct (lookup x s); [apply IH; apply wf_update; exact H|apply IH; exact H].
Qed.

Lemma wf_step s o : wf s -> wf (fst (step s o)).
Proof.
  intros H. destruct o as [n t now T|n t rel now|n now T max chosen]; cbn [step].
  - destruct (lookup t s) as [e|]; [|apply wf_update; exact H].
    destruct (e_received e); [exact H|]. destruct (negb _); apply wf_update; exact H.
  - destruct (lookup t s) as [e|]; [|apply wf_update; exact H].
    destruct (e_received e); [exact H|apply wf_update; exact H].
  - apply wf_grant_all. exact H.
Qed.

Lemma wf_run ops : forall s, wf s -> wf (fst (run s ops)).
Proof.
  induction ops as [|o ops IH]; intros s H; cbn [run]; [exact H|].
  pose proof (wf_step s o H) as H1. destruct (step s o) as [s1 r]. cbn [fst] in H1.
  specialize (IH s1 H1). destruct (run s1 ops). exact IH.
Qed.

Lemma lookup_in t e s : wf s -> In (t, e) s -> lookup t s = Some e.
Proof.
  unfold wf. induction s as [|[k e0] s IH]; cbn [map fst lookup]; intros Hnd Hin; [destruct Hin|].
  inversion Hnd as [|? ? Hna Hnd']; subst.
  destruct Hin as [Heq|Hin].
  - inversion Heq; subst. rewrite N.eqb_refl. reflexivity.
  - destruct (k =? t) eqn:E; [|exact (IH Hnd' Hin)].
    apply N.eqb_eq in E. subst k. exfalso. apply Hna.
    change t with (fst (t, e)). apply in_map. exact Hin.
Qed.

Lemma in_lookup t e s : lookup t s = Some e -> In (t, e) s.
Proof.
  induction s as [|[k e0] s IH]; cbn [lookup]; [discriminate|].
  destruct (k =? t) eqn:E; [|intros H; right; exact (IH H)].
  intros H; inversion H; subst. apply N.eqb_eq in E. subst k. left; reflexivity.
Qed.

(* never requested again after delivery *)
Theorem no_grant_after_delivery t s o : wf s -> received t s = true ->
  grants t o (snd (step s o)) = false.
Proof.
  intros Hw Hr. unfold received in Hr.
  destruct o as [n t' now T|n t' rel now|n now T max chosen]; cbn [step].
  - destruct (lookup t' s) as [e|] eqn:E; cbn [snd grants].
    + destruct (e_received e) eqn:Er; cbn [snd grants]; [reflexivity|].
      destruct (negb (expired now T e)); cbn [snd grants]; [reflexivity|].
      destruct (t' =? t) eqn:Et; [|reflexivity]. apply N.eqb_eq in Et. subst t'.
      rewrite E, Er in Hr. discriminate.
    + destruct (t' =? t) eqn:Et; [|reflexivity]. apply N.eqb_eq in Et. subst t'.
      rewrite E in Hr. discriminate.
  - destruct (lookup t' s) as [e|]; [destruct (e_received e)|]; reflexivity.
  - cbn [snd grants].
    destruct (memN t (filter (fun t0 => memN t0 (eligible n now T s)) chosen)) eqn:Em; [|reflexivity].
    exfalso. apply memN_In in Em. apply filter_In in Em as [_ Hel]. apply memN_In in Hel.
    destruct (eligible_spec _ _ _ _ _ Hel) as (e & Hin & Hre & _).
    rewrite (lookup_in t e s Hw Hin), Hre in Hr. discriminate.
Qed.

(* a grant needs the previous request to have timed out, and stamps the request time *)
Theorem grant_needs_timeout t s o : wf s -> grants t o (snd (step s o)) = true ->
  (match lookup t s with
   | Some e => e_received e = false /\ (op_timeout o <= op_now o - e_last e)%Z
   | None => True
   end) /\
  last_req t (fst (step s o)) = Some (op_now o).
Proof.
  intros Hw Hg.
  destruct o as [n t' now T|n t' rel now|n now T max chosen]; cbn [step] in *.
  - destruct (lookup t' s) as [e|] eqn:E; cbn [snd fst grants] in *.
    + destruct (e_received e) eqn:Er; cbn [snd fst grants] in *; [discriminate|].
      destruct (negb (expired now T e)) eqn:Ex; cbn [snd fst grants] in *; [discriminate|].
      apply N.eqb_eq in Hg. subst t'. rewrite E. cbn [op_timeout op_now].
      apply negb_false_iff in Ex. unfold expired in Ex. apply Z.leb_le in Ex.
      split; [auto|]. unfold last_req. rewrite lookup_update_same. reflexivity.
    + apply N.eqb_eq in Hg. subst t'. rewrite E. split; [exact I|].
      unfold last_req. rewrite lookup_update_same. reflexivity.
  - destruct (lookup t' s) as [e|]; [destruct (e_received e)|]; discriminate.
  - cbn [snd fst grants op_timeout op_now] in *.
    pose proof Hg as Hg'. apply memN_In in Hg'. apply filter_In in Hg' as [_ Hel]. apply memN_In in Hel.
    destruct (eligible_spec _ _ _ _ _ Hel) as (e & Hin & Hre & _ & Hex).
    rewrite (lookup_in t e s Hw Hin). unfold expired in Hex. apply Z.leb_le in Hex.
    split; [auto|]. rewrite grant_all_last, Hg. unfold last_req.
    rewrite (lookup_in t e s Hw Hin). reflexivity.
Qed.

(* the request time only moves at a grant (or when the entry is created by a delivery) *)
Theorem last_request_stable t s o e : lookup t s = Some e ->
  grants t o (snd (step s o)) = false -> last_req t (fst (step s o)) = Some (e_last e).
Proof.
  intros He Hg.
  destruct o as [n t' now T|n t' rel now|n now T max chosen]; cbn [step] in *.
  - destruct (N.eq_dec t' t) as [->|Hne].
    + rewrite He in *. destruct (e_received e); cbn [fst snd grants] in *.
      * unfold last_req. rewrite He. reflexivity.
      * destruct (negb (expired now T e)); cbn [fst snd grants] in *.
        -- unfold last_req. rewrite lookup_update_same. reflexivity.
        -- rewrite N.eqb_refl in Hg. discriminate.
    + assert (Hsame : forall e1 s1, lookup t (update t' e1 s1) = lookup t s1)
        by (intros; apply lookup_update_other; congruence).
      destruct (lookup t' s) as [e'|]; cbn [fst].
      * destruct (e_received e'); cbn [fst]; [unfold last_req; rewrite He; reflexivity|].
        destruct (negb _); cbn [fst]; unfold last_req; rewrite Hsame, He; reflexivity.
      * unfold last_req. rewrite Hsame, He. reflexivity.
  - destruct (N.eq_dec t' t) as [->|Hne].
    + rewrite He. destruct (e_received e); cbn [fst]; unfold last_req.
      * rewrite He. reflexivity.
      * rewrite lookup_update_same. reflexivity.
    + assert (Hsame : forall e1 s1, lookup t (update t' e1 s1) = lookup t s1)
        by (intros; apply lookup_update_other; congruence).
      destruct (lookup t' s) as [e'|]; cbn [fst].
      * destruct (e_received e'); cbn [fst]; unfold last_req; rewrite ?Hsame, He; reflexivity.
      * unfold last_req. rewrite Hsame, He. reflexivity.
  - cbn [fst snd grants] in *. rewrite grant_all_last, Hg. unfold last_req. rewrite He. reflexivity.
Qed.

(* an announcement made while a request is outstanding is remembered for that node *)
Theorem announce_recorded n t now T s e : lookup t s = Some e -> e_received e = false ->
  expired now T e = false ->
  step s (OAddTxID n t now T) =
    (update t (mkEntry (e_last e) false (append_id n (e_nodes e))) s, RGrant false) /\
  memN n (append_id n (e_nodes e)) = true.
Proof.
  intros He Hr Hx. cbn [step]. rewrite He, Hr, Hx. cbn [negb]. split; [reflexivity|].
  unfold append_id. destruct (memN n (e_nodes e)) eqn:E; [exact E|].
  rewrite memN_app. cbn [memN]. rewrite N.eqb_refl. apply orb_true_r.
Qed.

Lemma subsetN_in a b x : subsetN a b = true -> In x a -> memN x b = true.
Proof.
  induction a as [|y a IH]; cbn [subsetN]; intros H Hin; [destruct Hin|].
  apply andb_true_iff in H as [H1 H2]. destruct Hin as [->|Hin]; [exact H1|exact (IH H2 Hin)].
Qed.

(* after the timeout the transaction is requestable by every node that announced it: it is
   eligible for that node, and any admissible answer of a poll that was not cut short by max
   contains it *)
Theorem retry_after_timeout n t now T s e : lookup t s = Some e -> e_received e = false ->
  memN n (e_nodes e) = true -> expired now T e = true ->
  In t (eligible n now T s) /\
  forall max chosen ok granted,
    snd (step s (OGet n now T max chosen)) = RRequests ok granted -> ok = true ->
    N.of_nat (length chosen) < max -> In t granted.
Proof.
  intros He Hr Hn Hx.
  assert (Hel : In t (eligible n now T s)).
  { unfold eligible. apply in_map_iff. exists (t, e). split; [reflexivity|].
    apply filter_In. split; [apply in_lookup; exact He|]. cbn [snd]. rewrite Hr, Hn, Hx. reflexivity. }
  split; [exact Hel|]. intros max chosen ok granted Hstep Hok Hlen.
  cbn [step snd] in Hstep. inversion Hstep as [[Hok' Hgr]]. clear Hstep. subst ok.
  apply andb_true_iff in Hok' as [Hok1 Hok3]. 
  assert (Hsub : subsetN (eligible n now T s) chosen = true).
  { apply orb_true_iff in Hok3 as [H|H]; [exact H|]. apply N.leb_le in H. lia. }
  apply filter_In. split.
  - apply memN_In. exact (subsetN_in _ _ _ Hsub Hel).
  - apply memN_In. exact Hel.
Qed.

(* a poll touches only the entries of the txids it returns: every other txid keeps its request
   time, its delivery flag and its list of announcers - in particular a txid that was eligible
   for this node and was not returned is still eligible for it *)
Lemma grant_all_other n now ts : forall s t, ~ In t ts -> lookup t (grant_all n now ts s) = lookup t s.
Proof.
  induction ts as [|x ts IH]; intros s t Hn; [reflexivity|].
  cbn [grant_all]. assert (Hx : t <> x) by (intro; subst; apply Hn; left; reflexivity).
  assert (Hr : ~ In t ts) by (intro; apply Hn; right; assumption).
  destruct (lookup x s) as [e|]; [|apply IH; exact Hr].
  rewrite (IH _ t Hr). apply lookup_update_other. exact Hx.
Qed.

Theorem poll_touches_only_granted n now T max chosen s t ok granted :
  snd (step s (OGet n now T max chosen)) = RRequests ok granted -> ~ In t granted ->
  lookup t (fst (step s (OGet n now T max chosen))) = lookup t s.
Proof.
  cbn [step snd fst]. intros H Hn. inversion H; subst. apply grant_all_other. exact Hn.
Qed.

Lemma eligible_intro n now T s t e : In (t, e) s -> e_received e = false ->
  memN n (e_nodes e) = true -> expired now T e = true -> In t (eligible n now T s).
Proof.
  intros Hin H1 H2 H3. unfold eligible. apply in_map_iff. exists (t, e). split; [reflexivity|].
  apply filter_In. split; [exact Hin|]. cbn [snd]. rewrite H1, H2, H3. reflexivity.
Qed.

(* ... so what a poll did not return stays requestable from that peer (the clause "requestable
   from each other peer that announced it, until delivered" for polls cut short by [max]) *)
Theorem unreturned_stays_eligible n now T max chosen s t ok granted : wf s ->
  snd (step s (OGet n now T max chosen)) = RRequests ok granted ->
  In t (eligible n now T s) -> ~ In t granted ->
  In t (eligible n now T (fst (step s (OGet n now T max chosen)))).
Proof.
  intros Hw Hs He Hn. apply eligible_spec in He as (e & Hin & H1 & H2 & H3).
  pose proof (lookup_in t e s Hw Hin) as Hl.
  rewrite <- (poll_touches_only_granted n now T max chosen s t ok granted Hs Hn) in Hl.
  apply in_lookup in Hl. exact (eligible_intro n now T _ t e Hl H1 H2 H3).
Qed.
