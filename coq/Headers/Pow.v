(* Proof-of-work checks of ProcessHeader (C02): header.WorkIsValid, Branch.Target
   (headers/proof_of_work.go) and the comparison of the required bits with the header's bits.

   [asfound = true] selects the three behaviours of the pinned commit that the "fix:" commit for
   D2-D4 repaired (uint32 time span, stable-sort median, 2^256/(W+1)); [asfound = false] is the
   code as it is now.  [target_net] is written independently from the network's algorithm
   (GetSuitableBlock + ComputeTarget of the 2017 difficulty adjustment). *)
From BR Require Import Base.Prelude Base.Compact Gen.Consts Headers.Tree.
Open Scope N_scope.

Definition sample : Type := N * N.      (* (timestamp, cumulative work) of one header *)

(* --- the median of three ------------------------------------------------------------- *)

(* network: blocks[0..2] oldest to newest, three conditional swaps, return blocks[1] *)
Definition median3_net (b0 b1 b2 : sample) : sample :=
  let '(b0, b2) := if fst b2 <? fst b0 then (b2, b0) else (b0, b2) in
  let '(b0, b1) := if fst b1 <? fst b0 then (b1, b0) else (b0, b1) in
  let '(b1, b2) := if fst b2 <? fst b1 then (b2, b1) else (b1, b2) in
  b1.

(* Go's sort.Sort on three elements is a stable insertion sort *)
Definition median3_sort (b0 b1 b2 : sample) : sample :=
  (* insertion sort, from the left, moving an element left while it is strictly smaller *)
  let l1 := if fst b1 <? fst b0 then [b1; b0] else [b0; b1] in
  let l2 := match l1 with
            | [x; y] => if fst b2 <? fst y
                        then (if fst b2 <? fst x then [b2; x; y] else [x; b2; y])
                        else [x; y; b2]
            | _ => l1
            end in
  nth 1 l2 b1.

Definition median3_code (asfound : bool) (b0 b1 b2 : sample) : sample :=
  if asfound then median3_sort b0 b1 b2
  else
    (* the repaired MedianTimeAndWork: list.Swap(0,2) / (0,1) / (1,2) on strict > *)
    let '(l0, l2) := if fst b2 <? fst b0 then (b2, b0) else (b0, b2) in
    let '(l0, l1) := if fst b1 <? fst l0 then (b1, l0) else (l0, b1) in
    let '(l1, l2) := if fst l2 <? fst l1 then (l2, l1) else (l1, l2) in
    l1.

(* --- the target ------------------------------------------------------------------------ *)

Definition clamp_span (s : Z) : Z := Z.max daa_min_span (Z.min daa_max_span s).

(* network: W = work(last) - work(first); W := W * spacing / span; target = (2^256 - W) / W *)
Definition target_of_medians_net (first last : sample) : N :=
  let span := clamp_span (Z.of_N (fst last) - Z.of_N (fst first)) in
  let pw := ((Z.of_N (snd last) - Z.of_N (snd first)) * daa_spacing / span)%Z in
  if (pw <=? 0)%Z then max_work
  else N.min ((two256 - Z.to_N pw) / Z.to_N pw) max_work.

Definition target_net (f0 f1 f2 l0 l1 l2 : sample) : N :=
  target_of_medians_net (median3_net f0 f1 f2) (median3_net l0 l1 l2).

Definition target_of_medians_code (asfound : bool) (first last : sample) : N :=
  if asfound then
    (* uint32 subtraction wraps; ConvertToWork(projected) *)
    let span := clamp_span (Z.of_N ((fst last + 4294967296 - fst first) mod 4294967296)) in
    let pw := ((Z.of_N (snd last) - Z.of_N (snd first)) * daa_spacing / span)%Z in
    N.min (work_of_target (Z.to_N pw)) max_work
  else
    let span := clamp_span (Z.of_N (fst last) - Z.of_N (fst first)) in
    let pw := ((Z.of_N (snd last) - Z.of_N (snd first)) * daa_spacing / span)%Z in
    if (pw <=? 0)%Z then max_work
    else N.min ((two256 - Z.to_N pw) / Z.to_N pw) max_work.

Definition target_code (asfound : bool) (f0 f1 f2 l0 l1 l2 : sample) : N :=
  target_of_medians_code asfound (median3_code asfound f0 f1 f2) (median3_code asfound l0 l1 l2).

(* --- the verdict of the proof-of-work part of ProcessHeader ------------------------------ *)

Record pow_in := mkPowIn {
  pi_hash : N;              (* BlockHash().Value() *)
  pi_bits : N;
  pi_height : Z;            (* height the header would get *)
  pi_parent_known : bool;
  pi_dup : bool;
  pi_samples : option (sample * sample * sample * sample * sample * sample)
                            (* heights h-147..h-145 and h-3..h-1 of its own branch; None when
                               one of them is not available (Target returns an error) *)
}.

Definition pow_verdict (asfound difficulty : bool) (x : pow_in) : res verdict :=
  if negb asfound && negb (bits_valid (pi_bits x)) then Ok VBadBits
  else
    match (if difficulty then work_is_valid (pi_hash x) (pi_bits x) else Ok true) with
    | Panic s => Panic s
    | Err e => Err e
    | Ok false => Ok VBadWork
    | Ok true =>
        if negb (pi_parent_known x) then Ok VUnknown
        else if pi_dup x then Ok VOk
        else if difficulty && (daa_activation_height <=? pi_height x)%Z then
          match pi_samples x with
          | None => Ok VOther
          | Some (f0, f1, f2, l0, l1, l2) =>
              if encode_bits (target_code asfound f0 f1 f2 l0 l1 l2) max_bits =? pi_bits x
              then Ok VOk else Ok VBadBits
          end
        else
          (* NewBranch / Add convert the bits to work: the as-found code panics there *)
          match decode_bits (pi_bits x) with Panic s => Panic s | _ => Ok VOk end
    end.

(* --- correspondence: cases evaluated in Coq ---------------------------------------------- *)

(* pure functions: bits -> (target or panic, work), target -> bits *)
Inductive pcase :=
| PDecode (bits : N) (obs : option (N * N))          (* Some (target, work) | None = panicked *)
| PEncode (target : N) (obs : N)
| PTarget (s : sample * sample * sample * sample * sample * sample) (obs : N)   (* Branch.Target *)
| PVerdict (difficulty : bool) (x : pow_in) (obs : option verdict).           (* None = panicked *)

Definition pcase_ok (c : pcase) : bool :=
  match c with
  | PDecode bits obs =>
      match decode_bits bits, obs with
      | Ok d, Some (t, w) => (d =? t) && (work_of_target d =? w)
      | Panic _, None => true
      | _, _ => false
      end
  | PEncode t obs => encode_bits t max_bits =? obs
  | PTarget (f0, f1, f2, l0, l1, l2) obs => target_net f0 f1 f2 l0 l1 l2 =? obs
  | PVerdict diff x obs =>
      match pow_verdict false diff x, obs with
      | Ok v, Some v' =>
          verdict_eqb v v' ||
          (* a header at a chain-split height answered "wrong chain": the chain-identity check runs
             before the difficulty check and belongs to C03 (Headers/Splits.v), not to this property *)
          (verdict_eqb v' VWrongChain &&
           ((pi_height x =? required_height)%Z || existsb (fun s => (snd s =? pi_height x)%Z) splits))
      | _, _ => false           (* the repaired model never panics; an observed panic fails *)
      end
  end.

Definition pmismatches (cs : list pcase) : list N := failing (map pcase_ok cs).

(* --- replay of real chain data inside Coq (finite sweep) -------------------------------- *)

Fixpoint cumworks (acc : N) (l : list (N * N * N)) : list sample :=
  match l with
  | [] => []
  | (_, b, t) :: r => let w := acc + work_of_bits b in (t, w) :: cumworks w r
  end.

(* header i of the list (height base+i) is judged against its 147 predecessors in the list;
   cumulative work is counted from the start of the list (only differences enter the target) *)
Definition fx_verdict (base : Z) (l : list (N * N * N)) (s : list sample) (i : nat) : res verdict :=
  let '(h, b, _) := nth i l (0, 0, 0) in
  let g k := nth (i - k) s (0, 0) in
  pow_verdict false true
    (mkPowIn h b (base + Z.of_nat i) true false (Some (g 147%nat, g 146%nat, g 145%nat, g 3%nat, g 2%nat, g 1%nat))).

Definition fx_all_accepted (base : Z) (l : list (N * N * N)) : bool :=
  let s := cumworks 0 l in
  forallb (fun i => match fx_verdict base l s i with Ok VOk => true | _ => false end)
          (seq 147 (length l - 147)).
