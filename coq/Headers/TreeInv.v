(* Well-formedness of the header tree and its preservation by every operation. *)
From BR Require Import Base.Prelude Base.Compact Headers.Tree Headers.TreeBasics.
Open Scope N_scope.

(* newest first; every non-root header has its parent further down; hashes are unique and
   non-zero; heights count parent links; cumulative work strictly grows along parent links *)
Inductive wf : list node -> Prop :=
| wf_root g : n_prev g = 0 -> n_hash g <> 0 -> n_height g = 0%Z -> wf [g]
| wf_cons n p l : wf l -> find (n_hash n) l = None -> n_hash n <> 0 ->
    find (n_prev n) l = Some p -> n_height n = (n_height p + 1)%Z -> n_work p < n_work n ->
    wf (n :: l).

Lemma find_some x l n : find x l = Some n -> In n l /\ n_hash n = x.
Proof.
  induction l as [|m l IH]; cbn [find]; [discriminate|].
  destruct (n_hash m =? x) eqn:E.
  - intros H; inversion H; subst. apply N.eqb_eq in E. split; [left; reflexivity|exact E].
  - intros H. destruct (IH H). split; [right; assumption|assumption].
Qed.

Lemma find_none_notin x l : find x l = None -> forall n, In n l -> n_hash n <> x.
Proof.
  induction l as [|m l IH]; cbn [find]; intros H n Hn; [destruct Hn|].
  destruct (n_hash m =? x) eqn:E; [discriminate|]. apply N.eqb_neq in E.
  destruct Hn as [->|Hn]; [exact E|exact (IH H n Hn)].
Qed.

Lemma in_find l n : In n l -> exists m, find (n_hash n) l = Some m.
Proof.
  induction l as [|m l IH]; intros Hn; [destruct Hn|]. cbn [find].
  destruct (n_hash m =? n_hash n) eqn:E; [eauto|].
  destruct Hn as [->|Hn]; [rewrite N.eqb_refl in E; discriminate|exact (IH Hn)].
Qed.

Lemma wf_nonempty l : wf l -> l <> [].
Proof. intros H; inversion H; discriminate. Qed.

Lemma wf_hash_nz l : wf l -> forall n, In n l -> n_hash n <> 0.
Proof.
  induction 1 as [g Hp Hh Hz|n p l Hw IH Hf Hnz Hpf Hh Hwk]; intros m Hm.
  - destruct Hm as [->|[]]; exact Hh.
  - destruct Hm as [->|Hm]; [exact Hnz|exact (IH m Hm)].
Qed.

(* unique hashes: find returns the node itself *)
Lemma wf_find_self l : wf l -> forall n, In n l -> find (n_hash n) l = Some n.
Proof.
  induction 1 as [g Hp Hh Hz|n p l Hw IH Hf Hnz Hpf Hh Hwk]; intros m Hm.
  - destruct Hm as [->|[]]. cbn [find]. rewrite N.eqb_refl. reflexivity.
  - cbn [find]. destruct Hm as [->|Hm]; [rewrite N.eqb_refl; reflexivity|].
    destruct (n_hash n =? n_hash m) eqn:E; [|exact (IH m Hm)].
    apply N.eqb_eq in E. exfalso. exact (find_none_notin _ _ Hf m Hm (eq_sym E)).
Qed.

(* every node is the root (prev 0, height 0) or has its parent in the list *)
Lemma wf_parent l : wf l -> forall n, In n l ->
  (n_prev n = 0 /\ n_height n = 0%Z) \/
  (exists p, find (n_prev n) l = Some p /\ n_height n = (n_height p + 1)%Z /\ n_work p < n_work n).
Proof.
  induction 1 as [g Hp Hh Hz|n p l Hw IH Hf Hnz Hpf Hh Hwk]; intros m Hm.
  - destruct Hm as [->|[]]. left; split; assumption.
  - destruct Hm as [<-|Hm].
    + right. exists p. split; [|split; assumption].
      cbn [find]. destruct (n_hash n =? n_prev n) eqn:E; [|exact Hpf].
      apply N.eqb_eq in E. rewrite <- E in Hpf. congruence.
    + destruct (IH m Hm) as [Hr|(q & Hq & Hrest)]; [left; exact Hr|].
      right. exists q. split; [|exact Hrest].
      cbn [find]. destruct (n_hash n =? n_prev m) eqn:E; [|exact Hq].
      apply N.eqb_eq in E. rewrite <- E in Hq. congruence.
Qed.

Lemma ancestors_notfound l x : find x l = None -> ancestors l x = [].
Proof.
  induction l as [|n l IH]; cbn [find ancestors]; [reflexivity|].
  destruct (n_hash n =? x); [discriminate|exact IH].
Qed.

(* the ancestor list of a known header is the header followed by its parent's ancestors *)
Lemma ancestors_step l : wf l -> forall x n, find x l = Some n ->
  ancestors l x = n :: ancestors l (n_prev n).
Proof.
  induction 1 as [g Hp Hh Hz|n p l Hw IH Hf Hnz Hpf Hh Hwk]; intros x m Hm.
  - cbn [find] in Hm. cbn [ancestors]. destruct (n_hash g =? x) eqn:E; [|discriminate].
    inversion Hm; subst m. rewrite Hp. cbn [ancestors].
    destruct (n_hash g =? 0) eqn:E0; [apply N.eqb_eq in E0; contradiction|reflexivity].
  - cbn [find] in Hm. cbn [ancestors]. destruct (n_hash n =? x) eqn:E.
    + inversion Hm; subst m.
      destruct (n_hash n =? n_prev n) eqn:E2; [|reflexivity].
      apply N.eqb_eq in E2. rewrite <- E2 in Hpf. congruence.
    + rewrite (IH x m Hm). f_equal.
      destruct (n_hash n =? n_prev m) eqn:E2; [|reflexivity].
      apply N.eqb_eq in E2. exfalso.
      destruct (find_some _ _ _ Hm) as [Hin _].
      destruct (wf_parent l Hw m Hin) as [[Hr _]|(q & Hq & _)].
      * rewrite Hr in E2. contradiction.
      * rewrite <- E2 in Hq. congruence.
Qed.

Lemma ancestors_in l x n : In n (ancestors l x) -> In n l.
Proof.
  revert x. induction l as [|m l IH]; intros x; cbn [ancestors]; [intros []|].
  destruct (n_hash m =? x).
  - intros [->|H]; [left; reflexivity|right; exact (IH _ H)].
  - intros H. right. exact (IH _ H).
Qed.

(* work grows strictly from any proper ancestor *)
Lemma ancestors_work l : wf l -> forall x n, find x l = Some n ->
  forall a, In a (ancestors l x) -> a = n \/ n_work a < n_work n.
Proof.
  induction 1 as [g Hp Hh Hz|n p l Hw IH Hf Hnz Hpf Hh Hwk]; intros x m Hm a Ha.
  - cbn [find] in Hm. cbn [ancestors] in Ha. destruct (n_hash g =? x); [|discriminate].
    inversion Hm; subst m. destruct Ha as [->|Ha]; [left; reflexivity|].
    cbn [ancestors] in Ha. destruct Ha.
  - cbn [find] in Hm. cbn [ancestors] in Ha. destruct (n_hash n =? x) eqn:E.
    + inversion Hm; subst m. destruct Ha as [->|Ha]; [left; reflexivity|].
      right. destruct (IH _ _ Hpf a Ha) as [->|Hlt]; [exact Hwk|lia].
    + exact (IH x m Hm a Ha).
Qed.

(* heights go down one by one: the ancestor list of a header at height h has h+1 elements *)
Lemma ancestors_length l : wf l -> forall x n, find x l = Some n ->
  Z.of_nat (length (ancestors l x)) = (n_height n + 1)%Z.
Proof.
  induction 1 as [g Hp Hh Hz|n p l Hw IH Hf Hnz Hpf Hh Hwk]; intros x m Hm.
  - cbn [find] in Hm. cbn [ancestors]. destruct (n_hash g =? x); [|discriminate].
    inversion Hm; subst m. cbn [ancestors length]. lia.
  - cbn [find] in Hm. cbn [ancestors]. destruct (n_hash n =? x) eqn:E.
    + inversion Hm; subst m. cbn [length]. rewrite Nat2Z.inj_succ, (IH _ _ Hpf). lia.
    + exact (IH x m Hm).
Qed.

Lemma wf_height_nonneg l : wf l -> forall n, In n l -> (0 <= n_height n)%Z.
Proof.
  induction 1 as [g Hp Hh Hz|n p l Hw IH Hf Hnz Hpf Hh Hwk]; intros m Hm.
  - destruct Hm as [<-|[]]. lia.
  - destruct Hm as [<-|Hm]; [|exact (IH m Hm)].
    destruct (find_some _ _ _ Hpf) as [Hin _]. specialize (IH p Hin). lia.
Qed.

(* the chain is linked: each element's previous hash is the element before it, it starts at the
   root (previous hash 0) and ends at x *)
Fixpoint linked_down (a : list node) : Prop :=
  match a with
  | [] => True
  | n :: rest => match rest with
                 | [] => n_prev n = 0
                 | p :: _ => n_prev n = n_hash p /\ n_height n = (n_height p + 1)%Z
                 end /\ linked_down rest
  end.

Lemma ancestors_linked l : wf l -> forall x, linked_down (ancestors l x).
Proof.
  induction 1 as [g Hp Hh Hz|n p l Hw IH Hf Hnz Hpf Hh Hwk]; intros x.
  - cbn [ancestors]. destruct (n_hash g =? x); cbn; auto.
  - cbn [ancestors]. destruct (n_hash n =? x); [|apply IH].
    cbn [linked_down]. split; [|apply IH].
    rewrite (ancestors_step l Hw _ _ Hpf).
    destruct (find_some _ _ _ Hpf) as [_ Hph]. split; [symmetry; exact Hph|exact Hh].
Qed.

Lemma ancestors_head l x n : find x l = Some n -> exists rest, ancestors l x = n :: rest.
Proof.
  induction l as [|m l IH]; cbn [find ancestors]; [discriminate|].
  destruct (n_hash m =? x); [intros H; inversion H; subst; eauto|exact IH].
Qed.

(* ---------------------------------------------------------------------------------- *)
(* filters that keep parents keep well-formedness                                      *)

Definition parent_closed (keep : node -> bool) (l : list node) : Prop :=
  forall n p, In n l -> keep n = true -> find (n_prev n) l = Some p -> keep p = true.

Lemma find_filter keep l : wf l -> forall x n, find x l = Some n -> keep n = true ->
  find x (filter keep l) = Some n.
Proof.
  induction 1 as [g Hp Hh Hz|n p l Hw IH Hf Hnz Hpf Hh Hwk]; intros x m Hm Hk.
  - cbn [find] in Hm. destruct (n_hash g =? x) eqn:E; [|discriminate]. inversion Hm; subst m.
    cbn [filter]. rewrite Hk. cbn [find]. rewrite E. reflexivity.
  - cbn [find] in Hm. cbn [filter]. destruct (n_hash n =? x) eqn:E.
    + inversion Hm; subst m. rewrite Hk. cbn [find]. rewrite E. reflexivity.
    + destruct (keep n); [cbn [find]; rewrite E|]; exact (IH x m Hm Hk).
Qed.

Lemma find_filter_none keep l x : find x l = None -> find x (filter keep l) = None.
Proof.
  induction l as [|n l IH]; cbn [find filter]; [reflexivity|].
  destruct (n_hash n =? x) eqn:E; [discriminate|]. intros H.
  destruct (keep n); [cbn [find]; rewrite E|]; exact (IH H).
Qed.

Lemma wf_last_root l : wf l -> exists g, last l g = g /\ In g l /\ n_prev g = 0 /\ n_height g = 0%Z /\
  exists l0, l = l0 ++ [g].
Proof.
  induction 1 as [g Hp Hh Hz|n p l Hw IH Hf Hnz Hpf Hh Hwk].
  - exists g. cbn. repeat split; auto. exists []. reflexivity.
  - destruct IH as (g & _ & Hin & Hp0 & Hz0 & l0 & ->).
    exists g. split; [|split; [right; exact Hin|split; [exact Hp0|split; [exact Hz0|]]]].
    + rewrite app_comm_cons. apply last_last.
    + exists (n :: l0). reflexivity.
Qed.

Lemma wf_filter keep l : wf l -> parent_closed keep l ->
  (forall g, In g l -> n_prev g = 0 -> n_height g = 0%Z -> keep g = true) ->
  wf (filter keep l).
Proof.
  induction 1 as [g Hp Hh Hz|n p l Hw IH Hf Hnz Hpf Hh Hwk]; intros Hc Hroot.
  - cbn [filter]. rewrite (Hroot g (or_introl eq_refl) Hp Hz). constructor; assumption.
  - assert (Hc' : parent_closed keep l).
    { intros m q Hm Hk Hq. apply (Hc m q (or_intror Hm) Hk).
      cbn [find]. destruct (n_hash n =? n_prev m) eqn:E; [|exact Hq].
      apply N.eqb_eq in E. rewrite <- E in Hq. congruence. }
    assert (Hroot' : forall g, In g l -> n_prev g = 0 -> n_height g = 0%Z -> keep g = true)
      by (intros g Hg; apply Hroot; right; exact Hg).
    specialize (IH Hc' Hroot').
    cbn [filter]. destruct (keep n) eqn:Hk; [|exact IH].
    assert (Hkp : keep p = true).
    { apply (Hc n p (or_introl eq_refl) Hk). cbn [find].
      destruct (n_hash n =? n_prev n) eqn:E; [|exact Hpf].
      apply N.eqb_eq in E. rewrite <- E in Hpf. congruence. }
    apply (wf_cons n p); try assumption.
    + apply find_filter_none; exact Hf.
    + apply find_filter; assumption.
Qed.

(* flag-only maps keep well-formedness *)
Lemma wf_map f l : keeps_core f -> wf l -> wf (map f l).
Proof.
  intros Hf. induction 1 as [g Hp Hh Hz|n p l Hw IH Hfn Hnz Hpf Hh Hwk]; cbn [map].
  - constructor; [rewrite keeps_core_prev|rewrite keeps_core_hash|rewrite keeps_core_height]; assumption.
  - apply (wf_cons (f n) (f p)); try assumption.
    + rewrite keeps_core_hash by exact Hf. apply find_none_map; assumption.
    + rewrite keeps_core_hash by exact Hf. exact Hnz.
    + rewrite keeps_core_prev by exact Hf. rewrite find_map by exact Hf. rewrite Hpf. reflexivity.
    + rewrite !keeps_core_height by exact Hf. exact Hh.
    + rewrite !keeps_core_work by exact Hf. exact Hwk.
Qed.
