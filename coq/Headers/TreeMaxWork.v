(* C01, full statement for histories without invalid marking: the reported tip carries the maximal
   cumulative work among ALL accepted headers, including those that have left memory. *)
From BR Require Import Base.Prelude Base.Compact Headers.Tree Headers.TreeBasics Headers.TreeInv
     Headers.TreeSteps.
Open Scope N_scope.

Definition Wl (l : list node) (t : N) : Prop := forall a, In a l -> n_work a <= work_of l t.

Definition W (s : st) : Prop :=
  Wl (nodes s) (tip s) /\
  match saved s with Some sn => Wl (sn_nodes sn) (sn_tip sn) | None => True end.

(* an admissible tip carries the maximal work of the nodes in memory *)
Lemma admissible_work l t : wf l -> admissible l t = true ->
  work_of l t = max_work_mem l /\ exists tn, find t l = Some tn /\ n_mem tn = true.
Proof.
  intros Hw Ha. apply (admissible_spec l t Hw) in Ha as (n & Hn & Hx & Hm & Hwk). subst t.
  unfold work_of. rewrite (wf_find_self l Hw n Hn). split; [exact Hwk|]. exists n. auto.
Qed.

Lemma Wl_map f l t : keeps_core f -> Wl l t -> Wl (map f l) t.
Proof.
  intros Hf H a Ha. apply in_map_iff in Ha as (a0 & <- & Ha0).
  rewrite (keeps_core_work f a0 Hf), work_of_map by exact Hf. apply H. exact Ha0.
Qed.

Definition markfree (o : op) : Prop := match o with OMark _ _ => False | _ => True end.

Lemma submit_W cfg s h pick : cfg_ok cfg -> Inv s -> op_ok s (OSubmit h pick) -> W s ->
  W (fst (submit cfg s h pick)).
Proof.
  intros Hcfg HI Hok [HW HWs]. pose proof HI as (Hw & Ha & Hc & Hs).
  unfold submit.
  destruct (negb (bits_valid (h_bits h))) eqn:Eb; [split; assumption|].
  apply negb_false_iff in Eb.
  destruct (find_mem (nodes s) (h_prev h)) as [p|] eqn:Ep; [|split; assumption].
  destruct (find_mem (nodes s) (h_hash h)) as [dup|] eqn:Ed; [split; assumption|].
  destruct (memN (h_hash h) (invalid s)); [split; assumption|].
  set (nb := has_cont_child (nodes s) (h_prev h)).
  destruct (nb && (c_maxdepth cfg <? tip_height s - n_height p)%Z); [split; assumption|].
  cbn [fst].
  set (n := mkNode h (n_height p + 1) (n_work p + work_of_bits (h_bits h)) true nb).
  assert (Hfresh : find (h_hash h) (nodes s) = None) by (eapply submit_fresh; eauto).
  destruct (find_mem_some _ _ _ Ep) as [Hpf Hpm].
  assert (Hw1 : wf (n :: nodes s)).
  { apply (wf_cons n p); try assumption; try reflexivity.
    - exact (proj1 Hok).
    - cbn [n n_work]. pose proof (work_of_bits_pos _ Eb). lia. }
  assert (Hex : exists m, In m (n :: nodes s) /\ n_mem m = true)
    by (exists n; split; [left; reflexivity|reflexivity]).
  pose proof (choose_tip_admissible (n :: nodes s) (tip s) pick Hw1 Hex) as Ha1.
  set (t1 := choose_tip (n :: nodes s) (tip s) pick) in *.
  (* the new tip carries the maximum over memory, which includes the old tip and the new node *)
  destruct (admissible_work _ _ Hw1 Ha1) as [Hmax _].
  destruct (admissible_work _ _ Hw Ha) as [Hold (T & HT & HTm)].
  assert (HWl1 : Wl (n :: nodes s) t1).
  { intros a [<-|Ha0].
    - rewrite Hmax. apply max_work_mem_ge; [left; reflexivity|reflexivity].
    - specialize (HW a Ha0). rewrite Hmax.
      assert (HTin : In T (n :: nodes s)) by (right; exact (proj1 (find_some _ _ _ HT))).
      pose proof (max_work_mem_ge (n :: nodes s) T HTin HTm) as Hge.
      unfold work_of in HW. rewrite HT in HW. lia. }
  destruct (negb nb && (t1 =? h_hash h) && (0 <? c_autoclean cfg)%Z &&
            ((n_height p + 1) mod c_autoclean cfg =? 0)%Z); split; cbn [nodes tip saved].
  - rewrite clean_nodes_eq. apply Wl_map; [apply clean_f_core|exact HWl1].
  - exact HWs.
  - exact HWl1.
  - exact HWs.
Qed.

Lemma clean_W s d : W s -> W (fst (clean s d)).
Proof.
  intros [HW HWs]. unfold clean. split; cbn [fst nodes tip saved]; [|exact HWs].
  rewrite clean_nodes_eq. apply Wl_map; [apply clean_f_core|exact HW].
Qed.

Lemma save_W s : W s -> W (fst (save s)).
Proof.
  intros [HW HWs]. unfold save. cbn [fst]. split; cbn [nodes tip saved sn_nodes sn_tip];
    rewrite consolidate_eq; apply Wl_map; try apply consolidate_f_core; exact HW.
Qed.

Lemma load_W s d pick : Inv s -> (0 <= d)%Z -> W s -> W (fst (load s d pick)).
Proof.
  intros HI Hd [HW HWs]. pose proof HI as (Hw & Ha & Hc & Hs). unfold load.
  destruct (saved s) as [sn|] eqn:Es; [|split; [exact HW|cbn [fst]; rewrite Es; exact I]]. cbn [fst].
  destruct Hs as [Hws [tn Htn]].
  set (l := sn_nodes sn) in *. set (t := sn_tip sn) in *.
  set (main := chain_of l t). set (p := (height_of l t - d)%Z).
  assert (Hwf : wf (filter (load_keep l main p) l)).
  { apply wf_filter; [exact Hws|apply load_keep_closed; exact Hws|].
    intros g Hg Hgp _. unfold load_keep. unfold main. rewrite on_chain_is_anc.
    rewrite (root_is_anc l Hws t tn Htn g Hg Hgp). reflexivity. }
  assert (Hw1 : wf (load_nodes sn d)).
  { rewrite load_nodes_eq. cbv zeta. apply wf_map; [apply load_f_core|exact Hwf]. }
  destruct (find_some _ _ _ Htn) as [Htin Hth].
  assert (Htmain : on_chain main tn = true).
  { unfold main. rewrite on_chain_is_anc, Hth. exact (is_anc_self l Hws t tn Htn). }
  assert (Htl : In (load_f main p tn) (load_nodes sn d) /\ n_mem (load_f main p tn) = true).
  { split.
    - rewrite load_nodes_eq. cbv zeta. apply in_map. apply filter_In. split; [exact Htin|].
      unfold load_keep. fold l t main. rewrite Htmain. reflexivity.
    - unfold load_f. rewrite Htmain. cbn [n_mem]. apply Z.leb_le. unfold p, height_of.
      fold l t. rewrite Htn. lia. }
  assert (Hex : exists m, In m (load_nodes sn d) /\ n_mem m = true) by (eexists; exact Htl).
  pose proof (choose_tip_admissible (load_nodes sn d) t pick Hw1 Hex) as Ha1.
  destruct (admissible_work _ _ Hw1 Ha1) as [Hmax _].
  split; cbn [nodes tip saved]; [|exact HWs].
  intros a Ha0. rewrite Hmax.
  (* the saved tip is loaded into memory; every loaded node is a saved node *)
  pose proof (max_work_mem_ge _ _ (proj1 Htl) (proj2 Htl)) as Hge.
  rewrite (keeps_core_work _ tn (load_f_core main p)) in Hge.
  rewrite load_nodes_eq in Ha0. cbv zeta in Ha0. apply in_map_iff in Ha0 as (a0 & <- & Ha0).
  apply filter_In in Ha0 as [Ha0 _].
  rewrite (keeps_core_work _ a0 (load_f_core _ _)).
  specialize (HWs a0 Ha0). unfold work_of in HWs. fold l t in HWs. rewrite Htn in HWs. lia.
Qed.

Lemma unmark_W s x : W s -> W (fst (unmark s x)).
Proof. intros [HW HWs]. unfold unmark. destruct (memN x (invalid s)); split; assumption. Qed.

Theorem step_W cfg s o : cfg_ok cfg -> Inv s -> op_ok s o -> markfree o -> W s -> W (fst (step cfg s o)).
Proof.
  intros Hcfg HI Hok Hmf HW. destruct o; cbn [step].
  - apply submit_W; assumption.
  - destruct Hmf.
  - apply unmark_W; exact HW.
  - apply clean_W; exact HW.
  - apply save_W; exact HW.
  - apply load_W; assumption.
  - exact HW.
  - exact HW.
  - exact HW.
Qed.

Theorem run_W cfg ops : cfg_ok cfg -> forall s, Inv s -> ops_ok cfg s ops -> Forall markfree ops -> W s ->
  W (fst (run cfg s ops)).
Proof.
  intros Hcfg. induction ops as [|o ops IH]; intros s HI Hok Hmf HW; cbn [run]; [exact HW|].
  inversion Hmf as [|? ? Hm1 Hm2]; subst.
  cbn [ops_ok] in Hok. destruct Hok as [Ho Hrest].
  pose proof (step_inv cfg s o Hcfg HI Ho) as HI1.
  pose proof (step_W cfg s o Hcfg HI Ho Hm1 HW) as HW1.
  destruct (step cfg s o) as [s1 r] eqn:E. cbn [fst] in *.
  specialize (IH s1 HI1 Hrest Hm2 HW1). destruct (run cfg s1 ops) as [s2 rs]. exact IH.
Qed.

Lemma init_W g : W (init g).
Proof.
  split; [|exact I]. intros a [<-|[]]. unfold init, work_of. cbn [nodes tip find genesis_node n_hash n_hdr].
  rewrite N.eqb_refl. cbn. lia.
Qed.

(* every accepted header still held by the repository - in memory or not - carries at most the
   work of the reported tip *)
Theorem max_work_all cfg g ops : cfg_ok cfg -> genesis_ok g -> ops_ok cfg (init g) ops ->
  Forall markfree ops ->
  let s := fst (run cfg (init g) ops) in
  forall a, In a (nodes s) -> n_work a <= work_of (nodes s) (tip s).
Proof.
  intros Hcfg Hg Hok Hmf s.
  exact (proj1 (run_W cfg ops Hcfg (init g) (init_inv g Hg) Hok Hmf (init_W g))).
Qed.
