(* Finality of pruned history: a header that has left memory stays in the repository, stays out
   of memory and stays on the best chain, whatever is submitted, marked or cleaned afterwards
   (until a Load replaces the state by what was saved).  This is why the main header files - the
   only record of heights below the memory window - never have to be revised by a reorganisation,
   and what C10 means by "history dropped from memory remains retrievable". *)
From BR Require Import Base.Prelude Base.Compact Headers.Tree Headers.TreeBasics Headers.TreeInv
     Headers.TreeSteps Headers.TreeHorizon.
Open Scope N_scope.

Definition not_load (o : op) : Prop := match o with OLoad _ _ => False | _ => True end.

Lemma nonmem_kept_map f l a : keeps_core f -> (forall n, n_mem (f n) = true -> n_mem n = true) ->
  In a l -> n_mem a = false -> exists a', In a' (map f l) /\ core a' = core a /\ n_mem a' = false.
Proof.
  intros Hf Hm Ha Hma. exists (f a). split; [apply in_map; exact Ha|]. split; [apply Hf|].
  destruct (n_mem (f a)) eqn:E; [|reflexivity]. rewrite (Hm a E) in Hma. discriminate.
Qed.

Lemma nonmem_persists cfg s o a : cfg_ok cfg -> Inv s -> K (nodes s) -> op_ok s o -> not_load o ->
  In a (nodes s) -> n_mem a = false ->
  exists a', In a' (nodes (fst (step cfg s o))) /\ core a' = core a /\ n_mem a' = false.
Proof.
  intros Hcfg HI HK Hok Hnl Ha Hma. pose proof HI as (Hw & Hadm & Hc & Hs).
  assert (Hid : exists a', In a' (nodes s) /\ core a' = core a /\ n_mem a' = false) by (exists a; auto).
  destruct o; cbn [step].
  - (* submit *)
    unfold submit.
    destruct (negb (bits_valid (h_bits h))); [exact Hid|].
    destruct (find_mem (nodes s) (h_prev h)) as [p|]; [|exact Hid].
    destruct (find_mem (nodes s) (h_hash h)); [exact Hid|].
    destruct (memN (h_hash h) (invalid s)); [exact Hid|].
    destruct (has_cont_child (nodes s) (h_prev h) && (c_maxdepth cfg <? tip_height s - n_height p)%Z); [exact Hid|].
    cbn [fst].
    match goal with |- context [if ?c then clean_nodes ?l1 ?t1 ?d else ?l1] => destruct c; cbn [nodes] end.
    + rewrite clean_nodes_eq. apply nonmem_kept_map; [apply clean_f_core|apply clean_f_mem_le|right; exact Ha|exact Hma].
    + exists a. split; [right; exact Ha|auto].
  - (* mark: a header out of memory is never a descendant of a marked in-memory header *)
    unfold mark. destruct (memN x (invalid s)); [exact Hid|].
    destruct (find_mem (nodes s) x) as [xn|] eqn:Ex; cbn [fst nodes]; [|exact Hid].
    exists a. split; [|auto]. apply filter_In. split; [exact Ha|].
    destruct (is_anc (nodes s) x (n_hash a)) eqn:E; [|reflexivity]. exfalso.
    destruct (find_mem_some _ _ _ Ex) as [Hxf Hxm]. destruct (find_some _ _ _ Hxf) as [Hxin Hxh].
    (* x is an ancestor of a, and a (out of memory) is an ancestor of x (in memory): same header *)
    pose proof (horizon_ancestor _ Hw HK a xn Ha Hxin Hma Hxm) as Hax.
    apply is_anc_spec in E as (x0 & Hx0 & Hx0h).
    assert (x0 = xn).
    { pose proof (wf_find_self _ Hw x0 (ancestors_in _ _ _ Hx0)) as H1. rewrite Hx0h, Hxf in H1. congruence. }
    subst x0.
    destruct (ancestors_height _ Hw _ _ (wf_find_self _ Hw a Ha) xn Hx0) as [Heq|Hlt1]; [subst; congruence|].
    destruct (ancestors_height _ Hw _ _ (wf_find_self _ Hw xn Hxin) a Hax) as [Heq|Hlt2]; [subst; congruence|].
    lia.
  - unfold unmark. destruct (memN x (invalid s)); exact Hid.
  - unfold clean. cbn [fst nodes]. rewrite clean_nodes_eq.
    apply nonmem_kept_map; [apply clean_f_core|apply clean_f_mem_le|exact Ha|exact Hma].
  - unfold save. cbn [fst nodes]. rewrite consolidate_eq.
    apply nonmem_kept_map; [apply consolidate_f_core|intros n; rewrite consolidate_f_mem; auto|exact Ha|exact Hma].
  - destruct Hnl.
  - exact Hid.
  - exact Hid.
  - exact Hid.
Qed.

Fixpoint all_not_load (ops : list op) : Prop :=
  match ops with [] => True | o :: r => not_load o /\ all_not_load r end.

Theorem pruned_history_final cfg ops : cfg_ok cfg -> forall s, Inv s -> K (nodes s) -> ops_ok cfg s ops ->
  all_not_load ops -> forall a, In a (nodes s) -> n_mem a = false ->
  let s' := fst (run cfg s ops) in
  exists a', In a' (nodes s') /\ core a' = core a /\ n_mem a' = false /\
             is_anc (nodes s') (n_hash a) (tip s') = true.
Proof.
  intros Hcfg. induction ops as [|o ops IH]; intros s HI HK Hok Hnl a Ha Hma; cbn [run].
  - exists a. repeat split; auto. cbn [fst].
    pose proof HI as (Hw & Hadm & _). apply (admissible_spec _ _ Hw) in Hadm as (T & HT & HTh & HTm & _).
    apply is_anc_spec. exists a. split; [|reflexivity]. rewrite <- HTh.
    exact (horizon_ancestor _ Hw HK a T Ha HT Hma HTm).
  - cbn [ops_ok] in Hok. destruct Hok as [Ho Hrest]. destruct Hnl as [Hn1 Hn2].
    destruct (nonmem_persists cfg s o a Hcfg HI HK Ho Hn1 Ha Hma) as (a1 & Ha1 & Hc1 & Hm1).
    pose proof (step_inv cfg s o Hcfg HI Ho) as HI1.
    pose proof (step_K cfg s o Hcfg HI Ho HK) as HK1.
    destruct (step cfg s o) as [s1 r] eqn:E. cbn [fst] in *.
    destruct (IH s1 HI1 HK1 Hrest Hn2 a1 Ha1 Hm1) as (a' & H1 & H2 & H3 & H4).
    destruct (run cfg s1 ops) as [s2 rs]. cbn [fst] in *.
    exists a'. repeat split; auto; try congruence.
    assert (n_hash a1 = n_hash a) by (unfold core in Hc1; unfold n_hash; congruence).
    rewrite <- H. exact H4.
Qed.
