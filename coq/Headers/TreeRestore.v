(* C11: what Save;Load(depth) restores beyond the best chain - every side tree whose root lies
   above the load horizon comes back whole, held in memory; the others are dropped whole. *)
From BR Require Import Base.Prelude Base.Compact Headers.Tree Headers.TreeBasics Headers.TreeInv
     Headers.TreeSteps Headers.TreeProps.
Open Scope N_scope.

(* the load horizon of a state: tip height - depth *)
Definition load_horizon (s : st) (d : Z) : Z := (tip_height s - d)%Z.

(* height of the root of the side tree a header belongs to (-1 for best-chain headers) *)
Definition side_root (s : st) (x : N) : Z := side_root_height (nodes s) (chain_of (nodes s) (tip s)) x.

Lemma srh_map f l main x : keeps_core f -> side_root_height (map f l) main x = side_root_height l main x.
Proof.
  intros Hf. rewrite !side_root_height_eq, ancestors_map by exact Hf.
  generalize (-1)%Z. induction (ancestors l x) as [|a A IH]; intros acc; cbn [map fold_left]; [reflexivity|].
  rewrite IH. f_equal. unfold srh_step. rewrite (keeps_core_hash f a Hf), (keeps_core_height f a Hf). reflexivity.
Qed.

Theorem side_trees_restored s d pick n : Inv s -> (0 <= d)%Z -> In n (nodes s) ->
  let s2 := fst (load (fst (save s)) d pick) in
  (* kept iff on the best chain or rooted above the horizon *)
  (is_anc (nodes s) (n_hash n) (tip s) = true \/ (load_horizon s d < side_root s (n_hash n))%Z ->
     exists n2, find (n_hash n) (nodes s2) = Some n2 /\ core n2 = core n /\
                (is_anc (nodes s) (n_hash n) (tip s) = false -> n_mem n2 = true)) /\
  (is_anc (nodes s) (n_hash n) (tip s) = false -> (side_root s (n_hash n) <= load_horizon s d)%Z ->
     find (n_hash n) (nodes s2) = None).
Proof.
  intros HI Hd Hn. cbv zeta. pose proof HI as (Hw & _ & _ & _).
  unfold load, save; cbn [fst saved nodes tip]. rewrite load_nodes_eq. cbv zeta. cbn [sn_nodes sn_tip].
  set (cf := consolidate_f (chain_of (nodes s) (tip s))).
  set (l1 := consolidate (nodes s) (tip s)).
  assert (Hl1 : l1 = map cf (nodes s)) by reflexivity.
  assert (Hcf : keeps_core cf) by apply consolidate_f_core.
  assert (Hw1 : wf l1) by (rewrite Hl1; apply wf_map; assumption).
  set (main := chain_of l1 (tip s)). set (p := (height_of l1 (tip s) - d)%Z).
  assert (Hmain : main = chain_of (nodes s) (tip s)) by (unfold main; rewrite Hl1; apply chain_of_map; exact Hcf).
  assert (Hp : p = load_horizon s d).
  { unfold p, load_horizon, tip_height. rewrite Hl1, height_of_map by exact Hcf. reflexivity. }
  assert (Hin1 : In (cf n) l1) by (rewrite Hl1; apply in_map; exact Hn).
  assert (Hfind1 : find (n_hash n) l1 = Some (cf n)).
  { rewrite <- (keeps_core_hash cf n Hcf). apply wf_find_self; assumption. }
  assert (Hkeep : load_keep l1 main p (cf n) =
                  is_anc (nodes s) (n_hash n) (tip s) || (load_horizon s d <? side_root s (n_hash n))%Z).
  { unfold load_keep. rewrite (on_chain_core _ _ n Hcf). unfold main at 1.
    rewrite Hl1, chain_of_map by exact Hcf. rewrite on_chain_is_anc.
    rewrite (keeps_core_hash cf n Hcf), Hp. unfold side_root. rewrite Hmain, srh_map by exact Hcf. reflexivity. }
  split.
  - intros Hcond.
    assert (Hk : load_keep l1 main p (cf n) = true).
    { rewrite Hkeep. destruct Hcond as [->|Hlt]; [reflexivity|]. apply Z.ltb_lt in Hlt. rewrite Hlt. apply orb_true_r. }
    exists (load_f main p (cf n)). split; [|split].
    + rewrite find_map by apply load_f_core.
      rewrite (find_filter _ l1 Hw1 (n_hash n) (cf n) Hfind1 Hk). reflexivity.
    + rewrite load_f_core. apply Hcf.
    + intros Hoff. unfold load_f. rewrite (on_chain_core _ _ n Hcf). unfold main.
      rewrite Hl1, chain_of_map by exact Hcf. rewrite on_chain_is_anc, Hoff. reflexivity.
  - intros Hoff Hle. rewrite find_map by apply load_f_core.
    assert (Hk : load_keep l1 main p (cf n) = false).
    { rewrite Hkeep, Hoff. cbn [orb]. apply Z.ltb_ge. exact Hle. }
    destruct (find (n_hash n) (filter (load_keep l1 main p) l1)) as [q|] eqn:E; [|reflexivity].
    exfalso. pose proof (find_filter_some _ _ Hw1 _ _ E) as Hq. rewrite Hfind1 in Hq. inversion Hq; subst q.
    destruct (find_some _ _ _ E) as [Hqin _]. apply filter_In in Hqin as [_ Hqk]. congruence.
Qed.

(* ---------------------------------------------------------------------------------------- *)
(* C10: Clean takes only best-chain headers out of memory, and none at or above the parent of an
   in-memory side-tree header - so every side branch can still be extended (its headers are in
   memory) and new forks can still start where forks already start (the fork points are too) *)
From BR Require Import Headers.TreeHorizon.

Theorem clean_keeps_side_trees s d n : Inv s -> In n (nodes s) -> n_mem n = true ->
  is_anc (nodes s) (n_hash n) (tip s) = false ->
  exists n', find (n_hash n) (nodes (fst (clean s d))) = Some n' /\ n_mem n' = true /\ core n' = core n.
Proof.
  intros (Hw & _) Hn Hm Hoff. unfold clean. cbn [fst nodes]. rewrite clean_nodes_eq.
  exists (clean_f (nodes s) (tip s) d n). split; [|split].
  - rewrite find_map by apply clean_f_core. rewrite (wf_find_self _ Hw n Hn). reflexivity.
  - rewrite clean_f_mem, Hoff. exact Hm.
  - apply clean_f_core.
Qed.

Theorem clean_keeps_fork_points s d c q : Inv s -> In c (nodes s) -> n_mem c = true ->
  is_anc (nodes s) (n_hash c) (tip s) = false -> find (n_prev c) (nodes s) = Some q -> n_mem q = true ->
  exists q', find (n_hash q) (nodes (fst (clean s d))) = Some q' /\ n_mem q' = true /\ core q' = core q.
Proof.
  intros (Hw & _) Hc Hm Hoff Hq Hqm. unfold clean. cbn [fst nodes]. rewrite clean_nodes_eq.
  destruct (find_some _ _ _ Hq) as [Hqin Hqh].
  exists (clean_f (nodes s) (tip s) d q). split; [|split].
  - rewrite find_map by apply clean_f_core. rewrite (wf_find_self _ Hw q Hqin). reflexivity.
  - rewrite clean_f_mem. destruct (is_anc (nodes s) (n_hash q) (tip s)); [|exact Hqm].
    rewrite Hqm. cbn [andb]. apply Z.leb_le.
    set (l := nodes s) in *. set (t := tip s) in *.
    assert (Hin : In (consolidate_f (chain_of l t) c) (consolidate l t)) by (rewrite consolidate_eq; apply in_map; exact Hc).
    pose proof (prune_height_side (consolidate l t) t d _ Hin) as H.
    rewrite consolidate_f_mem in H. specialize (H Hm).
    rewrite consolidate_eq, chain_of_map in H by apply consolidate_f_core.
    rewrite (on_chain_core _ _ c (consolidate_f_core (chain_of l t))), on_chain_is_anc in H.
    specialize (H Hoff). rewrite (keeps_core_height _ c (consolidate_f_core (chain_of l t))) in H.
    destruct (wf_parent l Hw c Hc) as [[Hr _]|(q0 & Hq0 & Hh & _)].
    + rewrite Hr in Hq. destruct (find_some _ _ _ Hq) as [Hz Hz0]. exfalso. exact (wf_hash_nz l Hw q Hz Hz0).
    + rewrite Hq in Hq0. inversion Hq0; subst q0. rewrite consolidate_eq. lia.
  - apply clean_f_core.
Qed.
