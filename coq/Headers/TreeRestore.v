(* C11: what Save;Load(depth) restores beyond the best chain - every side tree whose root lies
   above the load horizon comes back whole, held in memory; the others are dropped whole. *)
From BR Require Import Base.Prelude Base.Compact Headers.Tree Headers.TreeBasics Headers.TreeInv
     Headers.TreeSteps Headers.TreeProps.
Open Scope N_scope.

(* the load horizon of a state: tip height - depth *)
Definition load_horizon (s : st) (d : Z) : Z := (tip_height s - d)%Z.

(* height of the root of the side tree a header belongs to (-1 for best-chain headers) *)
Definition side_root (s : st) (x : N) : Z := side_root_height (nodes s) (chain_of (nodes s) (tip s)) x.

Lemma srh_map f l main x : keeps_core f -> side_root_height (map f l) main x = side_root_height l main x.
Proof.
  intros Hf. rewrite !side_root_height_eq, ancestors_map by exact Hf.
  generalize (-1)%Z. induction (ancestors l x) as [|a A IH]; intros acc; cbn [map fold_left]; [reflexivity|].
  rewrite IH. f_equal. unfold srh_step. rewrite (keeps_core_hash f a Hf), (keeps_core_height f a Hf). reflexivity.
Qed.

Theorem side_trees_restored s d pick n : Inv s -> (0 <= d)%Z -> In n (nodes s) ->
  let s2 := fst (load (fst (save s)) d pick) in
  (* kept iff on the best chain or rooted above the horizon *)
  (is_anc (nodes s) (n_hash n) (tip s) = true \/ (load_horizon s d < side_root s (n_hash n))%Z ->
     exists n2, find (n_hash n) (nodes s2) = Some n2 /\ core n2 = core n /\
                (is_anc (nodes s) (n_hash n) (tip s) = false -> n_mem n2 = true)) /\
  (is_anc (nodes s) (n_hash n) (tip s) = false -> (side_root s (n_hash n) <= load_horizon s d)%Z ->
     find (n_hash n) (nodes s2) = None).
Proof.
  intros HI Hd Hn. cbv zeta. pose proof HI as (Hw & _ & _ & _).
  unfold load, save; cbn [fst saved nodes tip]. rewrite load_nodes_eq. cbv zeta. cbn [sn_nodes sn_tip].
  set (cf := consolidate_f (chain_of (nodes s) (tip s))).
  set (l1 := consolidate (nodes s) (tip s)).
  assert (Hl1 : l1 = map cf (nodes s)) by reflexivity.
  assert (Hcf : keeps_core cf) by apply consolidate_f_core.
  assert (Hw1 : wf l1) by (rewrite Hl1; apply wf_map; assumption).
  set (main := chain_of l1 (tip s)). set (p := (height_of l1 (tip s) - d)%Z).
  assert (Hmain : main = chain_of (nodes s) (tip s)) by (unfold main; rewrite Hl1; apply chain_of_map; exact Hcf).
  assert (Hp : p = load_horizon s d).
  { unfold p, load_horizon, tip_height. rewrite Hl1, height_of_map by exact Hcf. reflexivity. }
  assert (Hin1 : In (cf n) l1) by (rewrite Hl1; apply in_map; exact Hn).
  assert (Hfind1 : find (n_hash n) l1 = Some (cf n)).
  { rewrite <- (keeps_core_hash cf n Hcf). apply wf_find_self; assumption. }
  assert (Hkeep : load_keep l1 main p (cf n) =
                  is_anc (nodes s) (n_hash n) (tip s) || (load_horizon s d <? side_root s (n_hash n))%Z).
  { unfold load_keep. rewrite (on_chain_core _ _ n Hcf). unfold main at 1.
    rewrite Hl1, chain_of_map by exact Hcf. rewrite on_chain_is_anc.
    rewrite (keeps_core_hash cf n Hcf), Hp. unfold side_root. rewrite Hmain, srh_map by exact Hcf. reflexivity. }
  split.
  - intros Hcond.
    assert (Hk : load_keep l1 main p (cf n) = true).
    { rewrite Hkeep. destruct Hcond as [->|Hlt]; [reflexivity|]. apply Z.ltb_lt in Hlt. rewrite Hlt. apply orb_true_r. }
    exists (load_f main p (cf n)). split; [|split].
    + rewrite find_map by apply load_f_core.
      rewrite (find_filter _ l1 Hw1 (n_hash n) (cf n) Hfind1 Hk). reflexivity.
    + rewrite load_f_core. apply Hcf.
    + intros Hoff. unfold load_f. rewrite (on_chain_core _ _ n Hcf). unfold main.
      rewrite Hl1, chain_of_map by exact Hcf. rewrite on_chain_is_anc, Hoff. reflexivity.
  - intros Hoff Hle. rewrite find_map by apply load_f_core.
    assert (Hk : load_keep l1 main p (cf n) = false).
    { rewrite Hkeep, Hoff. cbn [orb]. apply Z.ltb_ge. exact Hle. }
    destruct (find (n_hash n) (filter (load_keep l1 main p) l1)) as [q|] eqn:E; [|reflexivity].
    exfalso. pose proof (find_filter_some _ _ Hw1 _ _ E) as Hq. rewrite Hfind1 in Hq. inversion Hq; subst q.
    destruct (find_some _ _ _ E) as [Hqin _]. apply filter_In in Hqin as [_ Hqk]. congruence.
Qed.
