From BR Require Import Base.Prelude Base.Compact Headers.Tree Headers.TreeBasics Headers.TreeInv Headers.Crash.
Open Scope N_scope.

(* what the decider's "linked" means *)
Inductive Linked (l : list node) : N -> list N -> Prop :=
| Linked_nil p : Linked l p []
| Linked_cons p x rest n : find x l = Some n -> n_prev n = p -> Linked l x rest -> Linked l p (x :: rest).

Lemma linked_sound l : forall chain p, linked l p chain = true -> Linked l p chain.
Proof.
  induction chain as [|x rest IH]; intros p H; [constructor|].
  cbn [linked] in H. destruct (find x l) as [n|] eqn:E; [|discriminate].
  apply andb_true_iff in H. destruct H as [H1 H2]. apply N.eqb_eq in H1.
  econstructor; eauto.
Qed.

(* soundness of the decider: an accepted observation is a successful Load whose chain starts at
   genesis, is linked header to header through accepted headers, and whose tip carries at least
   the work of the last completed Save (and exactly the work the model has for that header) *)
Theorem crash_ok_sound g s o : crash_ok g s o = true ->
  co_ok o = true /\
  exists rest, co_chain o = g :: rest /\ Linked (nodes s) g rest /\
               work_of (nodes s) (last (co_chain o) 0) = co_work o /\ saved_work s <= co_work o.
Proof.
  unfold crash_ok. intros H. apply andb_true_iff in H. destruct H as [Hok H]. split; [exact Hok|].
  destruct (co_chain o) as [|x rest] eqn:E; [discriminate|].
  apply andb_true_iff in H. destruct H as [H Hw]. apply andb_true_iff in H. destruct H as [Hx Hl].
  apply andb_true_iff in Hw. destruct Hw as [Hw1 Hw2].
  apply N.eqb_eq in Hx. subst x. exists rest. split; [reflexivity|].
  split; [apply linked_sound; exact Hl|]. split; [apply N.eqb_eq; exact Hw1|apply N.leb_le; exact Hw2].
Qed.

(* a linked chain from genesis is the ancestry of its last element: in a well-formed tree the
   accepted chain the loaded repository reports is exactly what the model calls the chain of
   that header *)
Lemma linked_last_known l : forall chain p x, Linked l p (chain ++ [x]) -> find x l <> None.
Proof.
  induction chain as [|y chain IH]; intros p x H; cbn [app] in H; inversion H; subst.
  - congruence.
  - eapply IH; eauto.
Qed.

Lemma last_cons_default (x : N) r : forall d, last (x :: r) d = last r x.
Proof.
  revert x. induction r as [|y r IH]; intros x d; [reflexivity|].
  change (last (x :: y :: r) d) with (last (y :: r) d). rewrite (IH y d), (IH y x). reflexivity.
Qed.

(* a linked chain is the model's own chain: in a well-formed tree, the chain of the last element
   is the chain of the first followed by the rest *)
Lemma linked_extends l : wf l -> forall rest p np, find p l = Some np -> Linked l p rest ->
  chain_of l (last rest p) = chain_of l p ++ rest.
Proof.
  intros Hw. induction rest as [|x r IH]; intros p np Hp HL.
  - cbn. rewrite app_nil_r. reflexivity.
  - inversion HL as [|p' x' r' n Hx Hprev HL']; subst.
    specialize (IH x n Hx HL').
    assert (Hl := last_cons_default x r).
    rewrite Hl.
    rewrite IH. unfold chain_of. rewrite (ancestors_step l Hw x n Hx). cbn [map rev].
    destruct (find_some x l n Hx) as [_ Hh]. rewrite Hh. rewrite <- app_assoc. reflexivity.
Qed.

Theorem linked_is_chain_of l g ng rest : wf l -> find g l = Some ng -> n_prev ng = 0 ->
  Linked l g rest -> chain_of l (last rest g) = g :: rest.
Proof.
  intros Hw Hg Hroot HL. rewrite (linked_extends l Hw rest g ng Hg HL).
  unfold chain_of. rewrite (ancestors_step l Hw g ng Hg), Hroot.
  rewrite ancestors_notfound.
  - cbn. destruct (find_some g l ng Hg) as [_ Hh]. rewrite Hh. reflexivity.
  - destruct (find 0 l) as [z|] eqn:E; [|reflexivity].
    destruct (find_some 0 l z E) as [Hin Hz]. exfalso. exact (wf_hash_nz l Hw z Hin Hz).
Qed.

(* the splice at the load horizon *)
Lemma listN_eqb'_eq a : forall b, listN_eqb' a b = true -> a = b.
Proof.
  induction a as [|x a IH]; intros [|y b] H; cbn in H; try discriminate; [reflexivity|].
  apply andb_true_iff in H. destruct H as [H1 H2]. apply N.eqb_eq in H1. subst. f_equal. apply IH. exact H2.
Qed.

(* if the file history agrees with the chain under the index below the horizon, what Load reports
   is that chain - every crash image is then as sound as an uninterrupted run *)
Theorem splice_sound hist mem p : agree_below hist mem p = true -> splice hist mem p = mem.
Proof.
  unfold agree_below, splice. intros H. apply listN_eqb'_eq in H. rewrite H. apply firstn_skipn.
Qed.

(* ... and if it does not, the reported chain is a splice of two different chains (D27) *)
Theorem splice_refuted : exists hist mem p, agree_below hist mem p = false /\ splice hist mem p <> mem /\
  splice hist mem p <> hist.
Proof. exists [1; 11; 12; 13], [1; 2; 3; 4; 6; 8], 3%nat. repeat split; vm_compute; congruence. Qed.
