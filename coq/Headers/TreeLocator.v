(* C18 / C19 theorems on the tree model: merkle-proof verification and header locators. *)
From BR Require Import Base.Prelude Base.Compact Headers.Tree Headers.TreeBasics Headers.TreeInv
     Headers.TreeSteps Headers.TreeStream Headers.TreeProps Blocks.Merkle.
Open Scope N_scope.

(* ---------------------------------------------------------------------------------- *)
(* C18                                                                                  *)

Theorem verify_sound s x wh ok h f : Inv s -> verify_proof s x wh ok = RVerify true h f ->
  ok = true /\
  exists n, find x (nodes s) = Some n /\ h = n_height n /\
            (f = true <-> In x (chain_of (nodes s) (tip s))) /\
            (wh = false -> n_mem n = true \/ In x (chain_of (nodes s) (tip s))).
Proof.
  intros HI. unfold verify_proof.
  destruct (find x (nodes s)) as [n|] eqn:En.
  - pose proof (lookup_known s x n HI En) as (H1 & _ & H3 & H4 & H5 & _ & H7). cbv zeta in *.
    destruct ((if wh then lk_ck_ok (lookup_of s x) else lk_get_ok (lookup_of s x)) && ok) eqn:E; [|discriminate].
    intros H; inversion H; subst. apply andb_true_iff in E as [E1 E2].
    split; [exact E2|]. exists n. split; [reflexivity|]. split; [exact H4|]. split; [exact H5|].
    intros ->. exact (H7 E1).
  - rewrite (lookup_unknown s x En). cbn. destruct wh; cbn; discriminate.
Qed.

Theorem verify_unknown_fails s x wh ok : find x (nodes s) = None ->
  verify_proof s x wh ok = RVerify false (-1) false.
Proof. intros H. unfold verify_proof. rewrite (lookup_unknown s x H). destruct wh; reflexivity. Qed.

Theorem verify_bad_path_fails s x wh : verify_proof s x wh false = RVerify false (-1) false.
Proof. unfold verify_proof. rewrite andb_false_r. reflexivity. Qed.

(* binding of the root recomputation, relative to an injective node hash *)
Section Binding.
  Variable H : N -> N -> N.
  Hypothesis H_inj : forall a b c d, H a b = H c d -> a = c /\ b = d.

  Theorem calc_root_binds_leaf : forall p i x y, calc_root H x p i = calc_root H y p i -> x = y.
  Proof.
    induction p as [|s p IH]; intros i x y E; cbn [calc_root] in E; [exact E|].
    apply IH in E. destruct (Nat.even i); apply H_inj in E; tauto.
  Qed.

  Theorem calc_root_binds_path : forall p q i x, length p = length q ->
    calc_root H x p i = calc_root H x q i -> p = q.
  Proof.
    induction p as [|s p IH]; intros q i x Hl E; destruct q as [|t q]; try discriminate; [reflexivity|].
    cbn [calc_root length] in *.
    assert (Hlen : length p = length q) by lia.
    (* first show the two intermediate values agree, by binding of the leaf through the rest *)
    assert (Hpq : forall p q i a b, length p = length q -> calc_root H a p i = calc_root H b q i -> a = b /\ p = q).
    { clear - H_inj. intros p. induction p as [|s p IHp]; intros q i a b Hl E; destruct q as [|t q]; try discriminate.
      - auto.
      - cbn [calc_root length] in *. assert (Hl' : length p = length q) by lia.
        destruct (IHp q (Nat.div2 i) _ _ Hl' E) as [E1 E2]. subst q.
        destruct (Nat.even i); apply H_inj in E1; destruct E1; subst; auto. }
    destruct (Hpq p q (Nat.div2 i) _ _ Hlen E) as [E1 E2]. subst q.
    destruct (Nat.even i); apply H_inj in E1; destruct E1; subst; reflexivity.
  Qed.
End Binding.

(* ---------------------------------------------------------------------------------- *)
(* C19                                                                                  *)

Lemma dedupN_nodup l : forall seen, NoDup (dedupN seen l) /\ (forall x, In x (dedupN seen l) -> In x l /\ memN x seen = false).
Proof.
  induction l as [|a r IH]; intros seen; cbn [dedupN]; [split; [constructor|intros x []]|].
  destruct (memN a seen) eqn:E.
  - destruct (IH seen) as [H1 H2]. split; [exact H1|]. intros x Hx. destruct (H2 x Hx). split; [right|]; assumption.
  - destruct (IH (a :: seen)) as [H1 H2]. split.
    + constructor; [|exact H1]. intros Hin. destruct (H2 a Hin) as [_ Hm]. cbn [memN] in Hm.
      rewrite N.eqb_refl in Hm. discriminate.
    + intros x [<-|Hx]; [split; [left; reflexivity|exact E]|].
      destruct (H2 x Hx) as [Hi Hm]. cbn [memN] in Hm. apply orb_false_iff in Hm as [_ Hm]. split; [right|]; assumption.
Qed.

Theorem locator_nodup s max : NoDup (locator s max).
Proof. unfold locator. apply dedupN_nodup. Qed.

(* the walk down the best chain *)
Lemma walk_mem fuel l main : forall h delta max acc p,
  In p (locator_walk fuel l main h delta max acc) ->
  In p acc \/ (find_mem l (snd p) <> None /\ snd p = nth (Z.to_nat (fst p)) main 0).
Proof.
  induction fuel as [|f IH]; intros h delta max acc p Hin; cbn [locator_walk] in Hin; [left; exact Hin|].
  destruct (find_mem l (nth (Z.to_nat h) main 0)) as [n|] eqn:E; [|left; exact Hin].
  assert (Hnew : forall q, In q (acc ++ [(h, nth (Z.to_nat h) main 0)]) ->
            In q acc \/ (find_mem l (snd q) <> None /\ snd q = nth (Z.to_nat (fst q)) main 0)).
  { intros q Hq. apply in_app_or in Hq as [Hq|[<-|[]]]; [left; exact Hq|right].
    cbn [fst snd]. rewrite E. split; [discriminate|reflexivity]. }
  match type of Hin with context [Nat.leb ?a ?b] => destruct (Nat.leb a b) end; [exact (Hnew p Hin)|].
  destruct (h <=? delta)%Z; [exact (Hnew p Hin)|].
  destruct (IH _ _ _ _ p Hin) as [Hp|Hp]; [exact (Hnew p Hp)|right; exact Hp].
Qed.

Lemma walk_len fuel l main : forall h delta max acc, (length acc < max)%nat ->
  (length (locator_walk fuel l main h delta max acc) <= max)%nat.
Proof.
  induction fuel as [|f IH]; intros h delta max acc Hlt; cbn [locator_walk]; [lia|].
  destruct (find_mem l (nth (Z.to_nat h) main 0)); [|lia].
  match goal with |- context [Nat.leb ?a ?b] => destruct (Nat.leb_spec a b) as [Hle|Hgt] end.
  - rewrite app_length in *. cbn [length] in *. lia.
  - destruct (h <=? delta)%Z; [lia|]. apply IH. exact Hgt.
Qed.

Lemma desc_snoc hs x : desc_heights hs = true -> (forall y, In y hs -> (x < y)%Z) -> desc_heights (hs ++ [x]) = true.
Proof.
  induction hs as [|a hs IH]; intros Hd Hall; [reflexivity|].
  destruct hs as [|b hs'].
  - cbn. rewrite andb_true_r. apply Z.ltb_lt. apply Hall. left; reflexivity.
  - cbn [app desc_heights] in *. apply andb_true_iff in Hd as [H1 H2]. rewrite H1. cbn [andb].
    apply IH; [exact H2|]. intros y Hy. apply Hall. right. exact Hy.
Qed.

Lemma walk_desc fuel l main : forall h delta max acc, (0 < delta)%Z ->
  desc_heights (map fst acc) = true -> (forall y, In y (map fst acc) -> (h < y)%Z) ->
  desc_heights (map fst (locator_walk fuel l main h delta max acc)) = true.
Proof.
  induction fuel as [|f IH]; intros h delta max acc Hd Hdesc Hall; cbn [locator_walk]; [exact Hdesc|].
  destruct (find_mem l (nth (Z.to_nat h) main 0)); [|exact Hdesc].
  assert (Hacc' : desc_heights (map fst (acc ++ [(h, nth (Z.to_nat h) main 0)])) = true).
  { rewrite map_app. cbn [map fst]. apply desc_snoc; assumption. }
  match goal with |- context [Nat.leb ?a ?b] => destruct (Nat.leb a b) end; [exact Hacc'|].
  destruct (h <=? delta)%Z; [exact Hacc'|].
  apply IH; [lia|exact Hacc'|].
  intros y Hy. rewrite map_app in Hy. apply in_app_or in Hy as [Hy|Hy].
  - specialize (Hall y Hy). lia.
  - cbn [map fst In] in Hy. destruct Hy as [<-|[]]. lia.
Qed.

(* the best-chain part of a locator: at most max hashes, strictly descending heights, each one
   the best-chain header at its height and held in memory *)
Theorem locator_walk_ok s max :
  let l := nodes s in let main := chain_of l (tip s) in
  let w := locator_walk (length l) l main (tip_height s - 1) 5 max [] in
  (1 <= max -> length w <= max)%nat /\
  desc_heights (map fst w) = true /\
  (forall p, In p w -> find_mem l (snd p) <> None /\ snd p = nth (Z.to_nat (fst p)) main 0).
Proof.
  cbv zeta. split; [|split].
  - intros Hm. apply walk_len. cbn [length]. lia.
  - apply walk_desc; [lia|reflexivity|intros y []].
  - intros p Hp. destruct (walk_mem _ _ _ _ _ _ _ _ Hp) as [[]|H]. exact H.
Qed.

(* every hash of a locator is held in memory: a peer that answers from a chain sharing any of
   them returns headers whose first parent is a header we hold, so ProcessHeader does not answer
   "unknown" (C08 verdict rules) *)
Theorem locator_in_memory s max x : Inv s -> In x (locator s max) -> find_mem (nodes s) x <> None.
Proof.
  intros (Hw & Ha & _ & _) Hx. unfold locator in Hx.
  destruct (dedupN_nodup (map snd (locator_entries s max)) []) as [_ Hsub].
  destruct (Hsub x Hx) as [Hin _]. clear Hsub Hx.
  unfold locator_entries in Hin.
  assert (Hins : forall l0 p, In p (fold_right insert_desc [] l0) -> In p l0).
  { assert (Hi : forall q l1 p, In p (insert_desc q l1) -> p = q \/ In p l1).
    { intros q l1. induction l1 as [|r l1 IH]; intros p Hp; cbn [insert_desc] in Hp.
      - destruct Hp as [<-|[]]. left; reflexivity.
      - destruct (fst r <? fst q)%Z.
        + destruct Hp as [<-|Hp]; [left; reflexivity|right; exact Hp].
        + destruct Hp as [<-|Hp]; [right; left; reflexivity|]. destruct (IH p Hp); [left|right; right]; assumption. }
    induction l0 as [|q l0 IH]; intros p Hp; cbn [fold_right] in Hp; [destruct Hp|].
    destruct (Hi _ _ _ Hp) as [->|Hp']; [left; reflexivity|right; exact (IH p Hp')]. }
  apply in_map_iff in Hin as ([h y] & Hy & Hin). cbn in Hy. subst y.
  apply Hins in Hin. apply in_app_or in Hin as [Hin|Hin].
  - destruct (tip_height s =? 0)%Z.
    + destruct Hin as [Hin|[]]. inversion Hin; subst.
      destruct (admissible_find _ _ Ha) as (tn & Ht & Htm). unfold find_mem. rewrite Ht, Htm. discriminate.
    + destruct (walk_mem _ _ _ _ _ _ _ _ Hin) as [[]|[Hm _]]. exact Hm.
  - apply in_map_iff in Hin as (n & Hn & Hf). inversion Hn; subst. apply filter_In in Hf as [Hnin Hb].
    apply andb_true_iff in Hb as [Hb _]. unfold branch_base in Hb. apply andb_true_iff in Hb as [Hm _].
    unfold find_mem. rewrite (wf_find_self _ Hw n Hnin), Hm. discriminate.
Qed.
