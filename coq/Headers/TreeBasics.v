(* Basic lemmas about the tree model: operations that only touch the two code-derived flags
   (n_mem, n_first) leave every tree-structural function unchanged. *)
From BR Require Import Base.Prelude Base.Compact Headers.Tree.
Open Scope N_scope.

Definition core (n : node) : hdr * Z * N := (n_hdr n, n_height n, n_work n).
Definition keeps_core (f : node -> node) : Prop := forall n, core (f n) = core n.

Lemma keeps_core_hash f n : keeps_core f -> n_hash (f n) = n_hash n.
Proof. intros H. specialize (H n). unfold core in H. unfold n_hash. congruence. Qed.
Lemma keeps_core_prev f n : keeps_core f -> n_prev (f n) = n_prev n.
Proof. intros H. specialize (H n). unfold core in H. unfold n_prev. congruence. Qed.
Lemma keeps_core_height f n : keeps_core f -> n_height (f n) = n_height n.
Proof. intros H. specialize (H n). unfold core in H. congruence. Qed.
Lemma keeps_core_work f n : keeps_core f -> n_work (f n) = n_work n.
Proof. intros H. specialize (H n). unfold core in H. congruence. Qed.

Lemma find_map f l x : keeps_core f -> find x (map f l) = option_map f (find x l).
Proof.
  intros H. induction l as [|n l IH]; cbn [map find option_map]; [reflexivity|].
  rewrite keeps_core_hash by exact H. destruct (n_hash n =? x); [reflexivity|exact IH].
Qed.

Lemma ancestors_map f l : keeps_core f -> forall x, ancestors (map f l) x = map f (ancestors l x).
Proof.
  intros H. induction l as [|n l IH]; intros x; cbn [map ancestors]; [reflexivity|].
  rewrite keeps_core_hash by exact H. destruct (n_hash n =? x).
  - cbn [map]. rewrite keeps_core_prev by exact H. rewrite IH. reflexivity.
  - apply IH.
Qed.

Lemma map_hash_map f l : keeps_core f -> map n_hash (map f l) = map n_hash l.
Proof.
  intros H. rewrite map_map. apply map_ext. intros n. apply keeps_core_hash; exact H.
Qed.

Lemma chain_of_map f l x : keeps_core f -> chain_of (map f l) x = chain_of l x.
Proof.
  intros H. unfold chain_of. rewrite ancestors_map by exact H. rewrite map_hash_map by exact H.
  reflexivity.
Qed.

Lemma is_anc_map f l a x : keeps_core f -> is_anc (map f l) a x = is_anc l a x.
Proof.
  intros H. unfold is_anc. rewrite ancestors_map by exact H. rewrite map_hash_map by exact H.
  reflexivity.
Qed.

Lemma height_of_map f l x : keeps_core f -> height_of (map f l) x = height_of l x.
Proof.
  intros H. unfold height_of. rewrite find_map by exact H.
  destruct (find x l); cbn [option_map]; [apply keeps_core_height; exact H|reflexivity].
Qed.

Lemma work_of_map f l x : keeps_core f -> work_of (map f l) x = work_of l x.
Proof.
  intros H. unfold work_of. rewrite find_map by exact H.
  destruct (find x l); cbn [option_map]; [apply keeps_core_work; exact H|reflexivity].
Qed.

Lemma find_none_map f l x : keeps_core f -> (find x (map f l) = None <-> find x l = None).
Proof.
  intros H. rewrite find_map by exact H. destruct (find x l); cbn; split; congruence.
Qed.

(* consolidate / prune / clean only rewrite flags *)
Definition consolidate_f (main : list N) (n : node) : node :=
  if on_chain main n then mkNode (n_hdr n) (n_height n) (n_work n) (n_mem n) (n_height n =? 0)%Z
  else mkNode (n_hdr n) (n_height n) (n_work n) (n_mem n) (n_first n || memN (n_prev n) main).

Lemma consolidate_f_core main : keeps_core (consolidate_f main).
Proof. intros n. unfold consolidate_f. destruct (on_chain main n); reflexivity. Qed.

Lemma consolidate_eq l t : consolidate l t = map (consolidate_f (chain_of l t)) l.
Proof. reflexivity. Qed.

Definition prune_f (main : list N) (p : Z) (n : node) : node :=
  if on_chain main n
  then mkNode (n_hdr n) (n_height n) (n_work n) (n_mem n && (p <=? n_height n)%Z) (n_first n)
  else n.

Lemma prune_f_core main p : keeps_core (prune_f main p).
Proof. intros n. unfold prune_f. destruct (on_chain main n); reflexivity. Qed.

Lemma prune_eq l t d : prune l t d = map (prune_f (chain_of l t) (prune_height l t d)) l.
Proof. reflexivity. Qed.

Definition clean_f (l : list node) (t : N) (d : Z) (n : node) : node :=
  prune_f (chain_of (consolidate l t) t) (prune_height (consolidate l t) t d)
          (consolidate_f (chain_of l t) n).

Lemma clean_nodes_eq l t d : clean_nodes l t d = map (clean_f l t d) l.
Proof.
  unfold clean_nodes. rewrite prune_eq, consolidate_eq, map_map. reflexivity.
Qed.

Lemma clean_f_core l t d : keeps_core (clean_f l t d).
Proof.
  intros n. unfold clean_f. rewrite prune_f_core. apply consolidate_f_core.
Qed.

(* memN and rev *)
Lemma memN_rev x l : memN x (rev l) = memN x l.
Proof.
  induction l as [|y l IH]; cbn [rev memN]; [reflexivity|].
  rewrite memN_app, IH. cbn [memN]. rewrite orb_false_r. apply orb_comm.
Qed.

Lemma on_chain_is_anc l t n : on_chain (chain_of l t) n = is_anc l (n_hash n) t.
Proof. unfold on_chain, chain_of, is_anc. apply memN_rev. Qed.
