From BR Require Import Base.Prelude Gen.Consts Headers.Splits Headers.SplitLocator.
Open Scope Z_scope.

Section P.
Variable hash_at : Z -> N.
Variable low : Z.
Variable sps : list (N * N * Z).

Lemma best_count_app a b : best_count (a ++ b) = (best_count a + best_count b)%nat.
Proof. unfold best_count. rewrite filter_app, app_length. reflexivity. Qed.

Lemma best_count_le l : (best_count l <= length l)%nat.
Proof. unfold best_count. induction l as [|e l IH]; cbn; [lia|]. destruct (negb (snd e)); cbn; lia. Qed.

Lemma passed_splits sp added h prev : best_count (fst (passed sp added h prev)) = 0%nat.
Proof.
  revert added. induction sp as [|s sp IH]; intros [|a added]; cbn [passed]; try reflexivity.
  specialize (IH added). destruct (passed sp added h prev) as [es ad].
  destruct (negb a && (h <? split_height s) && (split_height s <=? prev)); cbn [fst] in *; [|exact IH].
  unfold best_count in *. cbn. exact IH.
Qed.

Lemma remaining_splits sp added h : best_count (remaining sp added h) = 0%nat.
Proof.
  revert added. induction sp as [|s sp IH]; intros [|a added]; cbn [remaining]; try reflexivity.
  destruct (negb a && (split_height s <? h)); [|apply IH].
  unfold best_count in *. cbn. apply IH.
Qed.

(* the number of best-chain hashes never exceeds the requested maximum, fork points included in
   the count or not *)
Lemma walk_best_count fuel : forall h prev delta max added acc,
  (length acc < max)%nat -> (best_count (walk hash_at low sps fuel h prev delta max added acc) <= max)%nat.
Proof.
  induction fuel as [|f IH]; intros h prev delta max added acc Hl; cbn [walk].
  - pose proof (best_count_le acc). lia.
  - destruct (if prev =? -1 then ([], added) else passed sps added h prev) as [es added1] eqn:E.
    assert (Hes : best_count es = 0%nat).
    { destruct (prev =? -1); [inversion E; reflexivity|].
      pose proof (passed_splits sps added h prev) as H. rewrite E in H. exact H. }
    pose proof (best_count_le acc) as Hb.
    destruct (h <? low).
    + rewrite !best_count_app, Hes, remaining_splits. lia.
    + destruct (max <=? length ((acc ++ es) ++ [(h, hash_at h, false)]))%nat eqn:Em.
      * rewrite !best_count_app, Hes, remaining_splits. cbn. lia.
      * destruct (h <=? delta).
        -- rewrite !best_count_app, Hes, remaining_splits. cbn. lia.
        -- apply IH. apply Nat.leb_gt in Em. exact Em.
Qed.

Theorem branch_locator_best_count tip max : (1 <= max)%nat ->
  (best_count (branch_locator hash_at low sps tip max) <= max)%nat.
Proof.
  intros Hm. unfold branch_locator. destruct (tip =? 0); [cbn; lia|].
  apply walk_best_count. cbn. lia.
Qed.

(* every best-chain entry is the best chain's hash at its height, at a height the branch holds
   and below the tip *)
Definition entry_ok (tip : Z) (e : entry) : Prop :=
  snd e = true \/ (snd (fst e) = hash_at (fst (fst e)) /\ low <= fst (fst e) < tip).

Lemma walk_entries fuel : forall tip h prev delta max added acc,
  h < tip -> Forall (entry_ok tip) acc ->
  (forall e, In e (fst (passed sps added h prev)) -> snd e = true) ->
  0 <= delta -> Forall (entry_ok tip) (walk hash_at low sps fuel h prev delta max added acc).
Proof.
  induction fuel as [|f IH]; intros tip h prev delta max added acc Hh Hacc _ Hd; cbn [walk]; [exact Hacc|].
  assert (Hp : forall sp ad hh pp e, In e (fst (passed sp ad hh pp)) -> snd e = true).
  { clear. induction sp as [|s sp IH]; intros [|a ad] hh pp e; cbn [passed fst]; try contradiction.
    specialize (IH ad hh pp). destruct (passed sp ad hh pp) as [es ad'].
    destruct (negb a && (hh <? split_height s) && (split_height s <=? pp)); cbn [fst In] in *.
    - intros [<-|H]; [reflexivity|apply IH; exact H].
    - apply IH. }
  assert (Hr : forall sp ad hh e, In e (remaining sp ad hh) -> snd e = true).
  { clear. induction sp as [|s sp IH]; intros [|a ad] hh e; cbn [remaining]; try contradiction.
    destruct (negb a && (split_height s <? hh)); cbn [In]; [intros [<-|H]; [reflexivity|eapply IH; exact H]|apply IH]. }
  destruct (if prev =? -1 then ([], added) else passed sps added h prev) as [es added1] eqn:E.
  assert (Hes : Forall (entry_ok tip) es).
  { apply Forall_forall. intros e He. left. destruct (prev =? -1); [inversion E; subst; contradiction|].
    apply (Hp sps added h prev). rewrite E. exact He. }
  assert (Hrem : forall hh, Forall (entry_ok tip) (remaining sps added1 hh)).
  { intros hh. apply Forall_forall. intros e He. left. eapply Hr; exact He. }
  destruct (h <? low) eqn:El.
  - apply Forall_app; split; [apply Forall_app; split; assumption|apply Hrem].
  - apply Z.ltb_ge in El.
    assert (H2 : Forall (entry_ok tip) ((acc ++ es) ++ [(h, hash_at h, false)])).
    { apply Forall_app; split; [apply Forall_app; split; assumption|].
      constructor; [|constructor]. right. cbn. split; [reflexivity|lia]. }
    destruct (max <=? length ((acc ++ es) ++ [(h, hash_at h, false)]))%nat.
    + apply Forall_app; split; [exact H2|apply Hrem].
    + destruct (h <=? delta) eqn:Ed.
      * apply Forall_app; split; [exact H2|apply Hrem].
      * apply Z.leb_gt in Ed. apply IH; [lia|exact H2|intros e He; eapply Hp; exact He|lia].
Qed.

Theorem branch_locator_entries tip max : 0 <= tip -> low <= tip ->
  Forall (fun e => snd e = true \/ (snd (fst e) = hash_at (fst (fst e)) /\ low <= fst (fst e) <= tip))
         (branch_locator hash_at low sps tip max).
Proof.
  intros Ht Hl. unfold branch_locator. destruct (tip =? 0) eqn:E.
  - apply Z.eqb_eq in E. subst. constructor; [|constructor]. right. cbn. split; [reflexivity|lia].
  - eapply Forall_impl; [|apply (walk_entries _ tip); try lia; [constructor|]].
    + intros e [H|[H1 H2]]; [left; exact H|right; split; [exact H1|lia]].
    + cbn. intros e He.
      assert (Hp : forall sp ad hh pp e, In e (fst (passed sp ad hh pp)) -> snd e = true).
      { clear. induction sp as [|s sp IH]; intros [|a ad] hh pp e; cbn [passed fst]; try contradiction.
        specialize (IH ad hh pp). destruct (passed sp ad hh pp) as [es ad'].
        destruct (negb a && (hh <? split_height s) && (split_height s <=? pp)); cbn [fst In] in *.
        - intros [<-|H]; [reflexivity|apply IH; exact H].
        - apply IH. }
      eapply Hp; exact He.
Qed.

(* the first entry is the tip's parent: the reply to the request begins with our tip *)
Theorem branch_locator_starts_below_tip tip max : 0 < tip -> low <= tip - 1 -> (1 <= max)%nat ->
  exists rest, branch_locator hash_at low sps tip max = (tip - 1, hash_at (tip - 1), false) :: rest.
Proof.
  intros Ht Hl Hm. unfold branch_locator. destruct (tip =? 0) eqn:E; [apply Z.eqb_eq in E; lia|].
  destruct (Z.to_nat tip + 1)%nat as [|f] eqn:Ef; [lia|]. cbn [walk].
  replace (-1 =? -1) with true by reflexivity. cbn [app].
  destruct (tip - 1 <? low) eqn:El; [apply Z.ltb_lt in El; lia|].
  destruct (Nat.leb max _); [eexists; reflexivity|].
  destruct (tip - 1 <=? 5); [eexists; reflexivity|].
  assert (G : forall fuel h prev delta added acc e, exists rest,
             walk hash_at low sps fuel h prev delta max added (e :: acc) = e :: rest).
  { clear. induction fuel as [|f IH]; intros; cbn [walk]; [eexists; reflexivity|].
    destruct (if prev =? -1 then ([], added) else passed sps added h prev) as [es ad].
    destruct (h <? low); [eexists; reflexivity|].
    destruct (max <=? _)%nat; [eexists; reflexivity|]. destruct (h <=? delta); [eexists; reflexivity|].
    cbn [app]. apply IH. }
  apply (G f _ _ _ _ []).
Qed.
End P.
