(* Chain-split protection of the header repository (C03): the split table and required split
   come from Gen/Consts.v, regenerated from /repo/headers/splits.go on every run. *)
From BR Require Import Base.Prelude Gen.Consts Headers.Tree.
Open Scope N_scope.

Definition split_after (s : N * N * Z) : N := snd (fst s).
Definition split_before (s : N * N * Z) : N := fst (fst s).
Definition split_height (s : N * N * Z) : Z := snd s.

Record split_in := mkSplitIn {
  si_hash : N; si_prev : N;
  si_height : Z;              (* parent height + 1; meaningful when the parent is known *)
  si_parent_known : bool; si_dup : bool;
  si_protect : bool;          (* split protection on (production) *)
  si_genesis : N              (* the network's genesis hash *)
}.

(* the chain-identity part of ProcessHeader; None = no objection (the other checks decide) *)
Definition split_verdict (x : split_in) : option verdict :=
  if negb (si_parent_known x) then
    if existsb (fun s => split_after s =? si_hash x) splits then Some VWrongChain
    else if si_prev x =? si_genesis x then Some VWrongChain
    else Some VUnknown
  else if si_dup x then Some VOk
  else if si_protect x then
    if existsb (fun s => (split_height s =? si_height x)%Z && (split_after s =? si_hash x)) splits
    then Some VWrongChain
    else if (required_height =? si_height x)%Z && negb (required_after =? si_hash x)
    then Some VWrongChain
    else None
  else None.

(* Repository.VerifyHeader: the reply of a peer to the verification request *)
Inductive verify_result := VerAccept | VerWrongChain | VerAfterGenesis | VerUnknown.

Definition verify_header (hash prev genesis : N) : verify_result :=
  if required_after =? hash then VerAccept
  else if existsb (fun s => split_after s =? hash) splits then VerWrongChain
  else if genesis =? prev then VerAfterGenesis
  else VerUnknown.

Definition verify_eqb (a b : verify_result) : bool :=
  match a, b with
  | VerAccept, VerAccept | VerWrongChain, VerWrongChain | VerAfterGenesis, VerAfterGenesis
  | VerUnknown, VerUnknown => true
  | _, _ => false
  end.

(* correspondence cases *)
Inductive scase :=
| SProcess (x : split_in) (obs : verdict)     (* ProcessHeader's class; the model must agree
                                                 whenever it has an objection, and the observed
                                                 class must not be wrong-chain when it has none *)
| SVerify (hash prev genesis : N) (obs : verify_result)
| SVerifyLocator (obs : list N).        (* GetVerifyOnlyLocatorHashes *)

(* the verify-only locator: the fork points of the required split and of every known split,
   highest first, each once *)
Fixpoint dedupN (seen l : list N) : list N :=
  match l with
  | [] => []
  | a :: r => if memN a seen then dedupN seen r else a :: dedupN (a :: seen) r
  end.
Fixpoint insert_desc (p : Z * N) (l : list (Z * N)) : list (Z * N) :=
  match l with
  | [] => [p]
  | q :: l' => if (fst q <? fst p)%Z then p :: l else q :: insert_desc p l'
  end.
Definition verify_only_locator : list N :=
  dedupN [] (map snd (fold_right insert_desc []
     ((required_height - 1, required_before)%Z :: map (fun s => (split_height s - 1, split_before s)%Z) splits))).

Fixpoint listN_eqb (a b : list N) : bool :=
  match a, b with
  | [], [] => true
  | x :: a', y :: b' => (x =? y) && listN_eqb a' b'
  | _, _ => false
  end.

Definition scase_ok (c : scase) : bool :=
  match c with
  | SProcess x obs =>
      match split_verdict x with
      | Some v => verdict_eqb v obs
      | None => negb (verdict_eqb obs VWrongChain) && negb (verdict_eqb obs VUnknown)
      end
  | SVerify h p g obs => verify_eqb (verify_header h p g) obs
  | SVerifyLocator obs => listN_eqb verify_only_locator obs
  end.
Definition smismatches (cs : list scase) : list N := failing (map scase_ok cs).
