(* Reference model of the header repository (/repo/headers): the tree of accepted headers.

   State = every header the repository currently knows as a node (hash, previous hash, bits,
   time, height, cumulative work) + two code-derived flags per node:
     n_mem   - the header is held in memory (branches), so it can be a parent / a duplicate;
     n_first - the header is the first of its code-level branch (started by NewBranch, or
               re-hung by consolidation); a header needs a *new branch* exactly when its
               parent already has a continuation child (a child with n_first = false),
   + the reported tip, the invalid list, and what the last Save wrote.

   Nondeterminism of the code that the properties leave open (which of several equal-work
   tips is reported) is an explicit input [pick]: the model adopts the choice when it is
   admissible (a maximal-work in-memory node) and otherwise makes its own; theorems hold for
   every [pick].

   Hashes are abstract N identifiers (the harness interns the real 256-bit values
   injectively); 0 is "no hash" (the genesis header's previous hash). *)
From BR Require Import Base.Prelude Base.Compact.
Open Scope N_scope.

Record hdr := mkHdr { h_hash : N; h_prev : N; h_bits : N; h_time : N }.

Record node := mkNode {
  n_hdr : hdr; n_height : Z; n_work : N; n_mem : bool; n_first : bool }.

Definition n_hash (n : node) : N := h_hash (n_hdr n).
Definition n_prev (n : node) : N := h_prev (n_hdr n).

(* c_genesis: hash of the network's genesis header (ProcessHeader answers wrong-chain, not
   unknown, for an unknown-parent header that claims the genesis header as its parent) *)
Record config := mkCfg { c_maxdepth : Z; c_autoclean : Z; c_prunedepth : Z; c_genesis : N }.

Record snapshot := mkSnap { sn_nodes : list node; sn_tip : N }.

Record st := mkSt {
  nodes : list node;                 (* newest first *)
  tip : N;
  invalid : list N;
  ghosts : list (N * Z);             (* headers dropped by a Load: hash, true height *)
  saved : option snapshot;           (* what the last Save wrote (branches + index + main files) *)
  saved_invalid : option (list N)    (* the invalid-hash file *)
}.

Inductive verdict := VOk | VUnknown | VInvalid | VTooDeep | VWrongChain | VBadWork | VBadBits | VOther.

Definition verdict_eqb (a b : verdict) : bool :=
  match a, b with
  | VOk, VOk | VUnknown, VUnknown | VInvalid, VInvalid | VTooDeep, VTooDeep
  | VWrongChain, VWrongChain | VBadWork, VBadWork | VBadBits, VBadBits | VOther, VOther => true
  | _, _ => false
  end.

(* ---------------------------------------------------------------------------------- *)
(* tree navigation                                                                      *)

Fixpoint find (x : N) (l : list node) : option node :=
  match l with
  | [] => None
  | n :: l' => if n_hash n =? x then Some n else find x l'
  end.

Definition find_mem (l : list node) (x : N) : option node :=
  match find x l with
  | Some n => if n_mem n then Some n else None
  | None => None
  end.

(* x, parent of x, ... down to the root.  The node list is newest-first and a header is only
   ever accepted after its parent, so a parent always sits further down the list than its
   child: one structural pass finds x, then x's parent in the remainder, and so on. *)
Fixpoint ancestors (l : list node) (x : N) : list node :=
  match l with
  | [] => []
  | n :: l' => if n_hash n =? x then n :: ancestors l' (n_prev n) else ancestors l' x
  end.

(* the chain from the root up to x, as hashes *)
Definition chain_of (l : list node) (x : N) : list N := rev (map n_hash (ancestors l x)).

Definition is_anc (l : list node) (a x : N) : bool := memN a (map n_hash (ancestors l x)).

Definition height_of (l : list node) (x : N) : Z :=
  match find x l with Some n => n_height n | None => -1 end.
Definition work_of (l : list node) (x : N) : N :=
  match find x l with Some n => n_work n | None => 0 end.

Definition has_cont_child (l : list node) (x : N) : bool :=
  existsb (fun n => (n_prev n =? x) && negb (n_first n) && n_mem n) l.

(* maximal work over the in-memory nodes *)
Definition max_work_mem (l : list node) : N :=
  fold_right (fun n acc => if n_mem n then N.max (n_work n) acc else acc) 0 l.

Definition admissible (l : list node) (x : N) : bool :=
  match find_mem l x with
  | Some n => n_work n =? max_work_mem l
  | None => false
  end.

Fixpoint first_max (l : list node) (w : N) : N :=
  match l with
  | [] => 0
  | n :: l' => if n_mem n && (n_work n =? w) then n_hash n else first_max l' w
  end.

Definition choose_tip (l : list node) (old pick : N) : N :=
  if admissible l pick then pick
  else if admissible l old then old
  else first_max l (max_work_mem l).

(* suffix of [new] after the longest common prefix with [old] *)
Fixpoint drop_common (old new : list N) : list N :=
  match old, new with
  | a :: old', b :: new' => if a =? b then drop_common old' new' else new
  | _, _ => new
  end.

(* what the new-header stream carries when the tip moves from [old] to [new] *)
Definition announce (l : list node) (old new : N) : list N :=
  drop_common (chain_of l old) (chain_of l new).

(* ---------------------------------------------------------------------------------- *)
(* maintenance                                                                          *)

Definition on_chain (main : list N) (n : node) : bool := memN (n_hash n) main.

(* consolidate: the best chain becomes the root branch; every child of a best-chain header
   that is not itself on the best chain starts a (re-hung) branch *)
Definition consolidate (l : list node) (t : N) : list node :=
  let main := chain_of l t in
  map (fun n =>
         if on_chain main n then mkNode (n_hdr n) (n_height n) (n_work n) (n_mem n) (n_height n =? 0)%Z
         else mkNode (n_hdr n) (n_height n) (n_work n) (n_mem n) (n_first n || memN (n_prev n) main)) l.

(* prune(depth): only the best chain loses memory, below
   min(tip height - depth, lowest fork height of an in-memory side tree) *)
Definition prune_height (l : list node) (t : N) (depth : Z) : Z :=
  let main := chain_of l t in
  fold_right (fun n acc => if n_mem n && negb (on_chain main n) then Z.min (n_height n - 1) acc else acc)
             (height_of l t - depth)%Z l.

Definition prune (l : list node) (t : N) (depth : Z) : list node :=
  let main := chain_of l t in
  let p := prune_height l t depth in
  map (fun n =>
         if on_chain main n then mkNode (n_hdr n) (n_height n) (n_work n) (n_mem n && (p <=? n_height n)%Z) (n_first n)
         else n) l.

Definition clean_nodes (l : list node) (t : N) (depth : Z) : list node :=
  prune (consolidate l t) t depth.

(* the lowest ancestor-or-self of x that is not on the chain [main] (the root of x's side tree) *)
Definition side_root_height (l : list node) (main : list N) (x : N) : Z :=
  fold_left (fun acc n => if memN (n_hash n) main then acc else n_height n) (ancestors l x) (-1)%Z.

(* load(depth) from a snapshot: best chain kept (in memory from tip height - depth up); a side
   tree is kept whole when its fork point is still in memory, dropped whole otherwise *)
Definition load_keep (l : list node) (main : list N) (p : Z) (n : node) : bool :=
  on_chain main n || (p <? side_root_height l main (n_hash n))%Z.

(* the same predicate, written so that evaluation stops at the first disjunct: vm_compute is
   strict in the arguments of [orb], and the second disjunct is quadratic in the tree size *)
Definition load_keep_lazy (l : list node) (main : list N) (p : Z) (n : node) : bool :=
  if on_chain main n then true else (p <? side_root_height l main (n_hash n))%Z.

Definition load_nodes (sn : snapshot) (depth : Z) : list node :=
  let l := sn_nodes sn in
  let main := chain_of l (sn_tip sn) in
  let p := (height_of l (sn_tip sn) - depth)%Z in
  map (fun n =>
         if on_chain main n then mkNode (n_hdr n) (n_height n) (n_work n) (p <=? n_height n)%Z (n_first n)
         else mkNode (n_hdr n) (n_height n) (n_work n) true (n_first n))
      (filter (load_keep_lazy l main p) l).

Definition load_ghosts (sn : snapshot) (depth : Z) : list (N * Z) :=
  let l := sn_nodes sn in
  let main := chain_of l (sn_tip sn) in
  let p := (height_of l (sn_tip sn) - depth)%Z in
  map (fun n => (n_hash n, n_height n)) (filter (fun n => negb (load_keep_lazy l main p n)) l).

(* ---------------------------------------------------------------------------------- *)
(* operations                                                                           *)

Inductive op :=
| OSubmit (h : hdr) (pick : N)
| OMark (x : N) (pick : N)
| OUnmark (x : N)
| OClean (depth : Z)
| OSave
| OLoad (depth : Z) (pick : N)
| OObserve (queries : list N)
| OVerify (x : N) (with_header : bool) (path_ok : bool)   (* VerifyMerkleProof *)
| OLocator (max : N).                                     (* GetLocatorHashes *)

(* one lookup row: HashHeight; CheckHeader (height, flag, ok); PreviousHash; GetHeader ok *)
Record lookup := mkLookup {
  lk_hash : N; lk_height : Z; lk_ck_height : Z; lk_ck_flag : bool; lk_ck_ok : bool;
  lk_prev : N; lk_prev_height : Z; lk_get_ok : bool }.

Inductive out :=
| RSubmit (v : verdict) (ann : list N)
| RUnit
| RLoad (ok : bool)
| RPanic                              (* only ever observed on the implementation *)
| RVerify (ok : bool) (height : Z) (flag : bool)
| RLocator (l : list N)
| RSnap (tip_height : Z) (tip_hash : N) (tip_work : N) (chain : list N) (lks : list lookup).

Definition tip_height (s : st) : Z := height_of (nodes s) (tip s).

Definition with_nodes (s : st) (l : list node) (t : N) : st :=
  mkSt l t (invalid s) (ghosts s) (saved s) (saved_invalid s).

Definition submit (cfg : config) (s : st) (h : hdr) (pick : N) : st * out :=
  if negb (bits_valid (h_bits h)) then (s, RSubmit VBadBits [])
  else
    match find_mem (nodes s) (h_prev h) with
    | None => (s, RSubmit (if h_prev h =? c_genesis cfg then VWrongChain else VUnknown) [])
    | Some p =>
        match find_mem (nodes s) (h_hash h) with
        | Some _ => (s, RSubmit VOk [])
        | None =>
            if memN (h_hash h) (invalid s) then (s, RSubmit VInvalid [])
            else
              let newbranch := has_cont_child (nodes s) (h_prev h) in
              if newbranch && (c_maxdepth cfg <? tip_height s - n_height p)%Z
              then (s, RSubmit VTooDeep [])
              else
                let n := mkNode h (n_height p + 1) (n_work p + work_of_bits (h_bits h)) true newbranch in
                let l1 := n :: nodes s in
                let t1 := choose_tip l1 (tip s) pick in
                let ann := if t1 =? tip s then [] else announce l1 (tip s) t1 in
                (* automatic clean when the accepted header is the tip of the best branch at a
                   multiple of the clean interval *)
                let auto := negb newbranch && (t1 =? h_hash h) && (0 <? c_autoclean cfg)%Z &&
                            ((n_height p + 1) mod c_autoclean cfg =? 0)%Z in
                let l2 := if auto then clean_nodes l1 t1 (c_prunedepth cfg) else l1 in
                let si := if auto then Some (invalid s) else saved_invalid s in
                (mkSt l2 t1 (invalid s) (ghosts s) (saved s) si, RSubmit VOk ann)
        end
    end.

(* MarkHeaderInvalid (repaired, D12): the header and everything built on it leave the tree *)
Definition mark (s : st) (x pick : N) : st * out :=
  if memN x (invalid s) then (s, RUnit)
  else
    let inv := invalid s ++ [x] in
    match find_mem (nodes s) x with
    | None => (mkSt (nodes s) (tip s) inv (ghosts s) (saved s) (Some inv), RUnit)
    | Some _ =>
        let l1 := filter (fun n => negb (is_anc (nodes s) x (n_hash n))) (nodes s) in
        let t1 := choose_tip l1 (tip s) pick in
        (mkSt l1 t1 inv (ghosts s) (saved s) (Some inv), RUnit)
    end.

Fixpoint removeN (x : N) (l : list N) : list N :=
  match l with [] => [] | y :: l' => if x =? y then l' else y :: removeN x l' end.

Definition unmark (s : st) (x : N) : st * out :=
  if memN x (invalid s)
  then let inv := removeN x (invalid s) in
       (mkSt (nodes s) (tip s) inv (ghosts s) (saved s) (Some inv), RUnit)
  else (s, RUnit).

Definition clean (s : st) (depth : Z) : st * out :=
  (mkSt (clean_nodes (nodes s) (tip s) depth) (tip s) (invalid s) (ghosts s) (saved s) (Some (invalid s)), RUnit).

(* Save (repaired, D11: consolidates first) *)
Definition save (s : st) : st * out :=
  let l1 := consolidate (nodes s) (tip s) in
  (mkSt l1 (tip s) (invalid s) (ghosts s) (Some (mkSnap l1 (tip s))) (Some (invalid s)), RUnit).

(* Load: reads the branches of the index, keeps what is within [depth] and recomputes the
   longest branch from what it read *)
Definition load (s : st) (depth : Z) (pick : N) : st * out :=
  match saved s with
  | None => (s, RLoad false)       (* empty storage: outside this model (migration / genesis) *)
  | Some sn =>
      let inv := match saved_invalid s with Some i => i | None => [] end in
      let l1 := load_nodes sn depth in
      (mkSt l1 (choose_tip l1 (sn_tip sn) pick) inv (load_ghosts sn depth) (saved s) (saved_invalid s),
       RLoad true)
  end.

(* lookups *)
Definition on_best (s : st) (x : N) : bool := is_anc (nodes s) x (tip s).

Definition lookup_of (s : st) (x : N) : lookup :=
  match find x (nodes s) with
  | None => mkLookup x (-1) (-1) false false 0 (-1) false
  | Some n =>
      if n_mem n then
        let pr := match find_mem (nodes s) (n_prev n) with
                  | Some p => (n_hash p, n_height p)
                  | None => (0, (-1)%Z)
                  end in
        mkLookup x (n_height n) (n_height n) (on_best s x) true (fst pr) (snd pr) true
      else
        (* not in memory: only best-chain history is retrievable (from the main files) *)
        mkLookup x (n_height n) (n_height n) (on_best s x) true 0 (-1) (on_best s x)
  end.

Definition observe (s : st) (queries : list N) : out :=
  RSnap (tip_height s) (tip s) (work_of (nodes s) (tip s)) (chain_of (nodes s) (tip s))
        (map (lookup_of s) queries).

(* VerifyMerkleProof: a proof that carries its header needs the header to be known (CheckHeader);
   a proof that only names the block hash needs the header to be retrievable (GetHeader); then the
   path must recompute that header's merkle root (and the index must lie inside the tree) *)
Definition verify_proof (s : st) (x : N) (with_header path_ok : bool) : out :=
  let k := lookup_of s x in
  let known := if with_header then lk_ck_ok k else lk_get_ok k in
  if known && path_ok then RVerify true (lk_ck_height k) (lk_ck_flag k) else RVerify false (-1) false.

(* GetLocatorHashes (no chain split in range): the best chain from the tip's parent downwards with
   steps 5, 10, 20, ... while the headers are in memory, at most [max] of them; plus the lowest
   in-memory header of every other branch; sorted by height, highest first *)
Fixpoint locator_walk (fuel : nat) (l : list node) (main : list N) (h delta : Z) (max : nat) (acc : list (Z * N))
  : list (Z * N) :=
  match fuel with
  | O => acc
  | S f =>
      let x := nth (Z.to_nat h) main 0 in
      match find_mem l x with
      | None => acc
      | Some _ =>
          let acc' := acc ++ [(h, x)] in
          if (max <=? length acc')%nat then acc'
          else if (h <=? delta)%Z then acc'
          else locator_walk f l main (h - delta) (delta * 2) max acc'
      end
  end.

(* first header of each code-level branch that is held in memory: a header that starts a branch,
   or whose parent has left memory *)
Definition branch_base (l : list node) (n : node) : bool :=
  n_mem n && (n_first n || match find_mem l (n_prev n) with Some _ => false | None => true end).

(* the branch the tip belongs to: walk down continuation links *)
Fixpoint tip_branch_base (fuel : nat) (l : list node) (x : N) : N :=
  match fuel with
  | O => x
  | S f => match find_mem l x with
           | None => x
           | Some n => if branch_base l n then x else tip_branch_base f l (n_prev n)
           end
  end.

Fixpoint insert_desc (p : Z * N) (l : list (Z * N)) : list (Z * N) :=
  match l with
  | [] => [p]
  | q :: l' => if (fst q <? fst p)%Z then p :: l else q :: insert_desc p l'
  end.

Definition locator_entries (s : st) (max : N) : list (Z * N) :=
  let l := nodes s in
  let main := chain_of l (tip s) in
  let h := tip_height s in
  let own := if (h =? 0)%Z then [(0%Z, tip s)]
             else locator_walk (length l) l main (h - 1) 5 (N.to_nat max) [] in
  let tb := tip_branch_base (length l) l (tip s) in
  let bases := map (fun n => (n_height n, n_hash n))
                   (filter (fun n => branch_base l n && negb (n_hash n =? tb)) l) in
  fold_right insert_desc [] (own ++ bases).

(* every hash once: the first occurrence is kept *)
Fixpoint dedupN (seen l : list N) : list N :=
  match l with
  | [] => []
  | a :: r => if memN a seen then dedupN seen r else a :: dedupN (a :: seen) r
  end.

Definition locator (s : st) (max : N) : list N := dedupN [] (map snd (locator_entries s max)).

Definition step (cfg : config) (s : st) (o : op) : st * out :=
  match o with
  | OSubmit h pick => submit cfg s h pick
  | OMark x pick => mark s x pick
  | OUnmark x => unmark s x
  | OClean d => clean s d
  | OSave => save s
  | OLoad d pick => load s d pick
  | OObserve qs => (s, observe s qs)
  | OVerify x wh ok => (s, verify_proof s x wh ok)
  | OLocator max => (s, RLocator (locator s max))
  end.

Fixpoint run (cfg : config) (s : st) (ops : list op) : st * list out :=
  match ops with
  | [] => (s, [])
  | o :: ops' => let '(s1, r) := step cfg s o in
                 let '(s2, rs) := run cfg s1 ops' in (s2, r :: rs)
  end.

(* initial repository: one genesis header *)
Definition genesis_node (g : hdr) : node := mkNode g 0 (work_of_bits (h_bits g)) true true.
Definition init (g : hdr) : st := mkSt [genesis_node g] (h_hash g) [] [] None None.

(* ---------------------------------------------------------------------------------- *)
(* correspondence relation (evaluated in cases files)

   [mask] selects the observables the property under check pins down:
     1 verdict class   2 announced headers   4 tip + chain   8 lookups   16 load result
     32 decider "applying the stream yields the reported chain" (implementation trace only)
     64 decider "a refusal changes no observable" (implementation trace only)
   The model always runs in full.  When model and implementation disagree on something that
   changes the state (accept / refuse, which tip, load result) in a dimension the mask does
   not cover, the comparison of this case stops there with success: that disagreement belongs
   to another property's check. *)

Fixpoint listN_eqb (a b : list N) : bool :=
  match a, b with
  | [], [] => true
  | x :: a', y :: b' => (x =? y) && listN_eqb a' b'
  | _, _ => false
  end.

Definition lookup_eqb (a b : lookup) : bool :=
  (lk_hash a =? lk_hash b) && (lk_height a =? lk_height b)%Z && (lk_ck_height a =? lk_ck_height b)%Z &&
  Bool.eqb (lk_ck_flag a) (lk_ck_flag b) && Bool.eqb (lk_ck_ok a) (lk_ck_ok b) &&
  (lk_prev a =? lk_prev b) && (lk_prev_height a =? lk_prev_height b)%Z &&
  Bool.eqb (lk_get_ok a) (lk_get_ok b).

(* a header a Load dropped: "unknown", or its true height without the best-chain flag *)
Definition ghost_ok (gh : list (N * Z)) (b : lookup) : bool :=
  match List.find (fun p => fst p =? lk_hash b) gh with
  | None => false
  | Some (_, h) =>
      ((lk_height b =? -1) || (lk_height b =? h))%Z &&
      (negb (lk_ck_ok b) || (negb (lk_ck_flag b) && (lk_ck_height b =? h)%Z)) &&
      (lk_prev b =? 0) && negb (lk_get_ok b)
  end.

Fixpoint lookups_ok (gh : list (N * Z)) (m i : list lookup) : bool :=
  match m, i with
  | [], [] => true
  | a :: m', b :: i' => (lookup_eqb a b || ghost_ok gh b) && lookups_ok gh m' i'
  | _, _ => false
  end.

Definition bit (mask k : N) : bool := N.testbit mask k.

Definition accepts (v : verdict) : bool := match v with VOk => true | _ => false end.

(* masked comparison of one output *)
Definition out_ok (mask : N) (gh : list (N * Z)) (m i : out) : bool :=
  match m, i with
  | RSubmit v a, RSubmit v' a' =>
      (negb (bit mask 0) || verdict_eqb v v') && (negb (bit mask 1) || listN_eqb a a')
  | RUnit, RUnit => true
  | RLoad a, RLoad b => negb (bit mask 4) || Bool.eqb a b
  | RSnap h t w c lk, RSnap h' t' w' c' lk' =>
      (negb (bit mask 2) || ((h =? h')%Z && (t =? t') && (w =? w') && listN_eqb c c')) &&
      (* (lookups: the harness writes a 0 into the reported chain when a height query does not
         return a header hashing to the reported hash, when the range query over the whole best
         chain fails or disagrees with the per-height answers, or when a height above the tip is
         answered: "range and height queries return the same headers") *)
      (negb (bit mask 3) || (lookups_ok gh lk lk' && negb (memN 0 c')))
  | RVerify a h f, RVerify a' h' f' =>
      negb (bit mask 7) || (Bool.eqb a a' && (h =? h')%Z && Bool.eqb f f') ||
      (* a header a Load dropped may still be known by height (never as best chain): a proof
         that carries such a header may verify with that height *)
      (negb a && a' && negb f' && existsb (fun g => (snd g =? h')%Z) gh)
  | RLocator _, RLocator _ => true       (* judged by locator_ok below: the order among equal heights is free *)
  | _, _ => false
  end.

(* agreement on what determines the state *)
Definition out_sync (m i : out) : bool :=
  match m, i with
  | RSubmit v _, RSubmit v' _ => Bool.eqb (accepts v) (accepts v')
  | RUnit, RUnit => true
  | RLoad a, RLoad b => Bool.eqb a b
  | RSnap _ t _ _ _, RSnap _ t' _ _ _ => t =? t'
  | RVerify _ _ _, RVerify _ _ _ => true
  | RLocator _, RLocator _ => true
  | _, _ => false
  end.

(* C19 decider on the implementation's locator, against the model's tree: every hash is a
   best-chain header or the base of a branch; no hash twice; the best-chain hashes come in strictly
   descending height order and start with the tip's parent (genesis alone at height 0); not more
   of them than requested (branch bases that happen to lie on the best chain not counted) *)
Fixpoint nodupN (l : list N) : bool :=
  match l with [] => true | x :: l' => negb (memN x l') && nodupN l' end.

Fixpoint desc_heights (hs : list Z) : bool :=
  match hs with
  | a :: (b :: _) as r => (b <? a)%Z && desc_heights r
  | _ => true
  end.

Definition locator_ok (s : st) (max : N) (impl : list N) : bool :=
  let l := nodes s in
  let main := chain_of l (tip s) in
  let bases := map n_hash (filter (branch_base l) l) in
  let onmain := filter (fun x => memN x main) impl in
  let nbases_on_main := length (filter (fun x => memN x main) bases) in
  nodupN impl &&
  forallb (fun x => memN x main || memN x bases) impl &&
  desc_heights (map (height_of l) onmain) &&
  (if (tip_height s =? 0)%Z then listN_eqb impl [tip s]
   else match onmain with
        | x :: _ => x =? nth (Z.to_nat (tip_height s - 1)) main 0
        | [] => false
        end) &&
  (length onmain <=? N.to_nat max + nbases_on_main)%nat.

Definition op_pick (o : op) : option N :=
  match o with OSubmit _ p => Some p | OMark _ p => Some p | OLoad _ p => Some p | _ => None end.

Fixpoint run_ok (cfg : config) (mask : N) (s : st) (ops : list op) (obs : list out) : bool :=
  match ops, obs with
  | [], [] => true
  | o :: ops', r :: obs' =>
      let '(s1, m) := step cfg s o in
      let tip_same := match op_pick o with Some p => tip s1 =? p | None => true end in
      out_ok mask (ghosts s1) m r && (negb (bit mask 2) || tip_same) &&
      (match o, r with
       | OLocator max, RLocator impl => negb (bit mask 8) || locator_ok s1 max impl
       | _, _ => true
       end) &&
      (if out_sync m r && tip_same then run_ok cfg mask s1 ops' obs' else true)
  | _, _ => false
  end.

(* --- decider on the implementation's trace alone: the stream reconstructs the chain --- *)

Fixpoint take_upto (x : N) (c : list N) : option (list N) :=
  match c with
  | [] => None
  | y :: c' => if y =? x then Some [y]
               else match take_upto x c' with Some r => Some (y :: r) | None => None end
  end.

(* attach x at its previous hash, discarding what was above it *)
Definition attach (prevs : list (N * N)) (c : list N) (x : N) : option (list N) :=
  match List.find (fun p => fst p =? x) prevs with
  | None => None
  | Some (_, pv) => match take_upto pv c with Some r => Some (r ++ [x]) | None => None end
  end.

Fixpoint apply_stream (prevs : list (N * N)) (c : list N) (ann : list N) : option (list N) :=
  match ann with
  | [] => Some c
  | x :: ann' => match attach prevs c x with
                 | Some c1 => apply_stream prevs c1 ann'
                 | None => None
                 end
  end.

(* view = None: (re)synchronise at the next snapshot *)
Fixpoint stream_ok (prevs : list (N * N)) (view : option (list N)) (ops : list op) (obs : list out) : bool :=
  match ops, obs with
  | o :: ops', r :: obs' =>
      match o, r with
      | OSubmit h _, RSubmit _ ann =>
          let prevs1 := (h_hash h, h_prev h) :: prevs in
          match view with
          | None => stream_ok prevs1 None ops' obs'
          | Some c => match apply_stream prevs1 c ann with
                      | Some c1 => stream_ok prevs1 (Some c1) ops' obs'
                      | None => false
                      end
          end
      | OObserve _, RSnap _ _ _ chain _ =>
          match view with
          | None => stream_ok prevs (Some chain) ops' obs'
          | Some c => listN_eqb c chain && stream_ok prevs view ops' obs'
          end
      | OMark _ _, _ | OLoad _ _, _ => stream_ok prevs None ops' obs'
      | _, _ => stream_ok prevs view ops' obs'
      end
  | _, _ => true
  end.

(* --- decider on the implementation's trace alone: a refusal changes nothing --- *)

Definition snap_eqb (a b : out) : bool :=
  match a, b with
  | RSnap h t w c lk, RSnap h' t' w' c' lk' =>
      (h =? h')%Z && (t =? t') && (w =? w') && listN_eqb c c' &&
      (fix go (x y : list lookup) := match x, y with
                                     | [], [] => true
                                     | p :: x', q :: y' => lookup_eqb p q && go x' y'
                                     | _, _ => false end) lk lk'
  | _, _ => false
  end.

Fixpoint refusal_ok (last : option out) (pending : bool) (obs : list out) : bool :=
  match obs with
  | [] => true
  | r :: obs' =>
      match r with
      | RSubmit v ann =>
          if accepts v then refusal_ok last false obs'
          else match ann with [] => refusal_ok last (match last with Some _ => true | None => false end) obs'
                            | _ => false end      (* a refusal must announce nothing *)
      | RSnap _ _ _ _ _ =>
          (if pending then match last with Some l => snap_eqb l r | None => true end else true) &&
          refusal_ok (Some r) false obs'
      | _ => refusal_ok None false obs'
      end
  end.

Record tcase := mkCase {
  tc_mask : N; tc_cfg : config; tc_genesis : hdr; tc_ops : list op; tc_obs : list out }.

Definition case_ok (c : tcase) : bool :=
  run_ok (tc_cfg c) (tc_mask c) (init (tc_genesis c)) (tc_ops c) (tc_obs c) &&
  (negb (bit (tc_mask c) 5) || stream_ok [(h_hash (tc_genesis c), 0)] None (tc_ops c) (tc_obs c)) &&
  (negb (bit (tc_mask c) 6) || refusal_ok None false (tc_obs c)).

Definition mismatches (cs : list tcase) : list N := failing (map case_ok cs).

(* full comparison regardless of mask: reported as model_drift (diagnostic only) *)
Definition drift (cs : list tcase) : list N :=
  failing (map (fun c => run_ok (tc_cfg c) 31 (init (tc_genesis c)) (tc_ops c) (tc_obs c)) cs).

(* diagnostics: the first step at which the masked comparison fails (index, model output,
   implementation output, model tip after the step) *)
Fixpoint first_diff (cfg : config) (mask : N) (s : st) (ops : list op) (obs : list out) (i : N)
  : option (N * out * out * N) :=
  match ops, obs with
  | o :: ops', r :: obs' =>
      let '(s1, m) := step cfg s o in
      let tip_same := match op_pick o with Some p => tip s1 =? p | None => true end in
      if out_ok mask (ghosts s1) m r && (negb (bit mask 2) || tip_same) &&
         (match o, r with
          | OLocator max, RLocator impl => negb (bit mask 8) || locator_ok s1 max impl
          | _, _ => true
          end)
      then (if out_sync m r && tip_same then first_diff cfg mask s1 ops' obs' (i + 1) else None)
      else Some (i, m, r, tip s1)
  | _, _ => None
  end.
Definition case_diff (mask : N) (c : tcase) :=
  first_diff (tc_cfg c) mask (init (tc_genesis c)) (tc_ops c) (tc_obs c) 0.
