(* A concrete non-trivial history that meets the hypotheses of the tree theorems (non-vacuity):
   genesis 1; chain 2-3; a heavier sibling 4 of 3 (reorg); Clean; Save; Load; a duplicate; Mark of
   the new tip's parent... and an observation. *)
From BR Require Import Base.Prelude Base.Compact Headers.Tree Headers.TreeBasics Headers.TreeInv
     Headers.TreeSteps Headers.TreeProps.
Open Scope N_scope.

Definition ex_cfg : config := mkCfg 5 10000 10000 1.
Definition ex_g : hdr := mkHdr 1 0 486604799 1231006505.
Definition ex_ops : list op :=
  [OSubmit (mkHdr 2 1 486604799 1231007105) 2;
   OSubmit (mkHdr 3 2 486604799 1231007705) 3;
   OSubmit (mkHdr 4 2 478150655 1231007706) 4;      (* bits 0x1c7fffff: twice the work -> reorg *)
   OClean 1; OSave; OLoad 1 4;
   OSubmit (mkHdr 3 2 486604799 1231007705) 4;      (* duplicate *)
   OSubmit (mkHdr 5 4 486604799 1231008305) 5;
   OMark 5 4; OUnmark 5;
   OSubmit (mkHdr 5 4 486604799 1231008305) 5;
   OObserve [1; 2; 3; 4; 5; 99]].

Example ex_hyps : cfg_ok ex_cfg /\ genesis_ok ex_g /\ ops_ok ex_cfg (init ex_g) ex_ops.
Proof.
  split; [unfold cfg_ok; cbn; lia|]. split; [split; [reflexivity|discriminate]|].
  vm_compute. repeat split; try discriminate;
    try (intros n H; try discriminate; inversion H; subst; try reflexivity; eauto).
Qed.

(* it really is a reorg, a clean, a reload and a mark: the final observation *)
Example ex_final_observation :
  nth 11 (snd (run ex_cfg (init ex_g) ex_ops)) RUnit =
  RSnap 3 5 (work_of (nodes (final ex_cfg ex_g ex_ops)) 5) [1; 2; 4; 5]
    [mkLookup 1 0 0 true true 0 (-1) true;
     mkLookup 2 1 1 true true 0 (-1) true;   (* genesis left memory at the Load with depth 1 *)
     mkLookup 3 2 2 false true 2 1 true;
     mkLookup 4 2 2 true true 2 1 true;
     mkLookup 5 3 3 true true 4 2 true;
     mkLookup 99 (-1) (-1) false false 0 (-1) false] /\
  match nth 2 (snd (run ex_cfg (init ex_g) ex_ops)) RUnit with
  | RSubmit VOk ann => ann = [4]
  | _ => False
  end.
Proof. split; vm_compute; reflexivity. Qed.
