(* C12 - crash between two storage writes of Clean or Save.
   The implementation's storage writes are enumerated by the harness (every prefix of the
   Write/Remove sequence of every Clean and Save of a history); a fresh repository is loaded from
   each image.  This file judges what was loaded against the tree model's state at the moment the
   interrupted operation started: the reported best chain must be a linked chain of headers the
   repository had accepted, from genesis, carrying at least the work of the tip at the last
   completed Save. *)
From BR Require Import Base.Prelude Base.Compact Headers.Tree.
Open Scope N_scope.

Record cobs := mkCObs {
  co_ok : bool;            (* Load returned without error or panic *)
  co_chain : list N;       (* Hash(0) .. Hash(Height) of the loaded repository *)
  co_work : N              (* its AccumulatedWork *)
}.

(* every element's parent is its predecessor in the list, and it is an accepted header *)
Fixpoint linked (l : list node) (prev : N) (chain : list N) : bool :=
  match chain with
  | [] => true
  | x :: rest => match find x l with
                 | Some n => (n_prev n =? prev) && linked l x rest
                 | None => false
                 end
  end.

Definition saved_work (s : st) : N :=
  match saved s with Some sn => work_of (sn_nodes sn) (sn_tip sn) | None => 0 end.

Definition crash_ok (g : N) (s : st) (o : cobs) : bool :=
  co_ok o &&
  match co_chain o with
  | [] => false
  | x :: rest =>
      (x =? g) && linked (nodes s) g rest &&
      let t := last (co_chain o) 0 in
      (work_of (nodes s) t =? co_work o) && (saved_work s <=? co_work o)
  end.

(* obs: (number of operations completed before the interrupted one, observations of all its
   crash points) *)
Fixpoint crash_run (cfg : config) (g : N) (s : st) (ops : list op) (k : nat)
                   (obs : list (nat * list cobs)) : bool :=
  forallb (fun p => if Nat.eqb (fst p) k then forallb (crash_ok g s) (snd p) else true) obs &&
  match ops with
  | [] => true
  | o :: ops' => crash_run cfg g (fst (step cfg s o)) ops' (S k) obs
  end.

(* What a Load reports below its horizon comes from the main header files, above it from the
   branch files named by the index: the reported chain is the splice of the two at the horizon
   P = (height of the tip under the index) - prune depth.  The splice is the chain under the index
   exactly when the two agree below P (CrashProofs.splice_sound).  Crash points of an operation
   that rewrites the file history with a chain that does NOT agree with the chain under the last
   index below that horizon are the known finding D27; the harness judges them in a case of their
   own, and has to justify every such exclusion here. *)
Definition horizon (index_chain : list N) (d : Z) : nat := Z.to_nat (Z.of_nat (length index_chain) - 1 - d).
Fixpoint listN_eqb' (a b : list N) : bool :=
  match a, b with
  | [], [] => true
  | x :: a', y :: b' => (x =? y) && listN_eqb' a' b'
  | _, _ => false
  end.
Definition agree_below (hist mem : list N) (p : nat) : bool := listN_eqb' (firstn p hist) (firstn p mem).
Definition splice (hist mem : list N) (p : nat) : list N := firstn p hist ++ skipn p mem.

(* (operations completed, chain in the main files before, chain that the branch files [and, after a
   Save, the index] still describe: the tip at the last completed Clean or Save, chain being written,
   prune depth of the Load) *)
Definition excl := (nat * (list N * list N * list N * Z))%type.
Definition excl_justified (e : excl) : bool :=
  let '(_, (file, index, new, d)) := e in
  match index with
  | [] => false
  | _ => negb (agree_below file index (horizon index d)) || negb (agree_below new index (horizon index d))
  end.

Record ccase := mkCCase { cc_cfg : config; cc_genesis : hdr; cc_ops : list op;
                          cc_obs : list (nat * list cobs); cc_excl : list excl }.

Definition ccase_ok (c : ccase) : bool :=
  crash_run (cc_cfg c) (h_hash (cc_genesis c)) (init (cc_genesis c)) (cc_ops c) 0 (cc_obs c) &&
  forallb excl_justified (cc_excl c).
Definition cmismatches (cs : list ccase) : list N := failing (map ccase_ok cs).

(* diagnostics: (operations completed, crash point) of every rejected observation *)
Fixpoint failing_idx {A} (f : A -> bool) (l : list A) (i : nat) : list nat :=
  match l with [] => [] | a :: r => (if f a then [] else [i]) ++ failing_idx f r (S i) end.
Fixpoint crash_diag (cfg : config) (g : N) (s : st) (ops : list op) (k : nat)
                    (obs : list (nat * list cobs)) : list (nat * nat * N * N) :=
  flat_map (fun p => if Nat.eqb (fst p) k
                     then map (fun j => (k, j, saved_work s, tip s)) (failing_idx (crash_ok g s) (snd p) 0) else []) obs ++
  match ops with
  | [] => []
  | o :: ops' => crash_diag cfg g (fst (step cfg s o)) ops' (S k) obs
  end.
Definition ccase_diag (c : ccase) :=
  crash_diag (cc_cfg c) (h_hash (cc_genesis c)) (init (cc_genesis c)) (cc_ops c) 0 (cc_obs c).
