(* C07: applying the announced headers to the previous best chain yields the new best chain. *)
From BR Require Import Base.Prelude Base.Compact Headers.Tree Headers.TreeBasics Headers.TreeInv
     Headers.TreeSteps.
Open Scope N_scope.

Definition prevs_of (l : list node) : list (N * N) := map (fun n => (n_hash n, n_prev n)) l.

Definition lookup_prev (prevs : list (N * N)) (x : N) : option N :=
  match List.find (fun p => fst p =? x) prevs with Some (_, pv) => Some pv | None => None end.

Lemma attach_eq prevs c x :
  attach prevs c x =
  match lookup_prev prevs x with
  | None => None
  | Some pv => match take_upto pv c with Some r => Some (r ++ [x]) | None => None end
  end.
Proof.
  unfold attach, lookup_prev. destruct (List.find _ prevs) as [[a b]|]; reflexivity.
Qed.

Lemma lookup_prev_of l : forall x n, find x l = Some n -> lookup_prev (prevs_of l) x = Some (n_prev n).
Proof.
  unfold lookup_prev, prevs_of. induction l as [|m l IH]; intros x n; cbn [find map List.find fst]; [discriminate|].
  destruct (n_hash m =? x) eqn:E.
  - intros H; inversion H; subst. reflexivity.
  - intros H. exact (IH x n H).
Qed.

Lemma prevs_of_map f l : keeps_core f -> prevs_of (map f l) = prevs_of l.
Proof.
  intros Hf. unfold prevs_of. rewrite map_map. apply map_ext. intros n.
  rewrite keeps_core_hash, keeps_core_prev by exact Hf. reflexivity.
Qed.

(* bottom-up linked hash list: each element's previous hash is the element before it *)
Fixpoint up_linked (prevs : list (N * N)) (c : list N) : Prop :=
  match c with
  | a :: rest => match rest with
                 | b :: _ => lookup_prev prevs b = Some a
                 | [] => True
                 end /\ up_linked prevs rest
  | [] => True
  end.

Lemma up_linked_snoc prevs c y :
  up_linked prevs c -> (c = [] \/ lookup_prev prevs y = Some (last c 0)) -> up_linked prevs (c ++ [y]).
Proof.
  induction c as [|a c IH]; intros Hl Hy; cbn [app up_linked]; [auto|].
  destruct Hl as [Hh Ht]. destruct c as [|b c'].
  - cbn [app]. destruct Hy as [Hy|Hy]; [discriminate|]. cbn in Hy. cbn. auto.
  - cbn [app]. split; [exact Hh|]. apply IH; [exact Ht|].
    right. destruct Hy as [Hy|Hy]; [discriminate|]. exact Hy.
Qed.

Lemma last_rev_map_hash (A : list node) n : last (rev (map n_hash (n :: A))) 0 = n_hash n.
Proof. cbn [map rev]. apply last_last. Qed.

Lemma ancestors_up_linked l : wf l -> forall x, up_linked (prevs_of l) (chain_of l x).
Proof.
  intros Hw x. unfold chain_of.
  pose proof (ancestors_linked l Hw x) as Hl.
  assert (Hin : forall a, In a (ancestors l x) -> In a l) by (intros a; apply ancestors_in).
  induction (ancestors l x) as [|n A IH]; [exact I|].
  cbn [map rev]. destruct Hl as [Hn HA].
  apply up_linked_snoc.
  - apply IH; [exact HA|]. intros a Ha. apply Hin. right. exact Ha.
  - destruct A as [|p A']; [left; reflexivity|right].
    destruct Hn as [Hn _]. rewrite last_rev_map_hash.
    rewrite (lookup_prev_of l (n_hash n) n).
    + rewrite Hn. reflexivity.
    + apply wf_find_self; [exact Hw|]. apply Hin. left. reflexivity.
Qed.

Lemma ancestors_nodup l : wf l -> forall x, NoDup (map n_hash (ancestors l x)).
Proof.
  induction 1 as [g Hp Hh Hz|n p l Hw IH Hf Hnz Hpf Hh Hwk]; intros x.
  - cbn [ancestors]. destruct (n_hash g =? x); cbn; [constructor; [intros []|constructor]|constructor].
  - cbn [ancestors]. destruct (n_hash n =? x); [|apply IH].
    cbn [map]. constructor; [|apply IH].
    intros Hin. apply in_map_iff in Hin as (a & Ha & Hain).
    exact (find_none_notin _ _ Hf a (ancestors_in _ _ _ Hain) Ha).
Qed.

Lemma chain_of_nodup l : wf l -> forall x, NoDup (chain_of l x).
Proof. intros Hw x. unfold chain_of. apply NoDup_rev. apply ancestors_nodup. exact Hw. Qed.

(* both chains start at the root *)
Lemma chain_of_head l : wf l -> forall x n, find x l = Some n ->
  exists g rest, chain_of l x = n_hash g :: rest /\ In g l /\ n_prev g = 0.
Proof.
  intros Hw x n Hn. unfold chain_of.
  destruct (ancestors_head _ _ _ Hn) as [A HA].
  pose proof (ancestors_linked l Hw x) as Hl.
  assert (Hin : forall a, In a (ancestors l x) -> In a l) by (intros a; apply ancestors_in).
  rewrite HA in *. clear HA Hn.
  revert n Hl Hin. induction A as [|p A IH]; intros n Hl Hin.
  - exists n, []. cbn. destruct Hl as [Hp _]. split; [reflexivity|split; [apply Hin; left; reflexivity|exact Hp]].
  - destruct Hl as [_ Hl]. destruct (IH p Hl) as (g & rest & Hc & Hg & Hgp).
    { intros a Ha. apply Hin. right. exact Ha. }
    exists g, (rest ++ [n_hash n]). split; [|split; assumption].
    cbn [map rev] in *. rewrite Hc. reflexivity.
Qed.

Lemma root_unique l : wf l -> forall g1 g2, In g1 l -> In g2 l -> n_prev g1 = 0 -> n_prev g2 = 0 -> g1 = g2.
Proof.
  induction 1 as [g Hp Hh Hz|n p l Hw IH Hf Hnz Hpf Hh Hwk]; intros g1 g2 H1 H2 P1 P2.
  - destruct H1 as [<-|[]], H2 as [<-|[]]. reflexivity.
  - assert (Hn0 : n_prev n <> 0).
    { intros E. rewrite E in Hpf. destruct (find_some _ _ _ Hpf) as [Hz Hz0]. exact (wf_hash_nz l Hw p Hz Hz0). }
    destruct H1 as [<-|H1]; [contradiction|]. destruct H2 as [<-|H2]; [contradiction|].
    exact (IH g1 g2 H1 H2 P1 P2).
Qed.

(* ---------------------------------------------------------------------------------- *)
(* list facts about drop_common / take_upto / apply_stream                              *)

Lemma drop_common_split old new :
  exists cp ro, old = cp ++ ro /\ new = cp ++ drop_common old new.
Proof.
  revert new. induction old as [|a old IH]; intros new.
  - exists [], []. cbn. auto.
  - destruct new as [|b new]; [exists [], (a :: old); cbn; auto|].
    cbn [drop_common]. destruct (a =? b) eqn:E.
    + apply N.eqb_eq in E. subst b. destruct (IH new) as (cp & ro & H1 & H2).
      exists (a :: cp), ro. cbn [app]. rewrite <- H1, <- H2. auto.
    + exists [], (a :: old). cbn. auto.
Qed.

Lemma drop_common_head a old new :
  exists cp ro, a :: old = (a :: cp) ++ ro /\ a :: new = (a :: cp) ++ drop_common (a :: old) (a :: new).
Proof.
  cbn [drop_common]. rewrite N.eqb_refl. destruct (drop_common_split old new) as (cp & ro & H1 & H2).
  exists cp, ro. cbn [app]. rewrite <- H1, <- H2. auto.
Qed.

Lemma last_In (l : list N) d : l <> [] -> In (last l d) l.
Proof.
  induction l as [|a l IH]; intros H; [contradiction|].
  destruct l as [|b l']; [left; reflexivity|]. right. apply IH. discriminate.
Qed.

Lemma take_upto_cons x y c :
  take_upto x (y :: c) =
  if y =? x then Some [y]
  else match take_upto x c with Some r => Some (y :: r) | None => None end.
Proof. reflexivity. Qed.

Lemma take_upto_last cur junk : cur <> [] -> NoDup cur -> take_upto (last cur 0) (cur ++ junk) = Some cur.
Proof.
  induction cur as [|a cur IH]; intros Hne Hnd; [contradiction|].
  destruct cur as [|b cur'].
  - cbn. rewrite N.eqb_refl. reflexivity.
  - change (last (a :: b :: cur') 0) with (last (b :: cur') 0).
    change ((a :: b :: cur') ++ junk) with (a :: ((b :: cur') ++ junk)).
    rewrite take_upto_cons. inversion Hnd as [|? ? Hna Hnd']; subst.
    destruct (a =? last (b :: cur') 0) eqn:E.
    + apply N.eqb_eq in E. exfalso. apply Hna. rewrite E. apply last_In. discriminate.
    + rewrite IH; [reflexivity|discriminate|exact Hnd'].
Qed.

Lemma up_linked_tail prevs a c : up_linked prevs (a :: c) -> up_linked prevs c.
Proof. intros [_ H]. exact H. Qed.

Lemma up_linked_mid prevs cp x r : cp <> [] -> up_linked prevs (cp ++ x :: r) ->
  lookup_prev prevs x = Some (last cp 0).
Proof.
  induction cp as [|a cp IH]; intros Hne Hl; [contradiction|].
  destruct cp as [|b cp'].
  - cbn [app up_linked] in Hl. destruct Hl as [Hl _]. exact Hl.
  - change (last (a :: b :: cp') 0) with (last (b :: cp') 0).
    apply IH; [discriminate|]. exact (up_linked_tail _ _ _ Hl).
Qed.

Lemma last_snoc (c : list N) x : last (c ++ [x]) 0 = x.
Proof. apply last_last. Qed.

Lemma apply_stream_chain prevs : forall ann cur junk, ann <> [] -> cur <> [] ->
  NoDup (cur ++ ann) -> up_linked prevs (cur ++ ann) ->
  apply_stream prevs (cur ++ junk) ann = Some (cur ++ ann).
Proof.
  induction ann as [|x ann IH]; intros cur junk Hann Hcur Hnd Hl; [contradiction|].
  cbn [apply_stream]. rewrite attach_eq.
  rewrite (up_linked_mid prevs cur x ann Hcur Hl).
  assert (Hndc : NoDup cur) by (eapply NoDup_app_l; exact Hnd).
  rewrite (take_upto_last cur junk Hcur Hndc).
  destruct ann as [|y ann'].
  - cbn [apply_stream]. reflexivity.
  - specialize (IH (cur ++ [x]) []). rewrite app_nil_r in IH.
    rewrite IH; [rewrite <- app_assoc; reflexivity|discriminate| | |].
    + destruct cur; discriminate.
    + rewrite <- app_assoc. exact Hnd.
    + rewrite <- app_assoc. exact Hl.
Qed.

(* The stream theorem on the tree: for known headers old and new (new not a proper ancestor of
   old), applying announce(old,new) to old's chain yields new's chain; every announced header is
   on new's chain. *)
Theorem announce_reconstructs l old new o nw : wf l ->
  find old l = Some o -> find new l = Some nw ->
  (announce l old new <> [] \/ chain_of l old = chain_of l new) ->
  apply_stream (prevs_of l) (chain_of l old) (announce l old new) = Some (chain_of l new).
Proof.
  intros Hw Ho Hn Hcase.
  destruct (chain_of_head l Hw old o Ho) as (g1 & r1 & Hc1 & Hg1 & Hp1).
  destruct (chain_of_head l Hw new nw Hn) as (g2 & r2 & Hc2 & Hg2 & Hp2).
  assert (g1 = g2) by (eapply root_unique; eauto). subst g2.
  unfold announce in *. rewrite Hc1, Hc2 in *.
  destruct (drop_common_head (n_hash g1) r1 r2) as (cp & ro & H1 & H2).
  destruct (drop_common (n_hash g1 :: r1) (n_hash g1 :: r2)) as [|x ann] eqn:Ed.
  - destruct Hcase as [Hc|Hc]; [contradiction|]. cbn [apply_stream]. rewrite Hc. reflexivity.
  - rewrite H1. rewrite H2.
    apply apply_stream_chain; [discriminate|discriminate| |].
    + rewrite <- H2, <- Hc2. apply chain_of_nodup. exact Hw.
    + rewrite <- H2, <- Hc2. apply ancestors_up_linked. exact Hw.
Qed.

Theorem announce_on_chain l old new x : In x (announce l old new) -> In x (chain_of l new).
Proof.
  unfold announce. destruct (drop_common_split (chain_of l old) (chain_of l new)) as (cp & ro & _ & H2).
  intros Hx. rewrite H2. apply in_or_app. right. exact Hx.
Qed.
