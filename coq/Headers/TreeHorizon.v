(* The memory horizon: headers out of memory lie strictly below every header in memory, one per
   height.  With the state invariant this makes every header out of memory an ancestor of the
   reported tip, which lifts "maximal work among the headers in memory" to "maximal work among
   ALL accepted headers held" for every history, invalid marking included (C01). *)
From BR Require Import Base.Prelude Base.Compact Headers.Tree Headers.TreeBasics Headers.TreeInv
     Headers.TreeSteps.
Open Scope N_scope.

Definition Kh (l : list node) : Prop :=
  forall a b, In a l -> In b l -> n_mem a = false -> n_mem b = true -> (n_height a < n_height b)%Z.
Definition Ku (l : list node) : Prop :=
  forall a c, In a l -> In c l -> n_mem a = false -> n_mem c = false -> n_height a = n_height c -> a = c.
Definition K (l : list node) : Prop := Kh l /\ Ku l.

(* two headers of one chain at the same height are the same header *)
Lemma chain_unique_height l : wf l -> forall t a c, In a (ancestors l t) -> In c (ancestors l t) ->
  n_height a = n_height c -> a = c.
Proof.
  induction 1 as [g Hp Hh Hz|n p l Hw IH Hf Hnz Hpf Hh Hwk]; intros t a c Ha Hc Heq.
  - cbn [ancestors] in *. destruct (n_hash g =? t); [|destruct Ha].
    destruct Ha as [<-|[]]. destruct Hc as [<-|[]]. reflexivity.
  - cbn [ancestors] in Ha, Hc. destruct (n_hash n =? t) eqn:E.
    + assert (Hrest : forall x, In x (ancestors l (n_prev n)) -> (n_height x < n_height n)%Z).
      { intros x Hx. destruct (ancestors_height l Hw _ _ Hpf x Hx) as [->|Hlt]; lia. }
      destruct Ha as [<-|Ha]; destruct Hc as [<-|Hc]; try reflexivity.
      * specialize (Hrest c Hc). lia.
      * specialize (Hrest a Ha). lia.
      * exact (IH _ a c Ha Hc Heq).
    + exact (IH _ a c Ha Hc Heq).
Qed.

(* a chain has a header at every height up to its tip *)
Lemma anc_at_height l : wf l -> forall k x n, find x l = Some n -> (Z.of_nat k <= n_height n)%Z ->
  exists a, In a (ancestors l x) /\ n_height a = (n_height n - Z.of_nat k)%Z.
Proof.
  intros Hw. induction k as [|k IH]; intros x n Hn Hk.
  - exists n. destruct (ancestors_head _ _ _ Hn) as [rest Hr]. rewrite Hr. split; [left; reflexivity|lia].
  - destruct (find_some _ _ _ Hn) as [Hin _].
    destruct (wf_parent l Hw n Hin) as [[_ H0]|(p & Hp & Hh & _)]; [lia|].
    destruct (IH (n_prev n) p Hp) as (a & Ha & Hah); [lia|].
    exists a. split; [|lia]. rewrite (ancestors_step l Hw x n Hn). right. exact Ha.
Qed.

(* the consequence: a header out of memory is an ancestor of every header in memory *)
Lemma horizon_ancestor l : wf l -> K l -> forall a b, In a l -> In b l -> n_mem a = false -> n_mem b = true ->
  In a (ancestors l (n_hash b)).
Proof.
  intros Hw [Hkh Hku] a b Ha Hb Hma Hmb.
  pose proof (Hkh a b Ha Hb Hma Hmb) as Hlt.
  pose proof (wf_height_nonneg l Hw a Ha) as H0.
  destruct (anc_at_height l Hw (Z.to_nat (n_height b - n_height a)) (n_hash b) b (wf_find_self l Hw b Hb))
    as (a' & Ha' & Hh'); [lia|].
  assert (Heq : n_height a' = n_height a) by lia.
  pose proof (ancestors_in _ _ _ Ha') as Ha'l.
  destruct (n_mem a') eqn:Em.
  - pose proof (Hkh a a' Ha Ha'l Hma Em). lia.
  - rewrite <- (Hku a' a Ha'l Ha Em Hma Heq). exact Ha'.
Qed.

(* ---- preservation ------------------------------------------------------------------------ *)

Lemma K_filter keep l : K l -> K (filter keep l).
Proof.
  intros [Hh Hu]. split.
  - intros a b Ha Hb. apply filter_In in Ha as [Ha _]. apply filter_In in Hb as [Hb _]. apply Hh; assumption.
  - intros a c Ha Hc. apply filter_In in Ha as [Ha _]. apply filter_In in Hc as [Hc _]. apply Hu; assumption.
Qed.

Lemma K_cons n p l : K l -> In p l -> n_mem p = true -> n_mem n = true -> (n_height p < n_height n)%Z -> K (n :: l).
Proof.
  intros [Hh Hu] Hp Hpm Hnm Hlt. split.
  - intros a b [<-|Ha] [<-|Hb] Hma Hmb; try congruence.
    + pose proof (Hh a p Ha Hp Hma Hpm). lia.
    + apply Hh; assumption.
  - intros a c [<-|Ha] [<-|Hc] Hma Hmc; try congruence. apply Hu; assumption.
Qed.

(* a map that keeps the cores and only clears memory flags of chain-of-t headers below a bound that
   every other in-memory header exceeds *)
Lemma K_map_prune f l t (P : Z) : wf l -> keeps_core f -> K l ->
  (forall n, In n l -> n_mem (f n) = if is_anc l (n_hash n) t then n_mem n && (P <=? n_height n)%Z else n_mem n) ->
  (forall c, In c l -> n_mem c = true -> is_anc l (n_hash c) t = false -> (P <= n_height c - 1)%Z) ->
  K (map f l).
Proof.
  intros Hw Hf [Hh Hu] Hmem Hside. split.
  - intros a' b' Ha' Hb' Hma Hmb.
    apply in_map_iff in Ha' as (a & <- & Ha). apply in_map_iff in Hb' as (b & <- & Hb).
    rewrite !(keeps_core_height f _ Hf). rewrite (Hmem a Ha) in Hma. rewrite (Hmem b Hb) in Hmb.
    assert (Hbm : n_mem b = true).
    { destruct (is_anc l (n_hash b) t); [apply andb_true_iff in Hmb; tauto|exact Hmb]. }
    destruct (n_mem a) eqn:Ema; [|apply Hh; assumption].
    destruct (is_anc l (n_hash a) t) eqn:Eaa; [|discriminate].
    cbn [andb] in Hma. apply Z.leb_gt in Hma.
    destruct (is_anc l (n_hash b) t) eqn:Eab.
    + apply andb_true_iff in Hmb as [_ Hpb]. apply Z.leb_le in Hpb. lia.
    + pose proof (Hside b Hb Hbm Eab). lia.
  - intros a' c' Ha' Hc' Hma Hmc Heq.
    apply in_map_iff in Ha' as (a & <- & Ha). apply in_map_iff in Hc' as (c & <- & Hc).
    rewrite !(keeps_core_height f _ Hf) in Heq. rewrite (Hmem a Ha) in Hma. rewrite (Hmem c Hc) in Hmc.
    assert (a = c); [|subst; reflexivity].
    destruct (n_mem a) eqn:Ema; destruct (n_mem c) eqn:Emc.
    + (* both newly out of memory: both on the chain of t *)
      destruct (is_anc l (n_hash a) t) eqn:Eaa; [|discriminate].
      destruct (is_anc l (n_hash c) t) eqn:Eac; [|discriminate].
      apply is_anc_spec in Eaa as (a0 & Ha0 & Hh0). apply is_anc_spec in Eac as (c0 & Hc0 & Hhc0).
      assert (a0 = a).
      { pose proof (wf_find_self l Hw a0 (ancestors_in _ _ _ Ha0)) as H1. rewrite Hh0, (wf_find_self l Hw a Ha) in H1. congruence. }
      assert (c0 = c).
      { pose proof (wf_find_self l Hw c0 (ancestors_in _ _ _ Hc0)) as H1. rewrite Hhc0, (wf_find_self l Hw c Hc) in H1. congruence. }
      subst. exact (chain_unique_height l Hw t a c Ha0 Hc0 Heq).
    + pose proof (Hh c a Hc Ha Emc Ema). lia.
    + pose proof (Hh a c Ha Hc Ema Emc). lia.
    + apply Hu; assumption.
Qed.

Lemma K_map_same f l : keeps_core f -> (forall n, n_mem (f n) = n_mem n) -> K l -> K (map f l).
Proof.
  intros Hf Hm [Hh Hu]. split.
  - intros a' b' Ha' Hb'. apply in_map_iff in Ha' as (a & <- & Ha). apply in_map_iff in Hb' as (b & <- & Hb).
    rewrite !Hm, !(keeps_core_height f _ Hf). apply Hh; assumption.
  - intros a' c' Ha' Hc'. apply in_map_iff in Ha' as (a & <- & Ha). apply in_map_iff in Hc' as (c & <- & Hc).
    rewrite !Hm, !(keeps_core_height f _ Hf). intros H1 H2 H3. rewrite (Hu a c Ha Hc H1 H2 H3). reflexivity.
Qed.

(* the prune height stays below every in-memory header that is not on the best chain *)
Lemma prune_height_side l t d c : In c l -> n_mem c = true -> on_chain (chain_of l t) c = false ->
  (prune_height l t d <= n_height c - 1)%Z.
Proof.
  unfold prune_height. generalize (chain_of l t) (height_of l t - d)%Z. intros main init Hc Hm Ho.
  induction l as [|n l0 IH]; [destruct Hc|]. cbn [fold_right].
  destruct Hc as [->|Hc].
  - rewrite Hm, Ho. cbn [negb andb]. lia.
  - specialize (IH Hc). destruct (n_mem n && negb (on_chain main n)); lia.
Qed.

Lemma clean_K l t d : wf l -> K l -> K (clean_nodes l t d).
Proof.
  intros Hw HK. rewrite clean_nodes_eq.
  apply (K_map_prune (clean_f l t d) l t (prune_height (consolidate l t) t d) Hw (clean_f_core l t d) HK).
  - intros n _. apply clean_f_mem.
  - intros c Hc Hm Hanc.
    assert (Hin : In (consolidate_f (chain_of l t) c) (consolidate l t)) by (rewrite consolidate_eq; apply in_map; exact Hc).
    pose proof (prune_height_side (consolidate l t) t d _ Hin) as H.
    rewrite consolidate_f_mem in H. specialize (H Hm).
    rewrite consolidate_eq, chain_of_map in H by apply consolidate_f_core.
    rewrite (on_chain_core _ _ c (consolidate_f_core (chain_of l t))), on_chain_is_anc in H.
    specialize (H Hanc). rewrite (keeps_core_height _ c (consolidate_f_core (chain_of l t))) in H. exact H.
Qed.

Lemma srh_le l main x n : wf l -> find x l = Some n -> (side_root_height l main x <= n_height n)%Z.
Proof.
  intros Hw Hn. rewrite side_root_height_eq.
  pose proof (wf_height_nonneg l Hw n (proj1 (find_some _ _ _ Hn))) as H0.
  assert (G : forall A acc, (acc <= n_height n)%Z -> (forall a, In a A -> (n_height a <= n_height n)%Z) ->
              (fold_left (srh_step main) A acc <= n_height n)%Z).
  { induction A as [|a A IH]; intros acc Hacc HA; cbn [fold_left]; [exact Hacc|].
    apply IH; [|intros b Hb; apply HA; right; exact Hb].
    unfold srh_step. destruct (memN (n_hash a) main); [exact Hacc|apply HA; left; reflexivity]. }
  apply G; [lia|]. intros a Ha. destruct (ancestors_height l Hw x n Hn a Ha) as [->|Hlt]; lia.
Qed.

Lemma load_K sn d : wf (sn_nodes sn) -> K (load_nodes sn d).
Proof.
  intros Hw. rewrite load_nodes_eq. cbv zeta.
  set (l := sn_nodes sn) in *. set (t := sn_tip sn). set (main := chain_of l t).
  set (p := (height_of l t - d)%Z).
  assert (Hmem : forall n, n_mem (load_f main p n) = if is_anc l (n_hash n) t then (p <=? n_height n)%Z else true).
  { intros n. unfold load_f. unfold main. rewrite on_chain_is_anc. destruct (is_anc l (n_hash n) t); reflexivity. }
  split.
  - intros a' b' Ha' Hb' Hma Hmb.
    apply in_map_iff in Ha' as (a & <- & Ha). apply in_map_iff in Hb' as (b & <- & Hb).
    apply filter_In in Ha as [Ha _]. apply filter_In in Hb as [Hb Hkb].
    rewrite !(keeps_core_height _ _ (load_f_core main p)). rewrite Hmem in Hma, Hmb.
    destruct (is_anc l (n_hash a) t); [|discriminate]. apply Z.leb_gt in Hma.
    destruct (is_anc l (n_hash b) t) eqn:Eb.
    + apply Z.leb_le in Hmb. lia.
    + unfold load_keep in Hkb. unfold main in Hkb. rewrite on_chain_is_anc, Eb in Hkb. cbn [orb] in Hkb.
      apply Z.ltb_lt in Hkb. pose proof (srh_le l (chain_of l t) (n_hash b) b Hw (wf_find_self l Hw b Hb)). lia.
  - intros a' c' Ha' Hc' Hma Hmc Heq.
    apply in_map_iff in Ha' as (a & <- & Ha). apply in_map_iff in Hc' as (c & <- & Hc).
    apply filter_In in Ha as [Ha _]. apply filter_In in Hc as [Hc _].
    rewrite !(keeps_core_height _ _ (load_f_core main p)) in Heq. rewrite Hmem in Hma, Hmc.
    assert (a = c); [|subst; reflexivity].
    destruct (is_anc l (n_hash a) t) eqn:Eaa; [|discriminate].
    destruct (is_anc l (n_hash c) t) eqn:Eac; [|discriminate].
    apply is_anc_spec in Eaa as (a0 & Ha0 & Hh0). apply is_anc_spec in Eac as (c0 & Hc0 & Hhc0).
    assert (a0 = a).
    { pose proof (wf_find_self l Hw a0 (ancestors_in _ _ _ Ha0)) as H1. rewrite Hh0, (wf_find_self l Hw a Ha) in H1. congruence. }
    assert (c0 = c).
    { pose proof (wf_find_self l Hw c0 (ancestors_in _ _ _ Hc0)) as H1. rewrite Hhc0, (wf_find_self l Hw c Hc) in H1. congruence. }
    subst. exact (chain_unique_height l Hw t a c Ha0 Hc0 Heq).
Qed.

Lemma submit_K cfg s h pick : cfg_ok cfg -> Inv s -> op_ok s (OSubmit h pick) -> K (nodes s) ->
  K (nodes (fst (submit cfg s h pick))).
Proof.
  intros Hcfg HI Hok HK. pose proof HI as (Hw & Ha & Hc & Hs).
  unfold submit.
  destruct (negb (bits_valid (h_bits h))) eqn:Eb; [exact HK|].
  apply negb_false_iff in Eb.
  destruct (find_mem (nodes s) (h_prev h)) as [p|] eqn:Ep; [|exact HK].
  destruct (find_mem (nodes s) (h_hash h)) as [dup|] eqn:Ed; [exact HK|].
  destruct (memN (h_hash h) (invalid s)); [exact HK|].
  set (nb := has_cont_child (nodes s) (h_prev h)).
  destruct (nb && (c_maxdepth cfg <? tip_height s - n_height p)%Z); [exact HK|].
  cbn [fst].
  set (n := mkNode h (n_height p + 1) (n_work p + work_of_bits (h_bits h)) true nb).
  assert (Hfresh : find (h_hash h) (nodes s) = None) by (eapply submit_fresh; eauto).
  destruct (find_mem_some _ _ _ Ep) as [Hpf Hpm].
  assert (Hw1 : wf (n :: nodes s)).
  { apply (wf_cons n p); try assumption; try reflexivity.
    - exact (proj1 Hok).
    - cbn [n n_work]. pose proof (work_of_bits_pos _ Eb). lia. }
  assert (HK1 : K (n :: nodes s)).
  { apply (K_cons n p); [exact HK|exact (proj1 (find_some _ _ _ Hpf))|exact Hpm|reflexivity|cbn [n n_height]; lia]. }
  destruct (negb nb && (choose_tip (n :: nodes s) (tip s) pick =? h_hash h) && (0 <? c_autoclean cfg)%Z &&
            ((n_height p + 1) mod c_autoclean cfg =? 0)%Z); cbn [nodes].
  - apply clean_K; assumption.
  - exact HK1.
Qed.

Lemma step_K cfg s o : cfg_ok cfg -> Inv s -> op_ok s o -> K (nodes s) -> K (nodes (fst (step cfg s o))).
Proof.
  intros Hcfg HI Hok HK. pose proof HI as (Hw & _ & _ & Hs). destruct o; cbn [step].
  - apply submit_K; assumption.
  - unfold mark. destruct (memN x (invalid s)); [exact HK|].
    destruct (find_mem (nodes s) x); cbn [fst nodes]; [apply K_filter; exact HK|exact HK].
  - unfold unmark. destruct (memN x (invalid s)); exact HK.
  - unfold clean. cbn [fst nodes]. apply clean_K; assumption.
  - unfold save. cbn [fst nodes]. rewrite consolidate_eq.
    apply K_map_same; [apply consolidate_f_core|intros n; apply consolidate_f_mem|exact HK].
  - unfold load. destruct (saved s) as [sn|]; [|exact HK]. cbn [fst nodes]. apply load_K. exact (proj1 Hs).
  - exact HK.
  - exact HK.
  - exact HK.
Qed.

Theorem run_K cfg ops : cfg_ok cfg -> forall s, Inv s -> ops_ok cfg s ops -> K (nodes s) ->
  K (nodes (fst (run cfg s ops))).
Proof.
  intros Hcfg. induction ops as [|o ops IH]; intros s HI Hok HK; cbn [run]; [exact HK|].
  cbn [ops_ok] in Hok. destruct Hok as [Ho Hrest].
  pose proof (step_inv cfg s o Hcfg HI Ho) as HI1.
  pose proof (step_K cfg s o Hcfg HI Ho HK) as HK1.
  destruct (step cfg s o) as [s1 r] eqn:E. cbn [fst] in *.
  specialize (IH s1 HI1 Hrest HK1). destruct (run cfg s1 ops) as [s2 rs]. exact IH.
Qed.

Lemma init_K g : K (nodes (init g)).
Proof.
  split; intros a b [<-|[]] [<-|[]]; cbn; try discriminate; reflexivity.
Qed.

(* C01, full: in every reachable state the reported tip carries maximal cumulative work among
   ALL accepted headers the repository holds - in memory or not, whatever was marked invalid *)
Theorem tip_max_work_all s : Inv s -> K (nodes s) ->
  forall a, In a (nodes s) -> n_work a <= work_of (nodes s) (tip s).
Proof.
  intros (Hw & Ha & _ & _) HK a Hin.
  apply (admissible_spec _ _ Hw) in Ha as (T & HT & HTh & HTm & HTw).
  unfold work_of. rewrite <- HTh, (wf_find_self _ Hw T HT).
  destruct (n_mem a) eqn:Em.
  - rewrite HTw. apply max_work_mem_ge; assumption.
  - pose proof (horizon_ancestor _ Hw HK a T Hin HT Em HTm) as Hanc.
    destruct (ancestors_work _ Hw _ _ (wf_find_self _ Hw T HT) a Hanc) as [->|Hlt]; lia.
Qed.

Theorem max_work_every_history cfg g ops : cfg_ok cfg -> genesis_ok g -> ops_ok cfg (init g) ops ->
  let s := fst (run cfg (init g) ops) in
  forall a, In a (nodes s) -> n_work a <= work_of (nodes s) (tip s).
Proof.
  intros Hcfg Hg Hok s. apply tip_max_work_all.
  - exact (run_inv cfg ops Hcfg (init g) (init_inv g Hg) Hok).
  - exact (run_K cfg ops Hcfg (init g) (init_inv g Hg) Hok (init_K g)).
Qed.
