(* Branch.GetLocatorHashes with the chain-split fork points (headers/branches.go) on a best chain
   given by its hashes, for the part of C19 that depends on the split table: the synthetic trees
   of Headers/Tree.v live far below the split heights, this model runs on the real fixture chain.

   [hash_at h] is the best-chain hash at height h; the branch holds heights [low ..] in memory.
   Entries are (height, hash, is_fork_point) in the order the code appends them. *)
From BR Require Import Base.Prelude Gen.Consts Headers.Splits.
Open Scope Z_scope.

Definition entry := (Z * N * bool)%type.

Section Walk.
Variable hash_at : Z -> N.
Variable low : Z.
Variable sps : list (N * N * Z).        (* (before, after, height), highest first *)

(* fork points passed between two consecutive locator heights: prev >= height > h *)
Fixpoint passed (sps : list (N * N * Z)) (added : list bool) (h prev : Z) : list entry * list bool :=
  match sps, added with
  | s :: sps', a :: added' =>
      let '(es, ad) := passed sps' added' h prev in
      if negb a && (h <? split_height s) && (split_height s <=? prev)
      then ((split_height s, split_before s, true) :: es, true :: ad)
      else (es, a :: ad)
  | _, _ => ([], added)
  end.

(* fork points below the height where the walk stopped *)
Fixpoint remaining (sps : list (N * N * Z)) (added : list bool) (h : Z) : list entry :=
  match sps, added with
  | s :: sps', a :: added' =>
      if negb a && (split_height s <? h) then (split_height s, split_before s, true) :: remaining sps' added' h
      else remaining sps' added' h
  | _, _ => []
  end.

Fixpoint walk (fuel : nat) (h prev delta : Z) (max : nat) (added : list bool) (acc : list entry) : list entry :=
  match fuel with
  | O => acc
  | S f =>
      let '(es, added1) := if prev =? -1 then ([], added) else passed sps added h prev in
      let acc1 := acc ++ es in
      if h <? low then acc1 ++ remaining sps added1 h       (* AtHeight = nil: pruned *)
      else
        let acc2 := acc1 ++ [(h, hash_at h, false)] in
        if (max <=? length acc2)%nat then acc2 ++ remaining sps added1 h
        else if h <=? delta then acc2 ++ remaining sps added1 h
        else walk f (h - delta) h (delta * 2) max added1 acc2
  end.

Definition branch_locator (tip : Z) (max : nat) : list entry :=
  if tip =? 0 then [(0, hash_at 0, false)]
  else walk (Z.to_nat tip + 1) (tip - 1) (-1) 5 max (map (fun _ => false) sps) [].
End Walk.

(* the split table as the repository holds it: highest first *)
Fixpoint insert_split (s : N * N * Z) (l : list (N * N * Z)) : list (N * N * Z) :=
  match l with
  | [] => [s]
  | q :: l' => if split_height q <? split_height s then s :: l else q :: insert_split s l'
  end.
Definition splits_sorted : list (N * N * Z) := fold_right insert_split [] splits.

Fixpoint insert_entry (p : entry) (l : list entry) : list entry :=
  match l with
  | [] => [p]
  | q :: l' => if fst (fst q) <=? fst (fst p) then p :: l else q :: insert_entry p l'   (* stable *)
  end.

(* Repository.GetLocatorHashes on a repository without side branches *)
Definition repo_locator (hash_at : Z -> N) (low tip : Z) (max : nat) : list N :=
  dedupN [] (map (fun e => snd (fst e)) (fold_right insert_entry [] (branch_locator hash_at low splits_sorted tip max))).

Definition best_count (l : list entry) : nat := length (filter (fun e => negb (snd e)) l).

(* correspondence on the fixture chain: heights base .. base + length chain - 1 *)
Definition chain_hash (chain : list N) (base : Z) (h : Z) : N := nth (Z.to_nat (h - base)) chain 0%N.

Record lcase := mkLCase { lc_tip : Z; lc_max : nat; lc_obs : list N }.
Definition lcase_ok (chain : list N) (base : Z) (c : lcase) : bool :=
  listN_eqb (repo_locator (chain_hash chain base) base (lc_tip c) (lc_max c)) (lc_obs c).
Definition lmismatches (chain : list N) (base : Z) (cs : list lcase) : list N :=
  failing (map (lcase_ok chain base) cs).
