(* Proofs about the proof-of-work model (C02). *)
From BR Require Import Base.Prelude Base.Compact Gen.Consts Headers.Tree Headers.Pow.
Open Scope N_scope.

(* --- the compact decoder --------------------------------------------------------------- *)

Theorem decode_panics_iff bits : (exists s, decode_bits bits = Panic s) <-> bits_valid bits = false.
Proof.
  unfold decode_bits, bits_valid. split.
  - intros [s H]. destruct (adj_len bits =? 0) eqn:E0; [discriminate|].
    destruct (adj_len bits =? 1) eqn:E1; [reflexivity|].
    destruct (adj_len bits =? 2); discriminate.
  - intros H. apply negb_false_iff in H. rewrite H.
    apply N.eqb_eq in H. rewrite H. cbn. eauto.
Qed.

Theorem decode_total bits : bits_valid bits = true -> exists d, decode_bits bits = Ok d.
Proof.
  unfold decode_bits, bits_valid. intros H. apply negb_true_iff in H. rewrite H.
  destruct (adj_len bits =? 0); [eauto|]. destruct (adj_len bits =? 2); eauto.
Qed.

(* in terms of the raw fields of a 32-bit value: exponent byte 1 with a non-zero high mantissa
   byte, or exponent byte 2 with a zero high mantissa byte *)
Theorem bits_invalid_raw bits : bits < 4294967296 ->
  (bits_valid bits = false <->
   (bits / 16777216 = 1 /\ (bits / 65536) mod 256 <> 0) \/
   (bits / 16777216 = 2 /\ (bits / 65536) mod 256 = 0)).
Proof.
  intros Hb. unfold bits_valid, adj_len.
  assert (Hexp : (bits / 16777216) mod 256 = bits / 16777216) by (apply N.mod_small; lia).
  rewrite Hexp. rewrite negb_false_iff, N.eqb_eq.
  destruct ((bits / 65536) mod 256 =? 0) eqn:E.
  - apply N.eqb_eq in E. split.
    + intros H. right. split; [|exact E]. lia.
    + intros [[H1 H2]|[H1 _]]; [contradiction|]. rewrite H1. reflexivity.
  - apply N.eqb_neq in E. split.
    + intros H. left. auto.
    + intros [[H1 _]|[_ H2]]; [exact H1|contradiction].
Qed.

(* a normal compact value: exponent e >= 3, mantissa with a non-zero high byte *)
Theorem decode_normal e m : 3 <= e -> e < 256 -> 65536 <= m -> m < 16777216 ->
  decode_bits (e * 16777216 + m) = Ok (m * 256 ^ (e - 3)).
Proof.
  intros He1 He2 Hm1 Hm2. unfold decode_bits, adj_len, adj_bits.
  assert (H1 : (e * 16777216 + m) / 16777216 = e) by lia.
  assert (H2 : ((e * 16777216 + m) / 65536) mod 256 = m / 65536) by lia.
  rewrite H1, H2.
  assert (H3 : m / 65536 =? 0 = false) by (apply N.eqb_neq; lia). rewrite H3.
  assert (H4 : e mod 256 = e) by (apply N.mod_small; lia). rewrite H4.
  destruct (e =? 0) eqn:E0; [apply N.eqb_eq in E0; lia|].
  destruct (e =? 1) eqn:E1; [apply N.eqb_eq in E1; lia|].
  destruct (e =? 2) eqn:E2; [apply N.eqb_eq in E2; lia|].
  f_equal. f_equal.
  assert (((e * 16777216 + m) / 65536) mod 256 * 65536 + ((e * 16777216 + m) / 256) mod 256 * 256 +
          (e * 16777216 + m) mod 256 = m) by lia.
  exact H.
Qed.

(* ConvertToWork is the usual 2^256 / (target + 1) *)
Lemma lxor_all256 d : d < two256 -> N.lxor all256 d = all256 - d.
Proof.
  intros Hd.
  assert (Hones : all256 = N.ones 256)
    by (unfold all256, two256; rewrite N.ones_equiv, N.sub_1_r; reflexivity).
  rewrite Hones, N.lxor_comm. change (N.lxor d (N.ones 256)) with (N.lnot d 256).
  destruct (N.eq_dec d 0) as [->|Hnz].
  - rewrite N.lnot_0_l. lia.
  - apply N.lnot_sub_low. apply N.log2_lt_pow2; [lia|exact Hd].
Qed.

Theorem work_of_target_div d : d < two256 -> work_of_target d = two256 / (d + 1).
Proof.
  intros Hd. unfold work_of_target. rewrite lxor_all256 by exact Hd.
  unfold all256. replace two256 with ((two256 - 1 - d) + 1 * (d + 1)) at 2 by lia.
  rewrite N.div_add by lia. reflexivity.
Qed.

(* --- the median ------------------------------------------------------------------------- *)

Theorem median_code_eq_net b0 b1 b2 : median3_code false b0 b1 b2 = median3_net b0 b1 b2.
Proof. reflexivity. Qed.

(* it is a median by time, and one of the three *)
Theorem median_net_is_one_of b0 b1 b2 :
  let m := median3_net b0 b1 b2 in
  (m = b0 \/ m = b1 \/ m = b2) /\
  (exists lo hi, (lo = b0 \/ lo = b1 \/ lo = b2) /\ (hi = b0 \/ hi = b1 \/ hi = b2) /\
                 fst lo <= fst m /\ fst m <= fst hi).
Proof.
  cbv zeta. unfold median3_net.
  destruct (fst b2 <? fst b0) eqn:E1;
  [destruct (fst b1 <? fst b2) eqn:E2|destruct (fst b1 <? fst b0) eqn:E2];
  match goal with |- context [if fst ?x <? fst ?y then _ else _] => destruct (fst x <? fst y) eqn:E3 end;
  (split; [tauto|]).
  all: repeat match goal with H : (_ <? _) = true |- _ => apply N.ltb_lt in H
                             | H : (_ <? _) = false |- _ => apply N.ltb_ge in H end.
  all: first [ exists b0, b2; repeat split; try tauto; lia
             | exists b2, b0; repeat split; try tauto; lia
             | exists b1, b0; repeat split; try tauto; lia
             | exists b0, b1; repeat split; try tauto; lia
             | exists b1, b2; repeat split; try tauto; lia
             | exists b2, b1; repeat split; try tauto; lia ].
Qed.

(* --- the target -------------------------------------------------------------------------- *)

Theorem target_code_eq_net f0 f1 f2 l0 l1 l2 :
  target_code false f0 f1 f2 l0 l1 l2 = target_net f0 f1 f2 l0 l1 l2.
Proof. reflexivity. Qed.

(* never above the proof-of-work limit *)
Theorem target_capped f0 f1 f2 l0 l1 l2 : target_net f0 f1 f2 l0 l1 l2 <= max_work.
Proof.
  unfold target_net, target_of_medians_net.
  destruct (_ <=? 0)%Z; [lia|]. apply N.le_min_r.
Qed.

(* the time span that enters the division is signed and clamped to [72, 288] blocks' worth *)
Theorem span_clamped s : (daa_min_span <= clamp_span s <= daa_max_span)%Z.
Proof. unfold clamp_span, daa_min_span, daa_max_span. lia. Qed.

Theorem consts_are_consensus :
  daa_activation_height = 556767%Z /\ daa_window = 144%Z /\ daa_samples = 3%Z /\
  daa_min_span = (72 * 600)%Z /\ daa_max_span = (288 * 600)%Z /\ daa_spacing = 600%Z.
Proof. repeat split; reflexivity. Qed.

(* the three defects of the pinned commit, machine-checked on the as-found model *)
Theorem target_as_found_refuted :
  (* D3: timestamps tie -> a different median block *)
  (exists b0 b1 b2, median3_code true b0 b1 b2 <> median3_net b0 b1 b2) /\
  (* D4: decreasing timestamps -> the uint32 span wraps and is clamped to the upper bound *)
  (exists f l, target_of_medians_code true f l <> target_of_medians_net f l /\ fst l < fst f) /\
  (* D2: evenly spaced blocks of equal bits 0x1c0fffff: the last digit of the compact bits *)
  (exists f l, fst l = fst f + 144 * 600 /\
     encode_bits (target_of_medians_code true f l) max_bits = 470810622 /\
     encode_bits (target_of_medians_net f l) max_bits = 470810623).
Proof.
  split; [|split].
  - exists (4800, 1), (0, 2), (0, 3). vm_compute. discriminate.
  - exists (100000, 0), (0, 144 * work_of_bits 486604799). split; [vm_compute; discriminate|vm_compute; reflexivity].
  - exists (0, 0), (86400, 144 * work_of_bits 470810623). repeat split; vm_compute; reflexivity.
Qed.

(* --- the verdict --------------------------------------------------------------------------- *)

Theorem pow_never_panics difficulty x : forall s, pow_verdict false difficulty x <> Panic s.
Proof.
  intros s. unfold pow_verdict. cbn [negb andb].
  destruct (bits_valid (pi_bits x)) eqn:Eb; cbn [negb]; [|discriminate].
  destruct (decode_total _ Eb) as [d Hd].
  unfold work_is_valid. rewrite Hd.
  destruct difficulty.
  - destruct (pi_hash x <=? d); [|discriminate].
    destruct (negb (pi_parent_known x)); [discriminate|].
    destruct (pi_dup x); [discriminate|]. cbn [andb].
    destruct (daa_activation_height <=? pi_height x)%Z; [|discriminate].
    destruct (pi_samples x) as [[[[[[f0 f1] f2] l0] l1] l2]|]; [|discriminate].
    destruct (_ =? pi_bits x); discriminate.
  - destruct (negb (pi_parent_known x)); [discriminate|].
    destruct (pi_dup x); discriminate.
Qed.

Theorem pow_as_found_panics :
  exists x s, pow_verdict true true x = Panic s /\ pi_bits x = 16842752.   (* 0x01010000 *)
Proof.
  exists (mkPowIn 1 16842752 5 true false None). eexists. split; vm_compute; reflexivity.
Qed.

(* what an accepting answer for a new header implies (difficulty checks on) *)
Theorem pow_accept_sound x : pow_verdict false true x = Ok VOk -> pi_dup x = false ->
  pi_parent_known x = true /\
  (exists d, decode_bits (pi_bits x) = Ok d /\ pi_hash x <= d) /\
  ((daa_activation_height <= pi_height x)%Z ->
     exists f0 f1 f2 l0 l1 l2, pi_samples x = Some (f0, f1, f2, l0, l1, l2) /\
       pi_bits x = encode_bits (target_net f0 f1 f2 l0 l1 l2) max_bits).
Proof.
  unfold pow_verdict. cbn [negb andb]. intros H Hdup.
  destruct (bits_valid (pi_bits x)) eqn:Eb; cbn [negb] in H; [|discriminate].
  destruct (decode_total _ Eb) as [d Hd].
  unfold work_is_valid in H. rewrite Hd in H.
  destruct (pi_hash x <=? d) eqn:Ew; [|discriminate].
  destruct (pi_parent_known x); cbn [negb] in H; [|discriminate].
  rewrite Hdup in H.
  split; [reflexivity|]. split; [exists d; split; [exact Hd|apply N.leb_le; exact Ew]|].
  intros Hact. apply Z.leb_le in Hact. rewrite Hact in H.
  destruct (pi_samples x) as [[[[[[f0 f1] f2] l0] l1] l2]|]; [|discriminate].
  destruct (encode_bits _ max_bits =? pi_bits x) eqn:Ee; [|discriminate].
  apply N.eqb_eq in Ee. exists f0, f1, f2, l0, l1, l2. split; [reflexivity|].
  rewrite <- Ee. reflexivity.
Qed.

(* and the converse: a new header with a known parent that meets its target and carries the
   required bits is accepted *)
Theorem pow_accept_complete x d f0 f1 f2 l0 l1 l2 :
  bits_valid (pi_bits x) = true -> decode_bits (pi_bits x) = Ok d -> pi_hash x <= d ->
  pi_parent_known x = true -> pi_dup x = false ->
  pi_samples x = Some (f0, f1, f2, l0, l1, l2) ->
  pi_bits x = encode_bits (target_net f0 f1 f2 l0 l1 l2) max_bits ->
  pow_verdict false true x = Ok VOk.
Proof.
  intros Hb Hd Hle Hp Hdup Hs He. unfold pow_verdict, work_is_valid.
  rewrite Hb, Hd, Hp, Hdup, Hs. cbn [negb andb].
  apply N.leb_le in Hle. rewrite Hle.
  destruct (daa_activation_height <=? pi_height x)%Z; [|reflexivity].
  rewrite target_code_eq_net, <- He, N.eqb_refl. reflexivity.
Qed.
