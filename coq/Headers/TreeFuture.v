(* C10, the future: a submission is answered the same - verdict and announcement - by a repository
   that has been cleaned and by one that has not, whenever the parent of the submitted header is
   still held in memory after the Clean and the parent's branch-continuation status is the same
   (which it always is for a parent off the best chain: "side branches can still be extended"). *)
From BR Require Import Base.Prelude Base.Compact Headers.Tree Headers.TreeBasics Headers.TreeInv
     Headers.TreeSteps Headers.TreeHorizon.
Open Scope N_scope.

(* b is a with possibly less memory; what is lost is lighter than W *)
Definition rel (W : N) (a b : node) : Prop :=
  core b = core a /\ (n_mem b = true -> n_mem a = true) /\
  (n_mem a = true -> n_mem b = false -> n_work a < W).

Lemma rel_hash W a b : rel W a b -> n_hash b = n_hash a.
Proof. intros [H _]. unfold core in H. unfold n_hash. congruence. Qed.
Lemma rel_prev W a b : rel W a b -> n_prev b = n_prev a.
Proof. intros [H _]. unfold core in H. unfold n_prev. congruence. Qed.
Lemma rel_work W a b : rel W a b -> n_work b = n_work a.
Proof. intros [H _]. unfold core in H. congruence. Qed.
Lemma rel_height W a b : rel W a b -> n_height b = n_height a.
Proof. intros [H _]. unfold core in H. congruence. Qed.

Lemma find_rel W l l' : Forall2 (rel W) l l' -> forall x,
  match find x l, find x l' with
  | Some a, Some b => rel W a b
  | None, None => True
  | _, _ => False
  end.
Proof.
  induction 1 as [|a b l l' Hab _ IH]; intros x; cbn [find]; [exact I|].
  rewrite (rel_hash _ _ _ Hab). destruct (n_hash a =? x); [exact Hab|apply IH].
Qed.

Lemma ancestors_rel W l l' : Forall2 (rel W) l l' -> forall x,
  map n_hash (ancestors l' x) = map n_hash (ancestors l x) /\
  map n_height (ancestors l' x) = map n_height (ancestors l x).
Proof.
  induction 1 as [|a b l l' Hab _ IH]; intros x; cbn [ancestors]; [split; reflexivity|].
  rewrite (rel_hash _ _ _ Hab). destruct (n_hash a =? x); [|apply IH].
  cbn [map]. rewrite (rel_hash _ _ _ Hab), (rel_prev _ _ _ Hab), (rel_height _ _ _ Hab).
  destruct (IH (n_prev a)) as [H1 H2]. rewrite H1, H2. split; reflexivity.
Qed.

Lemma chain_of_rel W l l' x : Forall2 (rel W) l l' -> chain_of l' x = chain_of l x.
Proof. intros H. unfold chain_of. rewrite (proj1 (ancestors_rel W l l' H x)). reflexivity. Qed.

Lemma height_of_rel W l l' x : Forall2 (rel W) l l' -> height_of l' x = height_of l x.
Proof.
  intros H. unfold height_of. pose proof (find_rel W l l' H x) as F.
  destruct (find x l) as [a|], (find x l') as [b|]; try contradiction; [|reflexivity].
  exact (rel_height _ _ _ F).
Qed.

Lemma max_le_rel W l l' : Forall2 (rel W) l l' -> forall M0, W <= M0 -> max_work_mem l' <= M0 -> max_work_mem l <= M0.
Proof.
  intros H M0. induction H as [|a b l l' Hab _ IH]; intros HW Hle; [cbn; lia|].
  cbn [max_work_mem fold_right] in *. fold (max_work_mem l) (max_work_mem l') in *.
  pose proof (rel_work _ _ _ Hab) as Hwk. destruct Hab as (_ & Hm & Hl).
  destruct (n_mem a) eqn:Ea.
  - destruct (n_mem b) eqn:Eb.
    + assert (H1 : max_work_mem l' <= M0) by lia. specialize (IH HW H1). lia.
    + specialize (IH HW Hle). specialize (Hl eq_refl eq_refl). lia.
  - destruct (n_mem b) eqn:Eb; [discriminate (Hm eq_refl)|]. exact (IH HW Hle).
Qed.

Lemma max_rel W l l' : Forall2 (rel W) l l' -> W <= max_work_mem l' -> max_work_mem l' = max_work_mem l.
Proof.
  intros H HW. apply N.le_antisymm.
  - clear HW. induction H as [|a b l l' Hab _ IH]; [reflexivity|].
    cbn [max_work_mem fold_right]. fold (max_work_mem l) (max_work_mem l').
    rewrite (rel_work _ _ _ Hab). destruct Hab as (_ & Hm & _).
    destruct (n_mem b); [rewrite (Hm eq_refl); lia|destruct (n_mem a); lia].
  - apply (max_le_rel W l l' H _ HW). lia.
Qed.

Lemma admissible_rel W l l' x : Forall2 (rel W) l l' -> W <= max_work_mem l' ->
  admissible l' x = admissible l x.
Proof.
  intros H HW. unfold admissible, find_mem. rewrite (max_rel W l l' H HW).
  pose proof (find_rel W l l' H x) as F.
  destruct (find x l) as [a|], (find x l') as [b|]; try contradiction; [|reflexivity].
  pose proof (rel_work _ _ _ F) as Hwk. destruct F as (_ & Hm & Hl).
  destruct (n_mem b) eqn:Eb; [rewrite (Hm eq_refl), Hwk; reflexivity|].
  destruct (n_mem a) eqn:Ea; [|reflexivity].
  specialize (Hl eq_refl eq_refl). rewrite <- (max_rel W l l' H HW).
  symmetry. apply N.eqb_neq. lia.
Qed.

Lemma first_max_rel W l l' w : Forall2 (rel W) l l' -> W <= w -> first_max l' w = first_max l w.
Proof.
  intros H Hw. induction H as [|a b l l' Hab _ IH]; [reflexivity|].
  cbn [first_max]. rewrite (rel_work _ _ _ Hab), (rel_hash _ _ _ Hab).
  destruct Hab as (_ & Hm & Hl).
  destruct (n_mem b) eqn:Eb; [rewrite (Hm eq_refl); cbn [andb]; rewrite IH; reflexivity|].
  cbn [andb]. destruct (n_mem a) eqn:Ea; cbn [andb]; [|exact IH].
  specialize (Hl eq_refl eq_refl). replace (n_work a =? w) with false; [exact IH|].
  symmetry. apply N.eqb_neq. lia.
Qed.

Lemma choose_tip_rel W l l' old pick : Forall2 (rel W) l l' -> W <= max_work_mem l' ->
  choose_tip l' old pick = choose_tip l old pick.
Proof.
  intros H HW. unfold choose_tip. rewrite !(admissible_rel W l l' _ H HW), (max_rel W l l' H HW).
  rewrite (first_max_rel W l l' _ H); [reflexivity|]. rewrite <- (max_rel W l l' H HW). exact HW.
Qed.

(* the answer to a submission *)
Theorem submit_same_answer cfg s s' h pick W p' :
  Forall2 (rel W) (nodes s) (nodes s') -> W <= max_work_mem (nodes s') ->
  tip s' = tip s -> invalid s' = invalid s ->
  wf (nodes s) -> wf (nodes s') -> Kh (nodes s') ->
  op_ok s (OSubmit h pick) ->
  find_mem (nodes s') (h_prev h) = Some p' ->
  (has_cont_child (nodes s') (h_prev h) = has_cont_child (nodes s) (h_prev h) \/
   forall p, find_mem (nodes s) (h_prev h) = Some p -> (tip_height s - n_height p <= c_maxdepth cfg)%Z) ->
  snd (submit cfg s' h pick) = snd (submit cfg s h pick).
Proof.
  intros HR HW Ht Hi Hw Hw' HK [Hnz Hcons] Hp' Hflag. unfold submit.
  destruct (negb (bits_valid (h_bits h))); [reflexivity|].
  rewrite Hp'.
  destruct (find_mem_some _ _ _ Hp') as [Hpf' Hpm'].
  pose proof (find_rel W _ _ HR (h_prev h)) as Fp. rewrite Hpf' in Fp.
  destruct (find (h_prev h) (nodes s)) as [p|] eqn:Hpf; [|contradiction].
  assert (Hpm : n_mem p = true) by (destruct Fp as (_ & Hm & _); exact (Hm Hpm')).
  assert (Hp : find_mem (nodes s) (h_prev h) = Some p) by (unfold find_mem; rewrite Hpf, Hpm; reflexivity).
  rewrite Hp.
  (* the duplicate test *)
  pose proof (find_rel W _ _ HR (h_hash h)) as Fh.
  assert (Hdup : find_mem (nodes s') (h_hash h) = None <-> find_mem (nodes s) (h_hash h) = None).
  { unfold find_mem. destruct (find (h_hash h) (nodes s)) as [a|] eqn:Ea, (find (h_hash h) (nodes s')) as [b|] eqn:Eb;
      try contradiction; [|split; reflexivity].
    destruct Fh as (Hc & Hm & _).
    destruct (n_mem b) eqn:Emb; [rewrite (Hm eq_refl); split; discriminate|].
    destruct (n_mem a) eqn:Ema; [|split; reflexivity].
    (* a is held in memory in s but b is not in s': impossible, its parent p' is in memory in s' *)
    exfalso. destruct (find_some _ _ _ Eb) as [Hbin Hbh]. destruct (find_some _ _ _ Hpf') as [Hpin' Hph'].
    assert (Hprevb : n_prev b = h_prev h).
    { unfold n_prev. unfold core in Hc. replace (n_hdr b) with (n_hdr a) by congruence.
      rewrite (Hcons a eq_refl). reflexivity. }
    destruct (wf_parent _ Hw' b Hbin) as [[Hr _]|(q & Hq & Hh & _)].
    - rewrite Hprevb in Hr. rewrite Hr in Hpf'. destruct (find_some _ _ _ Hpf') as [Hz Hz0].
      exact (wf_hash_nz _ Hw' p' Hz Hz0).
    - rewrite Hprevb, Hpf' in Hq. inversion Hq; subst q.
      pose proof (HK b p' Hbin Hpin' Emb Hpm'). lia. }
  destruct (find_mem (nodes s') (h_hash h)) as [d'|] eqn:Ed'.
  - destruct (find_mem (nodes s) (h_hash h)) as [d|] eqn:Ed; [reflexivity|].
    destruct Hdup as [_ H2]. specialize (H2 eq_refl). discriminate.
  - destruct (find_mem (nodes s) (h_hash h)) as [d|] eqn:Ed; [destruct Hdup as [H1 _]; specialize (H1 eq_refl); discriminate|].
    rewrite Hi. destruct (memN (h_hash h) (invalid s)); [reflexivity|].
    unfold tip_height. rewrite Ht, (height_of_rel W _ _ _ HR), (rel_height _ _ _ Fp).
    set (f' := has_cont_child (nodes s') (h_prev h)). set (f := has_cont_child (nodes s) (h_prev h)).
    assert (Hdeep : f' && (c_maxdepth cfg <? height_of (nodes s) (tip s) - n_height p)%Z =
                    f && (c_maxdepth cfg <? height_of (nodes s) (tip s) - n_height p)%Z).
    { destruct Hflag as [Hf|Hin]; [unfold f', f; rewrite Hf; reflexivity|].
      specialize (Hin p Hp). unfold tip_height in Hin.
      replace (c_maxdepth cfg <? height_of (nodes s) (tip s) - n_height p)%Z with false
        by (symmetry; apply Z.ltb_ge; exact Hin).
      rewrite !andb_false_r. reflexivity. }
    rewrite Hdeep.
    destruct (f && (c_maxdepth cfg <? height_of (nodes s) (tip s) - n_height p)%Z); [reflexivity|].
    cbn [snd]. rewrite (rel_work _ _ _ Fp).
    set (n := mkNode h (n_height p + 1) (n_work p + work_of_bits (h_bits h)) true f).
    set (n' := mkNode h (n_height p + 1) (n_work p + work_of_bits (h_bits h)) true f').
    assert (HR1 : Forall2 (rel W) (n :: nodes s) (n' :: nodes s')).
    { constructor; [|exact HR]. split; [reflexivity|]. split; [auto|]. intros _ H. cbn in H. discriminate. }
    assert (HW1 : W <= max_work_mem (n' :: nodes s')).
    { cbn [max_work_mem fold_right]. fold (max_work_mem (nodes s')). cbn [n' n_mem]. lia. }
    rewrite (choose_tip_rel W _ _ _ _ HR1 HW1).
    set (t1 := choose_tip (n :: nodes s) (tip s) pick).
    unfold announce. rewrite !(chain_of_rel W _ _ _ HR1). reflexivity.
Qed.

(* ---- instantiation: a cleaned repository against the one it was cleaned from ---------------- *)

Lemma Forall2_map_r {A} (R : A -> A -> Prop) f l : (forall a, In a l -> R a (f a)) -> Forall2 R l (map f l).
Proof.
  induction l as [|a l IH]; intros H; cbn [map]; constructor.
  - apply H. left. reflexivity.
  - apply IH. intros b Hb. apply H. right. exact Hb.
Qed.

Lemma clean_rel s d : Inv s -> (0 <= d)%Z ->
  Forall2 (rel (max_work_mem (nodes s))) (nodes s) (nodes (fst (clean s d))) /\
  max_work_mem (nodes s) <= max_work_mem (nodes (fst (clean s d))).
Proof.
  intros (Hw & Ha & _ & _) Hd. unfold clean. cbn [fst nodes]. rewrite clean_nodes_eq.
  set (l := nodes s) in *. set (t := tip s) in *.
  pose proof Ha as Ha0.
  apply (admissible_spec l t Hw) in Ha as (T & HT & HTh & HTm & HTw).
  split.
  - apply Forall2_map_r. intros a Hin. split; [apply clean_f_core|]. split; [apply clean_f_mem_le|].
    intros Hma Hlost. rewrite clean_f_mem in Hlost.
    destruct (is_anc l (n_hash a) t) eqn:Ean; [|congruence].
    rewrite Hma in Hlost. cbn [andb] in Hlost. apply Z.leb_gt in Hlost.
    apply is_anc_spec in Ean as (a0 & Ha0in & Ha0h).
    assert (a0 = a).
    { pose proof (wf_find_self l Hw a0 (ancestors_in _ _ _ Ha0in)) as H1. rewrite Ha0h, (wf_find_self l Hw a Hin) in H1. congruence. }
    subst a0. rewrite <- HTh in Ha0in.
    destruct (ancestors_work l Hw _ _ (wf_find_self l Hw T HT) a Ha0in) as [->|Hlt]; [|rewrite <- HTw; exact Hlt].
    exfalso. pose proof (prune_height_le (consolidate l t) t d) as Hp.
    rewrite consolidate_eq, height_of_map in Hp by apply consolidate_f_core.
    assert (Hht : height_of l t = n_height T) by (unfold height_of; rewrite <- HTh, (wf_find_self l Hw T HT); reflexivity).
    rewrite Hht in Hp. rewrite consolidate_eq in Hlost. lia.
  - pose proof (clean_admissible l t d Hw Hd Ha0) as Ha1. rewrite clean_nodes_eq in Ha1.
    assert (Hw1 : wf (map (clean_f l t d) l)) by (apply wf_map; [apply clean_f_core|exact Hw]).
    apply (admissible_spec _ t Hw1) in Ha1 as (T1 & HT1 & HT1h & HT1m & HT1w).
    apply in_map_iff in HT1 as (T0 & <- & HT0).
    assert (T0 = T).
    { rewrite (keeps_core_hash _ T0 (clean_f_core l t d)) in HT1h.
      pose proof (wf_find_self l Hw T0 HT0) as H1. rewrite HT1h, <- HTh, (wf_find_self l Hw T HT) in H1. congruence. }
    subst T0. rewrite <- HT1w, (keeps_core_work _ T (clean_f_core l t d)), HTw. lia.
Qed.

Lemma existsb_map_in {A B} (f : A -> B) (g : B -> bool) (g0 : A -> bool) l :
  (forall a, In a l -> g (f a) = g0 a) -> existsb g (map f l) = existsb g0 l.
Proof.
  induction l as [|a l IH]; intros H; cbn [map existsb]; [reflexivity|].
  rewrite (H a (or_introl eq_refl)), IH; [reflexivity|]. intros b Hb. apply H. right. exact Hb.
Qed.

(* the continuation status of a parent off the best chain is not touched by Clean *)
Lemma has_cont_child_clean_side l t d x : wf l -> x <> 0 -> is_anc l x t = false ->
  has_cont_child (clean_nodes l t d) x = has_cont_child l x.
Proof.
  intros Hw Hx0 Hoff. rewrite clean_nodes_eq. unfold has_cont_child.
  apply existsb_map_in. intros n Hn.
  rewrite (keeps_core_prev _ n (clean_f_core l t d)).
  destruct (n_prev n =? x) eqn:Ep; [|reflexivity]. apply N.eqb_eq in Ep. cbn [andb].
  (* n is off the best chain as well, so neither consolidate nor prune changes it *)
  assert (Hnoff : is_anc l (n_hash n) t = false).
  { destruct (is_anc l (n_hash n) t) eqn:E; [|reflexivity]. exfalso.
    destruct (wf_parent l Hw n Hn) as [[Hr _]|(q & Hq & _)]; [congruence|].
    pose proof (anc_closed l Hw t n q Hn E Hq) as Hq2.
    destruct (find_some _ _ _ Hq) as [_ Hqh]. rewrite Hqh, Ep, Hoff in Hq2. discriminate. }
  unfold clean_f, prune_f.
  rewrite (on_chain_core _ _ n (consolidate_f_core (chain_of l t))).
  rewrite consolidate_eq, chain_of_map by apply consolidate_f_core.
  rewrite on_chain_is_anc, Hnoff. unfold consolidate_f. rewrite on_chain_is_anc, Hnoff. cbn [n_first n_mem].
  rewrite Ep. replace (memN x (chain_of l t)) with false; [rewrite orb_false_r; reflexivity|].
  symmetry. rewrite <- Hoff. unfold is_anc, chain_of. apply memN_rev.
Qed.

(* the tip has no child held in memory: such a child would carry more work than the maximum *)
Lemma tip_childless s : Inv s -> has_cont_child (nodes s) (tip s) = false.
Proof.
  intros (Hw & Ha & _ & _). apply (admissible_spec _ _ Hw) in Ha as (T & HT & HTh & HTm & HTw).
  unfold has_cont_child. apply not_true_is_false. intros E. apply existsb_exists in E as (c & Hc & E).
  apply andb_true_iff in E as [E Hcm]. apply andb_true_iff in E as [E _]. apply N.eqb_eq in E.
  destruct (wf_parent _ Hw c Hc) as [[Hr _]|(q & Hq & _ & Hwk)].
  - rewrite Hr in E. rewrite <- E in HTh. exact (wf_hash_nz _ Hw T HT HTh).
  - rewrite E, <- HTh, (wf_find_self _ Hw T HT) in Hq. inversion Hq; subst q.
    pose proof (max_work_mem_ge _ c Hc Hcm). lia.
Qed.

(* C10, the future, for the two ways a chain grows: a header that extends a side branch (its parent
   is held in memory and is not on the best chain), and a header that extends the tip, receive the
   same verdict and cause the same announcement whether or not the repository was cleaned first *)
Theorem clean_then_extend_side cfg s d h pick p : cfg_ok cfg -> Inv s -> K (nodes s) -> (0 <= d)%Z ->
  op_ok s (OSubmit h pick) ->
  find_mem (nodes s) (h_prev h) = Some p -> is_anc (nodes s) (h_prev h) (tip s) = false ->
  snd (submit cfg (fst (clean s d)) h pick) = snd (submit cfg s h pick).
Proof.
  intros Hcfg HI HK Hd Hok Hp Hoff. pose proof HI as (Hw & _).
  destruct (clean_rel s d HI Hd) as [HR HW].
  pose proof (clean_inv s d HI Hd) as (Hw' & _).
  destruct (find_mem_some _ _ _ Hp) as [Hpf Hpm]. destruct (find_some _ _ _ Hpf) as [Hpin Hph].
  assert (Hx0 : h_prev h <> 0) by (rewrite <- Hph; exact (wf_hash_nz _ Hw p Hpin)).
  (* the parent is still in memory after the Clean *)
  assert (Hp' : exists p', find_mem (nodes (fst (clean s d))) (h_prev h) = Some p').
  { unfold clean. cbn [fst nodes]. rewrite clean_nodes_eq. exists (clean_f (nodes s) (tip s) d p).
    unfold find_mem. rewrite find_map by apply clean_f_core. rewrite Hpf. cbn [option_map].
    rewrite clean_f_mem, Hph, Hoff, Hpm. reflexivity. }
  destruct Hp' as [p' Hp'].
  apply (submit_same_answer cfg s (fst (clean s d)) h pick (max_work_mem (nodes s)) p'); auto.
  - destruct (clean_K (nodes s) (tip s) d Hw HK) as [HKh _]. exact HKh.
  - left. unfold clean. cbn [fst nodes]. apply has_cont_child_clean_side; assumption.
Qed.

Theorem clean_then_extend_tip cfg s d h pick : cfg_ok cfg -> Inv s -> K (nodes s) -> (0 <= d)%Z ->
  op_ok s (OSubmit h pick) -> h_prev h = tip s ->
  snd (submit cfg (fst (clean s d)) h pick) = snd (submit cfg s h pick).
Proof.
  intros Hcfg HI HK Hd Hok Hprev. pose proof HI as (Hw & Ha & _).
  destruct (clean_rel s d HI Hd) as [HR HW].
  pose proof (clean_inv s d HI Hd) as HI'. pose proof HI' as (Hw' & Ha' & _).
  destruct (admissible_find _ _ Ha') as (T' & HT' & HTm').
  apply (submit_same_answer cfg s (fst (clean s d)) h pick (max_work_mem (nodes s)) T'); auto.
  - destruct (clean_K (nodes s) (tip s) d Hw HK) as [HKh _]. exact HKh.
  - unfold find_mem. rewrite Hprev. change (tip s) with (tip (fst (clean s d))). rewrite HT', HTm'. reflexivity.
  - left. rewrite Hprev. change (tip s) with (tip (fst (clean s d))) at 1.
    rewrite (tip_childless _ HI'), (tip_childless _ HI). reflexivity.
Qed.

(* every attachment within the fork-depth limit: the parent is held in memory (on the best chain or
   off it) no deeper below the tip than the fork-depth limit, and the prune depth is at least that
   limit (10000 against 144 in the implementation's configuration) - then the parent survives the
   Clean in memory, and the verdict and announcement are the same whether or not the repository
   was cleaned first.  This includes a header that starts a NEW fork at a best-chain header, for
   which the branch-continuation flags (rearranged by Clean on the best chain) are irrelevant
   because the depth rule they guard is satisfied anyway.  Beyond the limit the statement is false
   of the model and of the code (a new fork at the end of a branch that lost its continuation to
   an invalidation is a continuation before the Clean and a too-deep new branch after it), and
   the property does not claim it. *)
Theorem clean_then_attach_within cfg s d h pick p : cfg_ok cfg -> Inv s -> K (nodes s) ->
  (c_maxdepth cfg <= d)%Z -> (0 <= d)%Z ->
  op_ok s (OSubmit h pick) ->
  find_mem (nodes s) (h_prev h) = Some p -> (tip_height s - n_height p <= c_maxdepth cfg)%Z ->
  snd (submit cfg (fst (clean s d)) h pick) = snd (submit cfg s h pick).
Proof.
  intros Hcfg HI HK Hmd Hd Hok Hp Hwithin. pose proof HI as (Hw & _).
  destruct (clean_rel s d HI Hd) as [HR HW].
  pose proof (clean_inv s d HI Hd) as (Hw' & _).
  destruct (find_mem_some _ _ _ Hp) as [Hpf Hpm]. destruct (find_some _ _ _ Hpf) as [Hpin Hph].
  assert (Hp' : exists p', find_mem (nodes (fst (clean s d))) (h_prev h) = Some p').
  { unfold clean. cbn [fst nodes]. rewrite clean_nodes_eq. exists (clean_f (nodes s) (tip s) d p).
    unfold find_mem. rewrite find_map by apply clean_f_core. rewrite Hpf. cbn [option_map].
    rewrite clean_f_mem, Hph, Hpm.
    destruct (is_anc (nodes s) (h_prev h) (tip s)); [|reflexivity].
    pose proof (prune_height_le (consolidate (nodes s) (tip s)) (tip s) d) as Hpl.
    rewrite consolidate_eq, height_of_map in Hpl by apply consolidate_f_core.
    unfold tip_height in Hwithin.
    replace (prune_height (consolidate (nodes s) (tip s)) (tip s) d <=? n_height p)%Z with true
      by (symmetry; apply Z.leb_le; rewrite consolidate_eq; lia).
    reflexivity. }
  destruct Hp' as [p' Hp'].
  apply (submit_same_answer cfg s (fst (clean s d)) h pick (max_work_mem (nodes s)) p'); auto.
  - destruct (clean_K (nodes s) (tip s) d Hw HK) as [HKh _]. exact HKh.
  - right. intros p0 Hp0. rewrite Hp in Hp0. inversion Hp0; subst p0. exact Hwithin.
Qed.
