From BR Require Import Base.Prelude Gen.Consts Headers.Tree Headers.Splits.
Open Scope N_scope.

(* the table in /repo is the consensus one *)
Theorem splits_are_consensus :
  splits = [ (0x0000000000000000011865af4122fe3b144e2cbeea86142e8ff2fb4107352d43,
              0x00000000000000000019f112ec0a9982926f1258cdcc558dd7c3b7e5dc7fa148, 478559%Z);
             (0x00000000000000000102d94fde9bd0807a2cc7582fe85dd6349b73ce4e8d9322,
              0x0000000000000000004626ff6e3b936941d341c5932ece4357eeccac44e6d56c, 556767%Z) ] /\
  required_before = 0x00000000000000000102d94fde9bd0807a2cc7582fe85dd6349b73ce4e8d9322 /\
  required_after = 0x000000000000000001d956714215d96ffc00e0afda4cd0a96c96f8d802b1662b /\
  required_height = 556767%Z.
Proof. repeat split; reflexivity. Qed.

(* with protection on, whatever is let through at the required height is the BSV split header *)
Theorem only_bsv_at_split x : si_protect x = true -> si_parent_known x = true -> si_dup x = false ->
  si_height x = required_height -> split_verdict x = None -> si_hash x = required_after.
Proof.
  unfold split_verdict. intros Hp Hk Hd Hh. rewrite Hp, Hk, Hd, Hh. cbn [negb].
  destruct (existsb _ splits); [discriminate|].
  rewrite Z.eqb_refl. cbn [andb].
  destruct (required_after =? si_hash x) eqn:E; [|discriminate].
  intros _. apply N.eqb_eq in E. symmetry. exact E.
Qed.

(* a foreign split header is refused as wrong-chain: when its parent is unknown, and when it
   is offered at its own height *)
Theorem foreign_refused x s : In s splits -> si_hash x = split_after s -> si_dup x = false ->
  (si_parent_known x = false \/ (si_protect x = true /\ si_height x = split_height s)) ->
  split_verdict x = Some VWrongChain.
Proof.
  intros Hin Hh Hd Hcase. unfold split_verdict.
  assert (Hex1 : existsb (fun s0 => split_after s0 =? si_hash x) splits = true).
  { apply existsb_exists. exists s. split; [exact Hin|]. rewrite Hh. apply N.eqb_refl. }
  destruct Hcase as [Hk|[Hp Hht]].
  - rewrite Hk. cbn [negb]. rewrite Hex1. reflexivity.
  - destruct (si_parent_known x); cbn [negb]; [|rewrite Hex1; reflexivity].
    rewrite Hd, Hp.
    assert (Hex2 : existsb (fun s0 => (split_height s0 =? si_height x)%Z && (split_after s0 =? si_hash x)) splits = true).
    { apply existsb_exists. exists s. split; [exact Hin|]. rewrite Hh, Hht, Z.eqb_refl, N.eqb_refl. reflexivity. }
    rewrite Hex2. reflexivity.
Qed.

(* the BSV split header itself meets no objection at its height *)
Theorem bsv_accepted x : si_hash x = required_after -> si_parent_known x = true -> si_dup x = false ->
  si_height x = required_height -> split_verdict x = None.
Proof.
  intros Hh Hk Hd Hht. unfold split_verdict. rewrite Hk, Hd, Hh, Hht. cbn [negb].
  destruct (si_protect x); [|reflexivity].
  replace (existsb _ splits) with false by (vm_compute; reflexivity).
  rewrite Z.eqb_refl, N.eqb_refl. reflexivity.
Qed.

(* a peer's verification reply is accepted only if it is the BSV split header *)
Theorem verify_only_bsv hash prev genesis :
  verify_header hash prev genesis = VerAccept <-> hash = required_after.
Proof.
  unfold verify_header. split.
  - destruct (required_after =? hash) eqn:E; [intros _; apply N.eqb_eq in E; auto|].
    destruct (existsb _ splits); [discriminate|]. destruct (genesis =? prev); discriminate.
  - intros ->. rewrite N.eqb_refl. reflexivity.
Qed.

Theorem verify_foreign hash prev genesis s : In s splits -> hash = split_after s ->
  verify_header hash prev genesis = VerWrongChain.
Proof.
  intros Hin ->. unfold verify_header.
  assert (required_after =? split_after s = false).
  { destruct Hin as [<-|[<-|[]]]; vm_compute; reflexivity. }
  rewrite H. replace (existsb _ splits) with true; [reflexivity|].
  symmetry. apply existsb_exists. exists s. split; [exact Hin|apply N.eqb_refl].
Qed.

(* the verify-only locator names the BSV/BCH fork point and the BTC fork point, each once *)
Theorem verify_only_locator_value :
  verify_only_locator = [0x00000000000000000102d94fde9bd0807a2cc7582fe85dd6349b73ce4e8d9322;
                         0x0000000000000000011865af4122fe3b144e2cbeea86142e8ff2fb4107352d43] /\
  NoDup verify_only_locator.
Proof.
  split; [vm_compute; reflexivity|].
  replace verify_only_locator with [0x00000000000000000102d94fde9bd0807a2cc7582fe85dd6349b73ce4e8d9322;
                         0x0000000000000000011865af4122fe3b144e2cbeea86142e8ff2fb4107352d43] by (vm_compute; reflexivity).
  constructor; [intros [H|[]]; discriminate|constructor; [intros []|constructor]].
Qed.
