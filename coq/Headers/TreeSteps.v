(* The state invariant of the tree model and its preservation by every operation. *)
From BR Require Import Base.Prelude Base.Compact Headers.Tree Headers.TreeBasics Headers.TreeInv.
Open Scope N_scope.

(* ---------------------------------------------------------------------------------- *)
(* work of a header is positive                                                         *)

Lemma work_of_target_pos d : 0 < work_of_target d.
Proof. unfold work_of_target. rewrite N.add_1_r. apply N.lt_0_succ. Qed.

Lemma work_of_bits_pos b : bits_valid b = true -> 0 < work_of_bits b.
Proof.
  unfold bits_valid, work_of_bits, decode_bits. intros H.
  apply negb_true_iff in H. rewrite H.
  destruct (adj_len b =? 0); [apply work_of_target_pos|].
  destruct (adj_len b =? 2); apply work_of_target_pos.
Qed.

(* ---------------------------------------------------------------------------------- *)
(* maximal work among in-memory nodes                                                   *)

Lemma max_work_mem_ge l n : In n l -> n_mem n = true -> n_work n <= max_work_mem l.
Proof.
  induction l as [|m l IH]; intros Hn Hm; [destruct Hn|].
  cbn [max_work_mem fold_right]. fold (max_work_mem l).
  destruct Hn as [->|Hn].
  - rewrite Hm. lia.
  - specialize (IH Hn Hm). destruct (n_mem m); lia.
Qed.

Lemma max_work_mem_cases l :
  ((forall n, In n l -> n_mem n = false) /\ max_work_mem l = 0) \/
  (exists n, In n l /\ n_mem n = true /\ n_work n = max_work_mem l).
Proof.
  induction l as [|m l IH]; [left; split; [intros n []|reflexivity]|].
  cbn [max_work_mem fold_right]. fold (max_work_mem l).
  destruct (n_mem m) eqn:Em.
  - right. destruct IH as [[Hno H0]|(n0 & Hn0 & Hm0 & Hw0)].
    + exists m. split; [left; reflexivity|split; [exact Em|lia]].
    + destruct (N.le_gt_cases (max_work_mem l) (n_work m)) as [Hle|Hgt].
      * exists m. split; [left; reflexivity|split; [exact Em|lia]].
      * exists n0. split; [right; exact Hn0|split; [exact Hm0|lia]].
  - destruct IH as [[Hno H0]|(n0 & Hn0 & Hm0 & Hw0)].
    + left. split; [|exact H0]. intros n [<-|Hn]; [exact Em|exact (Hno n Hn)].
    + right. exists n0. split; [right; exact Hn0|split; assumption].
Qed.

Lemma max_work_mem_attained l : (exists n, In n l /\ n_mem n = true) ->
  exists n, In n l /\ n_mem n = true /\ n_work n = max_work_mem l.
Proof.
  intros (n & Hn & Hm). destruct (max_work_mem_cases l) as [[Hno _]|H]; [|exact H].
  rewrite (Hno n Hn) in Hm. discriminate.
Qed.

Lemma first_max_spec l w : (exists n, In n l /\ n_mem n = true /\ n_work n = w) ->
  exists n, In n l /\ n_mem n = true /\ n_work n = w /\ first_max l w = n_hash n.
Proof.
  induction l as [|m l IH]; intros (n & Hn & Hm & Hw); [destruct Hn|].
  cbn [first_max]. destruct (n_mem m && (n_work m =? w)) eqn:E.
  - apply andb_true_iff in E as [E1 E2]. apply N.eqb_eq in E2.
    exists m. split; [left; reflexivity|auto].
  - destruct Hn as [->|Hn].
    + rewrite Hm, Hw, N.eqb_refl in E. discriminate.
    + destruct (IH (ex_intro _ n (conj Hn (conj Hm Hw)))) as (n0 & H1 & H2 & H3 & H4).
      exists n0. split; [right; exact H1|auto].
Qed.

Lemma admissible_spec l x : wf l ->
  (admissible l x = true <->
   exists n, In n l /\ n_hash n = x /\ n_mem n = true /\ n_work n = max_work_mem l).
Proof.
  intros Hw. unfold admissible, find_mem. split.
  - destruct (find x l) as [n|] eqn:E; [|discriminate].
    destruct (n_mem n) eqn:Em; [|discriminate]. intros H. apply N.eqb_eq in H.
    destruct (find_some _ _ _ E). exists n. auto.
  - intros (n & Hn & Hx & Hm & Hwk). subst x. rewrite (wf_find_self l Hw n Hn), Hm.
    apply N.eqb_eq. exact Hwk.
Qed.

Lemma choose_tip_admissible l old pick : wf l -> (exists n, In n l /\ n_mem n = true) ->
  admissible l (choose_tip l old pick) = true.
Proof.
  intros Hw Hex. unfold choose_tip.
  destruct (admissible l pick) eqn:E1; [exact E1|].
  destruct (admissible l old) eqn:E2; [exact E2|].
  destruct (first_max_spec l (max_work_mem l) (max_work_mem_attained l Hex)) as (n & H1 & H2 & H3 & H4).
  rewrite H4. apply (admissible_spec l _ Hw). exists n. auto.
Qed.

(* the tip is a known in-memory node *)
Lemma admissible_find l x : admissible l x = true -> exists n, find x l = Some n /\ n_mem n = true.
Proof.
  unfold admissible, find_mem. destruct (find x l) as [n|]; [|discriminate].
  destruct (n_mem n) eqn:E; [|discriminate]. eauto.
Qed.

(* ---------------------------------------------------------------------------------- *)
(* more ancestry facts                                                                  *)

Lemma ancestors_height l : wf l -> forall x n, find x l = Some n ->
  forall a, In a (ancestors l x) -> a = n \/ (n_height a < n_height n)%Z.
Proof.
  induction 1 as [g Hp Hh Hz|n p l Hw IH Hf Hnz Hpf Hh Hwk]; intros x m Hm a Ha.
  - cbn [find] in Hm. cbn [ancestors] in Ha. destruct (n_hash g =? x); [|discriminate].
    inversion Hm; subst m. destruct Ha as [->|Ha]; [left; reflexivity|].
    cbn [ancestors] in Ha. destruct Ha.
  - cbn [find] in Hm. cbn [ancestors] in Ha. destruct (n_hash n =? x) eqn:E.
    + inversion Hm; subst m. destruct Ha as [->|Ha]; [left; reflexivity|].
      right. destruct (IH _ _ Hpf a Ha) as [->|Hlt]; lia.
    + exact (IH x m Hm a Ha).
Qed.

Lemma ancestors_cons_other n l x : n_hash n <> x -> ancestors (n :: l) x = ancestors l x.
Proof. intros H. cbn [ancestors]. destruct (n_hash n =? x) eqn:E; [apply N.eqb_eq in E; contradiction|reflexivity]. Qed.

Lemma find_cons_other n l x : n_hash n <> x -> find x (n :: l) = find x l.
Proof. intros H. cbn [find]. destruct (n_hash n =? x) eqn:E; [apply N.eqb_eq in E; contradiction|reflexivity]. Qed.

(* the ancestor list of an ancestor is a suffix *)
Lemma anc_suffix l : wf l -> forall t a, In a (ancestors l t) ->
  exists pre, ancestors l t = pre ++ ancestors l (n_hash a).
Proof.
  induction 1 as [g Hp Hh Hz|n p l Hw IH Hf Hnz Hpf Hh Hwk]; intros t a Ha.
  - cbn [ancestors] in *. destruct (n_hash g =? t) eqn:E; [|destruct Ha].
    destruct Ha as [<-|[]]. exists []. rewrite N.eqb_refl. reflexivity.
  - cbn [ancestors] in Ha. destruct (n_hash n =? t) eqn:E.
    + apply N.eqb_eq in E. destruct Ha as [<-|Ha].
      * exists []. rewrite E. reflexivity.
      * destruct (IH _ _ Ha) as [pre Hpre]. exists (n :: pre).
        assert (Hne : n_hash n <> n_hash a)
          by (intros Heq; exact (find_none_notin _ _ Hf a (ancestors_in _ _ _ Ha) (eq_sym Heq))).
        rewrite (ancestors_cons_other n l (n_hash a) Hne).
        cbn [ancestors]. rewrite <- E, N.eqb_refl. cbn [app]. rewrite Hpre. reflexivity.
    + destruct (IH _ _ Ha) as [pre Hpre]. exists pre.
      assert (Hne : n_hash n <> n_hash a)
        by (intros Heq; exact (find_none_notin _ _ Hf a (ancestors_in _ _ _ Ha) (eq_sym Heq))).
      rewrite (ancestors_cons_other n l (n_hash a) Hne).
      cbn [ancestors]. rewrite E. exact Hpre.
Qed.

Lemma memN_map_hash x (A : list node) : memN x (map n_hash A) = true <-> exists a, In a A /\ n_hash a = x.
Proof.
  rewrite memN_In, in_map_iff. split; intros (a & H1 & H2); exists a; auto.
Qed.

Lemma is_anc_spec l a t : is_anc l a t = true <-> exists n, In n (ancestors l t) /\ n_hash n = a.
Proof. unfold is_anc. apply memN_map_hash. Qed.

(* the parent of a header on the chain of t is on the chain of t *)
Lemma anc_closed l : wf l -> forall t n q, In n l -> is_anc l (n_hash n) t = true ->
  find (n_prev n) l = Some q -> is_anc l (n_hash q) t = true.
Proof.
  intros Hw t n q Hn Ha Hq. apply is_anc_spec in Ha as (a & Ha & Hah).
  assert (a = n).
  { pose proof (wf_find_self l Hw a (ancestors_in _ _ _ Ha)) as H1.
    rewrite Hah, (wf_find_self l Hw n Hn) in H1. congruence. }
  subst a. destruct (anc_suffix l Hw t n Ha) as [pre Hpre].
  rewrite (ancestors_step l Hw _ _ (wf_find_self l Hw n Hn)) in Hpre.
  destruct (ancestors_head _ _ _ Hq) as [rest Hrest]. rewrite Hrest in Hpre.
  apply is_anc_spec. exists q. split; [|reflexivity].
  rewrite Hpre. apply in_or_app. right. right. left. reflexivity.
Qed.

Lemma is_anc_self l : wf l -> forall x n, find x l = Some n -> is_anc l x x = true.
Proof.
  intros Hw x n Hn. apply is_anc_spec. destruct (ancestors_head _ _ _ Hn) as [rest Hr].
  exists n. rewrite Hr. split; [left; reflexivity|]. exact (proj2 (find_some _ _ _ Hn)).
Qed.

(* is_anc through the parent *)
Lemma is_anc_child l : wf l -> forall x n q, In n l -> find (n_prev n) l = Some q ->
  is_anc l x (n_hash q) = true -> is_anc l x (n_hash n) = true.
Proof.
  intros Hw x n q Hn Hq Ha. apply is_anc_spec in Ha as (a & Ha & Hah).
  apply is_anc_spec. exists a. split; [|exact Hah].
  rewrite (ancestors_step l Hw _ _ (wf_find_self l Hw n Hn)). right.
  rewrite <- (proj2 (find_some _ _ _ Hq)). exact Ha.
Qed.

(* ---------------------------------------------------------------------------------- *)
(* the state invariant                                                                  *)

Definition memclosed (l : list node) : Prop :=
  forall n p, In n l -> n_mem n = false -> find (n_prev n) l = Some p -> n_mem p = false.

Definition snap_inv (sn : snapshot) : Prop :=
  wf (sn_nodes sn) /\ exists t, find (sn_tip sn) (sn_nodes sn) = Some t.

Definition Inv (s : st) : Prop :=
  wf (nodes s) /\ admissible (nodes s) (tip s) = true /\ memclosed (nodes s) /\
  match saved s with Some sn => snap_inv sn | None => True end.

Definition cfg_ok (cfg : config) : Prop := (0 <= c_prunedepth cfg)%Z.

(* hypotheses on the inputs, relative to the state they are applied to:
   - a submitted header has a non-zero hash and equal hashes mean equal headers (SHA-256d is
     treated as injective);
   - a header is only marked invalid when its parent is held in memory (marking at or below the
     memory horizon would invalidate everything in memory: DESIGN.md D23);
   - depths are non-negative *)
Definition op_ok (s : st) (o : op) : Prop :=
  match o with
  | OSubmit h _ => h_hash h <> 0 /\ forall n, find (h_hash h) (nodes s) = Some n -> n_hdr n = h
  | OMark x _ => forall n, find_mem (nodes s) x = Some n -> exists p, find_mem (nodes s) (n_prev n) = Some p
  | OClean d => (0 <= d)%Z
  | OLoad d _ => (0 <= d)%Z
  | _ => True
  end.

Lemma find_mem_some l x n : find_mem l x = Some n -> find x l = Some n /\ n_mem n = true.
Proof.
  unfold find_mem. destruct (find x l) as [m|]; [|discriminate].
  destruct (n_mem m) eqn:E; [|discriminate]. intros H; inversion H; subst. auto.
Qed.

(* --- flags-only maps ------------------------------------------------------------------ *)

Lemma max_work_mem_map_le f l : keeps_core f -> (forall n, n_mem (f n) = true -> n_mem n = true) ->
  max_work_mem (map f l) <= max_work_mem l.
Proof.
  intros Hf Hm. induction l as [|n l IH]; [reflexivity|].
  cbn [map max_work_mem fold_right]. fold (max_work_mem (map f l)). fold (max_work_mem l).
  rewrite keeps_core_work by exact Hf.
  destruct (n_mem (f n)) eqn:E.
  - rewrite (Hm n E). lia.
  - destruct (n_mem n); lia.
Qed.

Lemma admissible_map f l t : keeps_core f -> wf l ->
  (forall n, n_mem (f n) = true -> n_mem n = true) ->
  (forall n, find t l = Some n -> n_mem (f n) = true) ->
  admissible l t = true -> admissible (map f l) t = true.
Proof.
  intros Hf Hw Hm Ht Ha.
  apply (admissible_spec l t Hw) in Ha as (n & Hn & Hx & Hmem & Hwk).
  apply (admissible_spec (map f l) t (wf_map f l Hf Hw)).
  exists (f n). split; [apply in_map; exact Hn|].
  split; [rewrite keeps_core_hash by exact Hf; exact Hx|].
  assert (Hfn : find t l = Some n) by (subst t; apply wf_find_self; assumption).
  split; [exact (Ht n Hfn)|].
  rewrite keeps_core_work by exact Hf.
  pose proof (max_work_mem_map_le f l Hf Hm).
  assert (n_work (f n) <= max_work_mem (map f l)).
  { apply max_work_mem_ge; [apply in_map; exact Hn|exact (Ht n Hfn)]. }
  rewrite keeps_core_work in H0 by exact Hf. lia.
Qed.

Lemma prune_height_le l t d : (prune_height l t d <= height_of l t - d)%Z.
Proof.
  unfold prune_height. generalize (chain_of l t) (height_of l t - d)%Z. intros main init.
  induction l as [|n l0 IH]; cbn [fold_right]; [lia|].
  destruct (n_mem n && negb (on_chain main n)); lia.
Qed.

Lemma consolidate_f_mem main n : n_mem (consolidate_f main n) = n_mem n.
Proof. unfold consolidate_f. destruct (on_chain main n); reflexivity. Qed.

Lemma clean_f_mem_le l t d n : n_mem (clean_f l t d n) = true -> n_mem n = true.
Proof.
  unfold clean_f, prune_f. destruct (on_chain _ (consolidate_f _ n)); cbn [n_mem];
    rewrite ?consolidate_f_mem; [intros H; apply andb_true_iff in H; tauto|auto].
Qed.

Lemma on_chain_core main f n : keeps_core f -> on_chain main (f n) = on_chain main n.
Proof. intros Hf. unfold on_chain. rewrite keeps_core_hash by exact Hf. reflexivity. Qed.

(* what clean does to a node's memory flag *)
Lemma clean_f_mem l t d n :
  n_mem (clean_f l t d n) =
  if is_anc l (n_hash n) t
  then n_mem n && (prune_height (consolidate l t) t d <=? n_height n)%Z
  else n_mem n.
Proof.
  unfold clean_f, prune_f.
  rewrite (on_chain_core _ _ n (consolidate_f_core (chain_of l t))).
  rewrite consolidate_eq, chain_of_map by apply consolidate_f_core.
  rewrite on_chain_is_anc.
  destruct (is_anc l (n_hash n) t); cbn [n_mem n_height]; rewrite ?consolidate_f_mem.
  - rewrite (keeps_core_height _ n (consolidate_f_core (chain_of l t))). reflexivity.
  - reflexivity.
Qed.

Lemma clean_admissible l t d : wf l -> (0 <= d)%Z -> admissible l t = true ->
  admissible (clean_nodes l t d) t = true.
Proof.
  intros Hw Hd Ha. rewrite clean_nodes_eq.
  apply admissible_map; [apply clean_f_core|exact Hw|apply clean_f_mem_le| |exact Ha].
  intros n Hn. rewrite clean_f_mem.
  destruct (find_some _ _ _ Hn) as [Hin Hh]. rewrite Hh, (is_anc_self l Hw t n Hn).
  destruct (admissible_find _ _ Ha) as (n' & Hn' & Hm'). rewrite Hn in Hn'. inversion Hn'; subst n'.
  rewrite Hm'. cbn [andb]. apply Z.leb_le.
  pose proof (prune_height_le (consolidate l t) t d) as Hp.
  rewrite consolidate_eq, height_of_map in Hp by apply consolidate_f_core.
  unfold height_of in Hp. rewrite Hn in Hp. rewrite consolidate_eq. lia.
Qed.

Lemma clean_memclosed l t d : wf l -> memclosed l -> memclosed (clean_nodes l t d).
Proof.
  intros Hw Hc. rewrite clean_nodes_eq. intros n' p' Hn' Hm' Hp'.
  apply in_map_iff in Hn' as (n & <- & Hn).
  rewrite keeps_core_prev, find_map in Hp' by apply clean_f_core.
  destruct (find (n_prev n) l) as [q|] eqn:Hq; [|discriminate]. inversion Hp'; subst p'.
  rewrite clean_f_mem in *.
  destruct (n_mem n) eqn:Emn.
  - (* n was in memory: clean dropped it, so it is on the chain below the prune height *)
    destruct (is_anc l (n_hash n) t) eqn:Ea; [|congruence].
    cbn [andb] in Hm'. rewrite (anc_closed l Hw t n q Hn Ea Hq).
    destruct (wf_parent l Hw n Hn) as [[Hr _]|(q' & Hq' & Hh & _)].
    + rewrite Hr in Hq. destruct (find_some _ _ _ Hq) as [Hin Hh0].
      exfalso. exact (wf_hash_nz l Hw q Hin Hh0).
    + rewrite Hq in Hq'. inversion Hq'; subst q'.
      apply Z.leb_gt in Hm'. apply andb_false_iff. right. apply Z.leb_gt. lia.
  - rewrite (Hc n q Hn Emn Hq). destruct (is_anc l (n_hash q) t); reflexivity.
Qed.

Lemma consolidate_admissible l t : wf l -> admissible l t = true -> admissible (consolidate l t) t = true.
Proof.
  intros Hw Ha. rewrite consolidate_eq.
  apply admissible_map; [apply consolidate_f_core|exact Hw| | |exact Ha].
  - intros n. rewrite consolidate_f_mem. auto.
  - intros n Hn. rewrite consolidate_f_mem.
    destruct (admissible_find _ _ Ha) as (n' & Hn' & Hm'). congruence.
Qed.

Lemma consolidate_memclosed l t : memclosed l -> memclosed (consolidate l t).
Proof.
  intros Hc. rewrite consolidate_eq. intros n' p' Hn' Hm' Hp'.
  apply in_map_iff in Hn' as (n & <- & Hn).
  rewrite keeps_core_prev, find_map in Hp' by apply consolidate_f_core.
  destruct (find (n_prev n) l) as [q|] eqn:Hq; [|discriminate]. inversion Hp'; subst p'.
  rewrite consolidate_f_mem in *. exact (Hc n q Hn Hm' Hq).
Qed.

(* --- Submit --------------------------------------------------------------------------- *)

Lemma submit_fresh s h p : Inv s -> op_ok s (OSubmit h 0) ->
  find_mem (nodes s) (h_prev h) = Some p -> find_mem (nodes s) (h_hash h) = None ->
  find (h_hash h) (nodes s) = None.
Proof.
  intros (Hw & _ & Hc & _) [_ Hcons] Hp Hdup.
  destruct (find (h_hash h) (nodes s)) as [n0|] eqn:E; [|reflexivity]. exfalso.
  unfold find_mem in Hdup. rewrite E in Hdup.
  destruct (n_mem n0) eqn:Em; [discriminate|].
  destruct (find_mem_some _ _ _ Hp) as [Hpf Hpm].
  destruct (find_some _ _ _ E) as [Hin _].
  assert (Hprev : n_prev n0 = h_prev h) by (unfold n_prev; rewrite (Hcons n0 eq_refl); reflexivity).
  rewrite <- Hprev in Hpf. rewrite (Hc n0 p Hin Em Hpf) in Hpm. discriminate.
Qed.

Lemma memclosed_cons n l : wf (n :: l) -> n_mem n = true -> memclosed l -> memclosed (n :: l).
Proof.
  intros Hw Hm Hc m q Hin Hmm Hq. destruct Hin as [<-|Hin]; [congruence|].
  inversion Hw as [|n0 p0 l0 Hwl Hf Hnz Hpf Hh Hwk]; subst.
  - destruct Hin.
  - destruct (wf_parent l Hwl m Hin) as [[Hr _]|(q' & Hq' & _)].
    + rewrite Hr in Hq. cbn [find] in Hq. destruct (n_hash n =? 0) eqn:E0.
      * apply N.eqb_eq in E0. contradiction.
      * destruct (find_some _ _ _ Hq) as [Hqi Hq0]. exfalso. exact (wf_hash_nz l Hwl q Hqi Hq0).
    + rewrite find_cons_other in Hq.
      * exact (Hc m q Hin Hmm Hq).
      * intros Heq. rewrite <- Heq in Hq'. congruence.
Qed.

Lemma submit_inv cfg s h pick : cfg_ok cfg -> Inv s -> op_ok s (OSubmit h pick) ->
  Inv (fst (submit cfg s h pick)).
Proof.
  intros Hcfg HI Hok. pose proof HI as (Hw & Ha & Hc & Hs).
  unfold submit.
  destruct (negb (bits_valid (h_bits h))) eqn:Eb; [exact HI|].
  apply negb_false_iff in Eb.
  destruct (find_mem (nodes s) (h_prev h)) as [p|] eqn:Ep; [|exact HI].
  destruct (find_mem (nodes s) (h_hash h)) as [dup|] eqn:Ed; [exact HI|].
  destruct (memN (h_hash h) (invalid s)); [exact HI|].
  set (nb := has_cont_child (nodes s) (h_prev h)).
  destruct (nb && (c_maxdepth cfg <? tip_height s - n_height p)%Z); [exact HI|].
  cbn [fst].
  set (n := mkNode h (n_height p + 1) (n_work p + work_of_bits (h_bits h)) true nb).
  assert (Hfresh : find (h_hash h) (nodes s) = None) by (eapply submit_fresh; eauto).
  destruct (find_mem_some _ _ _ Ep) as [Hpf Hpm].
  assert (Hw1 : wf (n :: nodes s)).
  { apply (wf_cons n p); try assumption; try reflexivity.
    - exact (proj1 Hok).
    - cbn [n n_work]. pose proof (work_of_bits_pos _ Eb). lia. }
  assert (Hex : exists m, In m (n :: nodes s) /\ n_mem m = true)
    by (exists n; split; [left; reflexivity|reflexivity]).
  pose proof (choose_tip_admissible (n :: nodes s) (tip s) pick Hw1 Hex) as Ha1.
  assert (Hc1 : memclosed (n :: nodes s)) by (apply memclosed_cons; auto).
  set (t1 := choose_tip (n :: nodes s) (tip s) pick) in *.
  destruct (negb nb && (t1 =? h_hash h) && (0 <? c_autoclean cfg)%Z &&
            ((n_height p + 1) mod c_autoclean cfg =? 0)%Z).
  - unfold Inv; cbn [nodes tip saved]. split; [|split; [|split]].
    + rewrite clean_nodes_eq. apply wf_map; [apply clean_f_core|exact Hw1].
    + apply clean_admissible; assumption.
    + apply clean_memclosed; assumption.
    + exact Hs.
  - unfold Inv; cbn [nodes tip saved]. auto.
Qed.

(* --- Mark ----------------------------------------------------------------------------- *)

Definition mark_keep (l : list node) (x : N) (n : node) : bool := negb (is_anc l x (n_hash n)).

Lemma mark_keep_closed l x : wf l -> parent_closed (mark_keep l x) l.
Proof.
  intros Hw n q Hn Hk Hq. unfold mark_keep in *. apply negb_true_iff in Hk. apply negb_true_iff.
  destruct (is_anc l x (n_hash q)) eqn:E; [|reflexivity].
  rewrite (is_anc_child l Hw x n q Hn Hq E) in Hk. discriminate.
Qed.

Lemma find_filter_some keep l : wf l -> forall x q, find x (filter keep l) = Some q -> find x l = Some q.
Proof.
  intros Hw x q H. destruct (find_some _ _ _ H) as [Hin Hh].
  apply filter_In in Hin as [Hin _]. subst x. apply wf_find_self; assumption.
Qed.

Lemma memclosed_filter keep l : wf l -> memclosed l -> memclosed (filter keep l).
Proof.
  intros Hw Hc n q Hn Hm Hq. apply filter_In in Hn as [Hn _].
  exact (Hc n q Hn Hm (find_filter_some keep l Hw _ _ Hq)).
Qed.

Lemma ancestors_root l : wf l -> forall g, In g l -> n_prev g = 0 -> ancestors l (n_hash g) = [g].
Proof.
  intros Hw g Hg Hp. rewrite (ancestors_step l Hw _ _ (wf_find_self l Hw g Hg)), Hp.
  rewrite ancestors_notfound; [reflexivity|].
  destruct (find 0 l) as [z|] eqn:E; [|reflexivity].
  destruct (find_some _ _ _ E) as [Hz Hz0]. exfalso. exact (wf_hash_nz l Hw z Hz Hz0).
Qed.

Lemma mark_inv s x pick : Inv s -> op_ok s (OMark x pick) -> Inv (fst (mark s x pick)).
Proof.
  intros HI Hok. pose proof HI as (Hw & Ha & Hc & Hs). unfold mark.
  destruct (memN x (invalid s)); [exact HI|].
  destruct (find_mem (nodes s) x) as [n|] eqn:En; cbn [fst].
  2:{ unfold Inv; cbn [nodes tip saved]. auto. }
  destruct (Hok n En) as [p Hp].
  destruct (find_mem_some _ _ _ En) as [Hnf Hnm].
  destruct (find_mem_some _ _ _ Hp) as [Hpf Hpm].
  destruct (find_some _ _ _ Hnf) as [Hnin Hnh].
  destruct (find_some _ _ _ Hpf) as [Hpin Hph].
  fold (mark_keep (nodes s) x).
  assert (Hw1 : wf (filter (mark_keep (nodes s) x) (nodes s))).
  { apply wf_filter; [exact Hw|apply mark_keep_closed; exact Hw|].
    intros g Hg Hgp Hgz. unfold mark_keep, is_anc. rewrite (ancestors_root _ Hw g Hg Hgp).
    cbn [map memN]. rewrite orb_false_r. apply negb_true_iff. apply N.eqb_neq. intros Hx.
    assert (n = g).
    { pose proof (wf_find_self _ Hw g Hg) as H1. rewrite <- Hx, Hnf in H1. congruence. }
    subst g. rewrite Hgp in Hpf. destruct (find_some _ _ _ Hpf) as [Hz Hz0].
    exact (wf_hash_nz _ Hw p Hz Hz0). }
  assert (Hkp : mark_keep (nodes s) x p = true).
  { unfold mark_keep. apply negb_true_iff.
    destruct (is_anc (nodes s) x (n_hash p)) eqn:E; [|reflexivity]. exfalso.
    apply is_anc_spec in E as (a & Hain & Hah).
    assert (a = n).
    { pose proof (wf_find_self _ Hw a (ancestors_in _ _ _ Hain)) as H1.
      rewrite Hah, Hnf in H1. congruence. }
    subst a. rewrite Hph in Hain.
    destruct (ancestors_height _ Hw _ _ Hpf n Hain) as [->|Hlt].
    - destruct (wf_parent _ Hw p Hpin) as [[Hr _]|(q & Hq & Hhq & _)].
      + rewrite Hr in Hph. exact (wf_hash_nz _ Hw p Hpin Hph).
      + rewrite Hpf in Hq. inversion Hq; subst q. lia.
    - destruct (wf_parent _ Hw n Hnin) as [[Hr _]|(q & Hq & Hhq & _)].
      + rewrite Hr in Hpf. destruct (find_some _ _ _ Hpf) as [Hz Hz0].
        exact (wf_hash_nz _ Hw p Hz Hz0).
      + rewrite Hpf in Hq. inversion Hq; subst q. lia. }
  assert (Hex : exists m, In m (filter (mark_keep (nodes s) x) (nodes s)) /\ n_mem m = true).
  { exists p. split; [apply filter_In; split; assumption|exact Hpm]. }
  unfold Inv; cbn [nodes tip saved]. split; [exact Hw1|split; [|split]].
  - apply choose_tip_admissible; assumption.
  - apply memclosed_filter; assumption.
  - exact Hs.
Qed.

(* --- Unmark, Clean, Save -------------------------------------------------------------- *)

Lemma unmark_inv s x : Inv s -> Inv (fst (unmark s x)).
Proof.
  intros HI. unfold unmark. destruct (memN x (invalid s)); [|exact HI].
  destruct HI as (Hw & Ha & Hc & Hs). unfold Inv; cbn [fst nodes tip saved]. auto.
Qed.

Lemma clean_inv s d : Inv s -> (0 <= d)%Z -> Inv (fst (clean s d)).
Proof.
  intros (Hw & Ha & Hc & Hs) Hd. unfold clean, Inv; cbn [fst nodes tip saved].
  split; [|split; [|split]].
  - rewrite clean_nodes_eq. apply wf_map; [apply clean_f_core|exact Hw].
  - apply clean_admissible; assumption.
  - apply clean_memclosed; assumption.
  - exact Hs.
Qed.

Lemma save_inv s : Inv s -> Inv (fst (save s)).
Proof.
  intros (Hw & Ha & Hc & Hs). unfold save, Inv; cbn [fst nodes tip saved].
  assert (Hw1 : wf (consolidate (nodes s) (tip s)))
    by (rewrite consolidate_eq; apply wf_map; [apply consolidate_f_core|exact Hw]).
  split; [exact Hw1|split; [|split]].
  - apply consolidate_admissible; assumption.
  - apply consolidate_memclosed; assumption.
  - split; cbn [sn_nodes sn_tip]; [exact Hw1|].
    destruct (admissible_find _ _ (consolidate_admissible _ _ Hw Ha)) as (t & Ht & _). eauto.
Qed.

(* --- Load ----------------------------------------------------------------------------- *)

Definition load_f (main : list N) (p : Z) (n : node) : node :=
  if on_chain main n then mkNode (n_hdr n) (n_height n) (n_work n) (p <=? n_height n)%Z (n_first n)
  else mkNode (n_hdr n) (n_height n) (n_work n) true (n_first n).

Lemma load_f_core main p : keeps_core (load_f main p).
Proof. intros n. unfold load_f. destruct (on_chain main n); reflexivity. Qed.

Lemma load_keep_lazy_eq l main p n : load_keep_lazy l main p n = load_keep l main p n.
Proof. unfold load_keep_lazy, load_keep. destruct (on_chain main n); reflexivity. Qed.

Lemma load_nodes_eq sn d :
  load_nodes sn d =
  let l := sn_nodes sn in
  let main := chain_of l (sn_tip sn) in
  let p := (height_of l (sn_tip sn) - d)%Z in
  map (load_f main p) (filter (load_keep l main p) l).
Proof.
  unfold load_nodes. cbv zeta.
  rewrite (filter_ext _ _ (load_keep_lazy_eq (sn_nodes sn) (chain_of (sn_nodes sn) (sn_tip sn))
             (height_of (sn_nodes sn) (sn_tip sn) - d)%Z)).
  reflexivity.
Qed.

Definition srh_step (main : list N) (acc : Z) (n : node) : Z :=
  if memN (n_hash n) main then acc else n_height n.

Lemma side_root_height_eq l main x :
  side_root_height l main x = fold_left (srh_step main) (ancestors l x) (-1)%Z.
Proof. reflexivity. Qed.

Lemma load_keep_closed l t p : wf l -> parent_closed (load_keep l (chain_of l t) p) l.
Proof.
  intros Hw n q Hn Hk Hq. unfold load_keep in *.
  destruct (on_chain (chain_of l t) q) eqn:Eq; [reflexivity|]. cbn [orb].
  destruct (on_chain (chain_of l t) n) eqn:En.
  - rewrite on_chain_is_anc in En, Eq. rewrite (anc_closed l Hw t n q Hn En Hq) in Eq. discriminate.
  - cbn [orb] in Hk. rewrite !side_root_height_eq in *.
    rewrite (ancestors_step l Hw _ _ (wf_find_self l Hw n Hn)) in Hk.
    destruct (find_some _ _ _ Hq) as [Hqin Hqh].
    rewrite <- Hqh in Hk. rewrite (ancestors_step l Hw _ _ (wf_find_self l Hw q Hqin)) in Hk |- *.
    cbn [fold_left] in Hk |- *. unfold srh_step at 2 3 in Hk. unfold srh_step at 2.
    unfold on_chain in En, Eq. rewrite En, Eq in Hk. rewrite Eq. exact Hk.
Qed.

Lemma root_is_anc l : wf l -> forall t tn, find t l = Some tn ->
  forall g, In g l -> n_prev g = 0 -> is_anc l (n_hash g) t = true.
Proof.
  induction 1 as [g0 Hp Hh Hz|n p l Hw IH Hf Hnz Hpf Hh Hwk]; intros t tn Ht g Hg Hgp.
  - destruct Hg as [<-|[]]. cbn [find] in Ht. unfold is_anc. cbn [ancestors].
    destruct (n_hash g0 =? t) eqn:E; [|discriminate]. cbn [map memN]. rewrite N.eqb_refl. reflexivity.
  - assert (Hgl : In g l).
    { destruct Hg as [<-|Hg]; [|exact Hg]. exfalso. rewrite Hgp in Hpf.
      destruct (find_some _ _ _ Hpf) as [Hz Hz0]. exact (wf_hash_nz l Hw p Hz Hz0). }
    unfold is_anc. cbn [find] in Ht. cbn [ancestors]. destruct (n_hash n =? t) eqn:E.
    + cbn [map memN]. specialize (IH _ _ Hpf g Hgl Hgp). unfold is_anc in IH. rewrite IH.
      apply orb_true_r.
    + exact (IH _ _ Ht g Hgl Hgp).
Qed.

Lemma load_inv s d pick : Inv s -> (0 <= d)%Z -> Inv (fst (load s d pick)).
Proof.
  intros HI Hd. pose proof HI as (Hw & Ha & Hc & Hs). unfold load.
  destruct (saved s) as [sn|] eqn:Es; [|exact HI]. cbn [fst].
  destruct Hs as [Hws [tn Htn]].
  set (l := sn_nodes sn) in *. set (t := sn_tip sn) in *.
  set (main := chain_of l t). set (p := (height_of l t - d)%Z).
  assert (Hwf : wf (filter (load_keep l main p) l)).
  { apply wf_filter; [exact Hws|apply load_keep_closed; exact Hws|].
    intros g Hg Hgp _. unfold load_keep. unfold main. rewrite on_chain_is_anc.
    rewrite (root_is_anc l Hws t tn Htn g Hg Hgp). reflexivity. }
  assert (Hw1 : wf (load_nodes sn d)).
  { rewrite load_nodes_eq. cbv zeta. apply wf_map; [apply load_f_core|exact Hwf]. }
  destruct (find_some _ _ _ Htn) as [Htin Hth].
  assert (Htmain : on_chain main tn = true).
  { unfold main. rewrite on_chain_is_anc, Hth. exact (is_anc_self l Hws t tn Htn). }
  assert (Hex : exists m, In m (load_nodes sn d) /\ n_mem m = true).
  { exists (load_f main p tn). split.
    - rewrite load_nodes_eq. cbv zeta. apply in_map. apply filter_In. split; [exact Htin|].
      unfold load_keep. fold l t main. rewrite Htmain. reflexivity.
    - unfold load_f. rewrite Htmain. cbn [n_mem]. apply Z.leb_le. unfold p, height_of.
      fold l t. rewrite Htn. lia. }
  unfold Inv; cbn [nodes tip saved].
  split; [exact Hw1|split; [|split]].
  - apply choose_tip_admissible; assumption.
  - (* non-memory nodes after a load are best-chain nodes below the load height; so are their parents *)
    rewrite load_nodes_eq. cbv zeta. fold l t main p.
    intros n' q' Hn' Hm' Hq'.
    apply in_map_iff in Hn' as (n & <- & Hn).
    rewrite keeps_core_prev, find_map in Hq' by apply load_f_core.
    destruct (find (n_prev n) (filter (load_keep l main p) l)) as [q|] eqn:Hq; [|discriminate].
    inversion Hq'; subst q'. clear Hq'.
    apply filter_In in Hn as [Hn Hkn].
    pose proof (find_filter_some _ _ Hws _ _ Hq) as Hql.
    unfold load_f in Hm' |- *.
    destruct (on_chain main n) eqn:En; cbn [n_mem] in Hm'; [|discriminate].
    unfold main in En. rewrite on_chain_is_anc in En.
    pose proof (anc_closed l Hws t n q Hn En Hql) as Eq.
    unfold main. rewrite on_chain_is_anc, Eq. cbn [n_mem].
    destruct (wf_parent l Hws n Hn) as [[Hr _]|(q0 & Hq0 & Hh & _)].
    + rewrite Hr in Hql. destruct (find_some _ _ _ Hql) as [Hz Hz0].
      exfalso. exact (wf_hash_nz l Hws q Hz Hz0).
    + rewrite Hql in Hq0. inversion Hq0; subst q0.
      apply Z.leb_gt in Hm'. apply Z.leb_gt. lia.
  - split; [exact Hws|exists tn; exact Htn].
Qed.

(* --- every operation preserves the invariant ------------------------------------------- *)

Theorem step_inv cfg s o : cfg_ok cfg -> Inv s -> op_ok s o -> Inv (fst (step cfg s o)).
Proof.
  intros Hcfg HI Hok. destruct o; cbn [step].
  - apply submit_inv; assumption.
  - apply mark_inv; assumption.
  - apply unmark_inv; assumption.
  - apply clean_inv; assumption.
  - apply save_inv; assumption.
  - apply load_inv; assumption.
  - exact HI.
  - exact HI.
  - exact HI.
Qed.

Fixpoint ops_ok (cfg : config) (s : st) (ops : list op) : Prop :=
  match ops with
  | [] => True
  | o :: ops' => op_ok s o /\ ops_ok cfg (fst (step cfg s o)) ops'
  end.

Theorem run_inv cfg ops : cfg_ok cfg -> forall s, Inv s -> ops_ok cfg s ops ->
  Inv (fst (run cfg s ops)).
Proof.
  intros Hcfg. induction ops as [|o ops IH]; intros s HI Hok; cbn [run]; [exact HI|].
  destruct Hok as [Ho Hrest].
  pose proof (step_inv cfg s o Hcfg HI Ho) as HI1.
  destruct (step cfg s o) as [s1 r] eqn:E. cbn [fst] in *.
  specialize (IH s1 HI1 Hrest). destruct (run cfg s1 ops) as [s2 rs]. exact IH.
Qed.

Definition genesis_ok (g : hdr) : Prop := h_prev g = 0 /\ h_hash g <> 0.

Lemma init_inv g : genesis_ok g -> Inv (init g).
Proof.
  intros [Hp Hh]. unfold Inv, init; cbn [nodes tip saved]. split; [|split; [|split]].
  - constructor; [exact Hp|exact Hh|reflexivity].
  - unfold admissible, find_mem, genesis_node. cbn. rewrite N.eqb_refl. cbn.
    rewrite N.max_0_r. apply N.eqb_refl.
  - intros n p [<-|[]] Hm. discriminate.
  - exact I.
Qed.
