(* Property-level theorems about the tree model, over all histories. *)
From BR Require Import Base.Prelude Base.Compact Headers.Tree Headers.TreeBasics Headers.TreeInv
     Headers.TreeSteps Headers.TreeStream.
Open Scope N_scope.

Definition final (cfg : config) (g : hdr) (ops : list op) : st := fst (run cfg (init g) ops).

(* ---------------------------------------------------------------------------------- *)
(* C01                                                                                  *)

Theorem tip_max_work cfg g ops : cfg_ok cfg -> genesis_ok g -> ops_ok cfg (init g) ops ->
  let s := final cfg g ops in
  exists tn, find (tip s) (nodes s) = Some tn /\ n_mem tn = true /\
    (forall n, In n (nodes s) -> n_mem n = true -> n_work n <= n_work tn) /\
    (forall a, In a (ancestors (nodes s) (tip s)) -> n_work a <= n_work tn).
Proof.
  intros Hcfg Hg Hok s.
  destruct (run_inv cfg ops Hcfg (init g) (init_inv g Hg) Hok) as (Hw & Ha & _ & _). fold (final cfg g ops) in *. fold s in Hw, Ha.
  apply (admissible_spec _ _ Hw) in Ha as (tn & Htn & Hth & Htm & Htw).
  exists tn. split; [rewrite <- Hth; apply wf_find_self; assumption|].
  split; [exact Htm|]. split.
  - intros n Hn Hm. rewrite Htw. apply max_work_mem_ge; assumption.
  - intros a Ha'. assert (Hf : find (tip s) (nodes s) = Some tn) by (rewrite <- Hth; apply wf_find_self; assumption).
    destruct (ancestors_work _ Hw _ _ Hf a Ha') as [->|Hlt]; lia.
Qed.

Theorem chain_linked cfg g ops : cfg_ok cfg -> genesis_ok g -> ops_ok cfg (init g) ops ->
  let s := final cfg g ops in
  exists tn rest, ancestors (nodes s) (tip s) = tn :: rest /\ n_hash tn = tip s /\
    linked_down (tn :: rest) /\
    Z.of_nat (length (tn :: rest)) = (tip_height s + 1)%Z /\
    chain_of (nodes s) (tip s) = rev (map n_hash (tn :: rest)).
Proof.
  intros Hcfg Hg Hok s.
  destruct (run_inv cfg ops Hcfg (init g) (init_inv g Hg) Hok) as (Hw & Ha & _ & _). fold (final cfg g ops) in *. fold s in Hw, Ha.
  destruct (admissible_find _ _ Ha) as (tn & Hf & _).
  destruct (ancestors_head _ _ _ Hf) as [rest Hr].
  exists tn, rest. split; [exact Hr|]. split; [exact (proj2 (find_some _ _ _ Hf))|].
  split; [rewrite <- Hr; apply ancestors_linked; exact Hw|].
  split.
  - rewrite <- Hr, (ancestors_length _ Hw _ _ Hf). unfold tip_height, height_of. rewrite Hf. reflexivity.
  - unfold chain_of. rewrite Hr. reflexivity.
Qed.

(* ---------------------------------------------------------------------------------- *)
(* C08                                                                                  *)

Theorem refusal_changes_nothing cfg s h pick s' v ann :
  submit cfg s h pick = (s', RSubmit v ann) -> v <> VOk -> s' = s /\ ann = [].
Proof.
  unfold submit. intros H Hv.
  destruct (negb (bits_valid (h_bits h))); [inversion H; auto|].
  destruct (find_mem (nodes s) (h_prev h)) as [p|]; [|inversion H; auto].
  destruct (find_mem (nodes s) (h_hash h)); [inversion H; subst; contradiction|].
  destruct (memN (h_hash h) (invalid s)); [inversion H; auto|].
  destruct (has_cont_child (nodes s) (h_prev h) && _); [inversion H; auto|].
  inversion H; subst. contradiction.
Qed.

(* the verdict is decided by these rules, in this order *)
Theorem verdict_rules cfg s h pick :
  let v := match snd (submit cfg s h pick) with RSubmit v _ => v | _ => VOther end in
  (bits_valid (h_bits h) = false -> v = VBadBits) /\
  (bits_valid (h_bits h) = true -> find_mem (nodes s) (h_prev h) = None ->
     v = if h_prev h =? c_genesis cfg then VWrongChain else VUnknown) /\
  (bits_valid (h_bits h) = true -> forall p, find_mem (nodes s) (h_prev h) = Some p ->
     (find_mem (nodes s) (h_hash h) <> None -> v = VOk) /\
     (find_mem (nodes s) (h_hash h) = None ->
        (memN (h_hash h) (invalid s) = true -> v = VInvalid) /\
        (memN (h_hash h) (invalid s) = false ->
           (has_cont_child (nodes s) (h_prev h) = true /\ (c_maxdepth cfg < tip_height s - n_height p)%Z -> v = VTooDeep) /\
           (has_cont_child (nodes s) (h_prev h) = false \/ (tip_height s - n_height p <= c_maxdepth cfg)%Z -> v = VOk)))).
Proof.
  cbv zeta. unfold submit. split; [|split].
  - intros Hb. rewrite Hb. reflexivity.
  - intros Hb Hp. rewrite Hb, Hp. reflexivity.
  - intros Hb p Hp. rewrite Hb, Hp. cbn [negb]. split.
    + intros Hd. destruct (find_mem (nodes s) (h_hash h)); [reflexivity|contradiction].
    + intros Hd. rewrite Hd. split.
      * intros Hi. rewrite Hi. reflexivity.
      * intros Hi. rewrite Hi. split.
        -- intros [Hc Hlt]. rewrite Hc. apply Z.ltb_lt in Hlt. rewrite Hlt. reflexivity.
        -- intros [Hc|Hle].
           ++ rewrite Hc. reflexivity.
           ++ apply Z.ltb_ge in Hle. rewrite Hle, andb_false_r. reflexivity.
Qed.

(* re-submitting a header that is held in memory together with its parent: success, no change *)
Theorem resubmit_noop cfg s h pick p d :
  bits_valid (h_bits h) = true -> find_mem (nodes s) (h_prev h) = Some p ->
  find_mem (nodes s) (h_hash h) = Some d ->
  submit cfg s h pick = (s, RSubmit VOk []).
Proof. intros Hb Hp Hd. unfold submit. rewrite Hb, Hp, Hd. reflexivity. Qed.

Theorem resubmit_many cfg s h pick p d k :
  bits_valid (h_bits h) = true -> find_mem (nodes s) (h_prev h) = Some p ->
  find_mem (nodes s) (h_hash h) = Some d ->
  run cfg s (repeat (OSubmit h pick) k) = (s, repeat (RSubmit VOk []) k).
Proof.
  intros Hb Hp Hd. induction k as [|k IH]; [reflexivity|].
  cbn [repeat run step]. rewrite (resubmit_noop cfg s h pick p d Hb Hp Hd), IH. reflexivity.
Qed.

(* an accepted header is held in memory right afterwards, so the above applies to it *)
Theorem accepted_then_known cfg s h pick s' ann :
  submit cfg s h pick = (s', RSubmit VOk ann) ->
  find_mem (nodes s) (h_hash h) = None ->
  exists n, find (h_hash h) (nodes s') = Some n /\ n_hdr n = h.
Proof.
  unfold submit. intros H Hd.
  destruct (negb (bits_valid (h_bits h))); [inversion H|].
  destruct (find_mem (nodes s) (h_prev h)) as [p|]; [|destruct (h_prev h =? c_genesis cfg); inversion H].
  rewrite Hd in H.
  destruct (memN (h_hash h) (invalid s)); [inversion H|].
  destruct (has_cont_child (nodes s) (h_prev h) && _); [inversion H|].
  inversion H; subst; clear H. cbn [nodes].
  match goal with |- context [if ?c then clean_nodes ?l ?t ?d else ?l] => destruct c end.
  - rewrite clean_nodes_eq, find_map by apply clean_f_core. cbn [find n_hash n_hdr].
    rewrite N.eqb_refl. cbn [option_map]. eexists. split; [reflexivity|].
    pose proof (clean_f_core (mkNode h (n_height p + 1) (n_work p + work_of_bits (h_bits h)) true
       (has_cont_child (nodes s) (h_prev h)) :: nodes s)
       (choose_tip (mkNode h (n_height p + 1) (n_work p + work_of_bits (h_bits h)) true
          (has_cont_child (nodes s) (h_prev h)) :: nodes s) (tip s) pick) (c_prunedepth cfg)
       (mkNode h (n_height p + 1) (n_work p + work_of_bits (h_bits h)) true (has_cont_child (nodes s) (h_prev h)))) as Hc.
    unfold core in Hc. cbn [n_hdr] in Hc. congruence.
  - cbn [find n_hash n_hdr]. rewrite N.eqb_refl. eexists. split; reflexivity.
Qed.

(* ---------------------------------------------------------------------------------- *)
(* C07                                                                                  *)

Lemma chain_of_cons_other n l x : n_hash n <> x -> chain_of (n :: l) x = chain_of l x.
Proof. intros H. unfold chain_of. rewrite ancestors_cons_other by exact H. reflexivity. Qed.

Lemma in_chain_of l x y : In y (chain_of l x) -> exists a, In a (ancestors l x) /\ n_hash a = y.
Proof.
  unfold chain_of. intros H. apply in_rev in H. apply in_map_iff in H as (a & Ha & Hin). eauto.
Qed.

(* For every submission: applying what was announced to the chain reported before yields the
   chain reported after, and only headers of the new best chain are announced. *)
Theorem submit_stream cfg s h pick s' v ann : cfg_ok cfg -> Inv s -> op_ok s (OSubmit h pick) ->
  submit cfg s h pick = (s', RSubmit v ann) ->
  apply_stream (prevs_of (nodes s')) (chain_of (nodes s) (tip s)) ann = Some (chain_of (nodes s') (tip s')) /\
  (forall x, In x ann -> In x (chain_of (nodes s') (tip s'))) /\
  (tip s' = tip s -> ann = []).
Proof.
  intros Hcfg HI Hok Hsub. pose proof HI as (Hw & Ha & Hc & Hs).
  assert (Hrefuse : s' = s -> ann = [] ->
    apply_stream (prevs_of (nodes s')) (chain_of (nodes s) (tip s)) ann = Some (chain_of (nodes s') (tip s')) /\
    (forall x, In x ann -> In x (chain_of (nodes s') (tip s'))) /\ (tip s' = tip s -> ann = [])).
  { intros -> ->. split; [reflexivity|split; [intros x []|reflexivity]]. }
  unfold submit in Hsub.
  destruct (negb (bits_valid (h_bits h))) eqn:Eb; [inversion Hsub; subst; split; [reflexivity|split; [intros x []|reflexivity]]|].
  apply negb_false_iff in Eb.
  destruct (find_mem (nodes s) (h_prev h)) as [p|] eqn:Ep; [|inversion Hsub; subst; split; [reflexivity|split; [intros x []|reflexivity]]].
  destruct (find_mem (nodes s) (h_hash h)) as [dup|] eqn:Ed; [inversion Hsub; subst; split; [reflexivity|split; [intros x []|reflexivity]]|].
  destruct (memN (h_hash h) (invalid s)); [inversion Hsub; subst; split; [reflexivity|split; [intros x []|reflexivity]]|].
  set (nb := has_cont_child (nodes s) (h_prev h)) in *.
  destruct (nb && (c_maxdepth cfg <? tip_height s - n_height p)%Z); [inversion Hsub; subst; split; [reflexivity|split; [intros x []|reflexivity]]|].
  clear Hrefuse.
  set (n := mkNode h (n_height p + 1) (n_work p + work_of_bits (h_bits h)) true nb) in *.
  set (l1 := n :: nodes s) in *.
  set (t1 := choose_tip l1 (tip s) pick) in *.
  assert (Hfresh : find (h_hash h) (nodes s) = None) by (eapply submit_fresh; eauto).
  destruct (find_mem_some _ _ _ Ep) as [Hpf Hpm].
  assert (Hw1 : wf l1).
  { apply (wf_cons n p); try assumption; try reflexivity.
    - exact (proj1 Hok).
    - cbn [n n_work]. pose proof (work_of_bits_pos _ Eb). lia. }
  assert (Hex : exists m, In m l1 /\ n_mem m = true)
    by (exists n; split; [left; reflexivity|reflexivity]).
  pose proof (choose_tip_admissible l1 (tip s) pick Hw1 Hex) as Ha1. fold t1 in Ha1.
  destruct (admissible_find _ _ Ha) as (tn & Htn & Htm).
  assert (Hne : n_hash n <> tip s).
  { intros E. change (n_hash n) with (h_hash h) in E. rewrite E in Hfresh. congruence. }
  assert (Htn1 : find (tip s) l1 = Some tn) by (unfold l1; rewrite find_cons_other; assumption).
  assert (Hchain_old : chain_of (nodes s) (tip s) = chain_of l1 (tip s))
    by (unfold l1; rewrite chain_of_cons_other; [reflexivity|exact Hne]).
  (* the final node list differs from l1 by flags only *)
  assert (Hfinal : chain_of (nodes s') (tip s') = chain_of l1 t1 /\ prevs_of (nodes s') = prevs_of l1 /\
                   tip s' = t1 /\ ann = (if t1 =? tip s then [] else announce l1 (tip s) t1)).
  { inversion Hsub; subst; clear Hsub. cbn [nodes tip].
    match goal with |- context [if ?c then clean_nodes _ _ _ else _] => destruct c end.
    - rewrite clean_nodes_eq, chain_of_map, prevs_of_map by apply clean_f_core. auto.
    - auto. }
  destruct Hfinal as (Hch & Hpr & Ht & Hann). rewrite Hch, Hpr, Ht, Hann, Hchain_old.
  destruct (t1 =? tip s) eqn:Et.
  - apply N.eqb_eq in Et. rewrite Et. split; [reflexivity|split; [intros x []|reflexivity]].
  - apply N.eqb_neq in Et.
    destruct (admissible_find _ _ Ha1) as (t1n & Ht1n & Ht1m).
    split; [|split; [intros x; apply announce_on_chain|intros E; contradiction]].
    apply (announce_reconstructs l1 (tip s) t1 tn t1n Hw1 Htn1 Ht1n). left.
    intros Hnil. unfold announce in Hnil.
    destruct (drop_common_split (chain_of l1 (tip s)) (chain_of l1 t1)) as (cp & ro & H1 & H2).
    rewrite Hnil, app_nil_r in H2.
    (* then t1 would be an ancestor of the old tip, with less work than it *)
    assert (Hin : In t1 (chain_of l1 (tip s))).
    { rewrite H1. apply in_or_app. left. rewrite <- H2. unfold chain_of.
      destruct (ancestors_head _ _ _ Ht1n) as [rest Hr]. rewrite Hr. cbn [map rev].
      apply in_or_app. right. left. exact (proj2 (find_some _ _ _ Ht1n)). }
    destruct (in_chain_of _ _ _ Hin) as (a & Haa & Hah).
    assert (a = t1n).
    { pose proof (wf_find_self l1 Hw1 a (ancestors_in _ _ _ Haa)) as Hfa. rewrite Hah, Ht1n in Hfa. congruence. }
    subst a.
    apply (admissible_spec l1 t1 Hw1) in Ha1 as (m & Hm & Hmh & Hmm & Hmw).
    assert (m = t1n).
    { pose proof (wf_find_self l1 Hw1 m Hm) as Hfm. rewrite Hmh, Ht1n in Hfm. congruence. }
    subst m.
    assert (Htin : In tn l1) by exact (proj1 (find_some _ _ _ Htn1)).
    pose proof (max_work_mem_ge l1 tn Htin Htm) as Hge.
    destruct (ancestors_work l1 Hw1 _ _ Htn1 t1n Haa) as [Heq|Hlt].
    + apply Et. rewrite <- (proj2 (find_some _ _ _ Ht1n)), Heq. exact (proj2 (find_some _ _ _ Htn1)).
    + lia.
Qed.

(* ---------------------------------------------------------------------------------- *)
(* C10: Clean changes nothing that is reported                                          *)

Definition lookup_core (k : lookup) : N * Z * Z * bool * bool :=
  (lk_hash k, lk_height k, lk_ck_height k, lk_ck_flag k, lk_ck_ok k).

Lemma on_best_clean s d x : on_best (fst (clean s d)) x = on_best s x.
Proof.
  unfold on_best, clean; cbn [fst nodes tip]. rewrite clean_nodes_eq.
  apply is_anc_map. apply clean_f_core.
Qed.

Theorem clean_observables s d :
  let s' := fst (clean s d) in
  tip s' = tip s /\ invalid s' = invalid s /\
  tip_height s' = tip_height s /\
  work_of (nodes s') (tip s') = work_of (nodes s) (tip s) /\
  chain_of (nodes s') (tip s') = chain_of (nodes s) (tip s) /\
  (forall x, lookup_core (lookup_of s' x) = lookup_core (lookup_of s x)) /\
  (forall x, find x (nodes s') = None <-> find x (nodes s) = None).
Proof.
  cbv zeta. unfold clean; cbn [fst nodes tip invalid]. rewrite clean_nodes_eq.
  pose proof (clean_f_core (nodes s) (tip s) d) as Hf.
  split; [reflexivity|split; [reflexivity|]].
  split; [unfold tip_height; cbn [nodes tip]; apply height_of_map; exact Hf|].
  split; [apply work_of_map; exact Hf|].
  split; [apply chain_of_map; exact Hf|].
  split; [|intros x; apply find_none_map; exact Hf].
  intros x. unfold lookup_of; cbn [nodes tip]. rewrite find_map by exact Hf.
  destruct (find x (nodes s)) as [n|]; cbn [option_map]; [|reflexivity].
  assert (Hb : on_best (mkSt (map (clean_f (nodes s) (tip s) d) (nodes s)) (tip s) (invalid s) (ghosts s)
                           (saved s) (Some (invalid s))) x = on_best s x)
    by (unfold on_best; cbn [nodes tip]; apply is_anc_map; exact Hf).
  rewrite (keeps_core_height _ n Hf).
  destruct (n_mem (clean_f (nodes s) (tip s) d n)), (n_mem n); unfold lookup_core;
    cbn [lk_hash lk_height lk_ck_height lk_ck_flag lk_ck_ok]; rewrite Hb; reflexivity.
Qed.

(* what was retrievable by hash stays retrievable: a header Clean drops from memory is
   best-chain history, served from the main files *)
Theorem clean_keeps_history s d x : Inv s ->
  lk_get_ok (lookup_of s x) = true -> lk_get_ok (lookup_of (fst (clean s d)) x) = true.
Proof.
  intros (Hw & _ & _ & _). unfold lookup_of at 1.
  destruct (find x (nodes s)) as [n|] eqn:E; [|cbn; discriminate].
  intros Hget.
  unfold lookup_of. unfold clean at 1; cbn [fst nodes]. rewrite clean_nodes_eq.
  rewrite find_map by apply clean_f_core. rewrite E. cbn [option_map].
  destruct (n_mem (clean_f (nodes s) (tip s) d n)) eqn:Em; cbn [lk_get_ok]; [reflexivity|].
  rewrite on_best_clean.
  destruct (n_mem n) eqn:Emn.
  - rewrite clean_f_mem, Emn in Em. unfold on_best. rewrite <- (proj2 (find_some _ _ _ E)).
    destruct (is_anc (nodes s) (n_hash n) (tip s)); [reflexivity|discriminate].
  - cbn [lk_get_ok] in Hget. exact Hget.
Qed.

(* ---------------------------------------------------------------------------------- *)
(* C17: marking a header invalid                                                         *)

Theorem mark_excludes s x pick n : Inv s -> op_ok s (OMark x pick) ->
  memN x (invalid s) = false -> find_mem (nodes s) x = Some n ->
  let s' := fst (mark s x pick) in
  (forall m, In m (nodes s) -> is_anc (nodes s) x (n_hash m) = true -> find (n_hash m) (nodes s') = None) /\
  (forall m, In m (nodes s') -> In m (nodes s) /\ is_anc (nodes s) x (n_hash m) = false) /\
  find x (nodes s') = None /\ on_best s' x = false /\ memN x (invalid s') = true /\
  admissible (nodes s') (tip s') = true.
Proof.
  intros HI Hok Hinv Hn. pose proof HI as (Hw & _ & _ & _).
  pose proof (mark_inv s x pick HI Hok) as (Hw' & Ha' & _ & _).
  cbv zeta. unfold mark in *. rewrite Hinv, Hn in *. cbn [fst nodes tip invalid] in *.
  assert (Hgone : forall m, In m (nodes s) -> is_anc (nodes s) x (n_hash m) = true ->
            find (n_hash m) (filter (fun n0 => negb (is_anc (nodes s) x (n_hash n0))) (nodes s)) = None).
  { intros m Hm Hanc.
    destruct (find (n_hash m) (filter _ (nodes s))) as [m'|] eqn:E; [|reflexivity].
    destruct (find_some _ _ _ E) as [Hin Hh]. apply filter_In in Hin as [Hin Hk].
    rewrite Hh, Hanc in Hk. discriminate. }
  destruct (find_mem_some _ _ _ Hn) as [Hnf _]. destruct (find_some _ _ _ Hnf) as [Hnin Hnh].
  assert (Hxgone : find x (filter (fun n0 => negb (is_anc (nodes s) x (n_hash n0))) (nodes s)) = None).
  { pose proof (Hgone n Hnin) as Hg. rewrite Hnh in Hg. apply Hg. exact (is_anc_self _ Hw x n Hnf). }
  split; [exact Hgone|]. split.
  - intros m Hm. apply filter_In in Hm as [Hm Hk]. split; [exact Hm|]. apply negb_true_iff. exact Hk.
  - split; [exact Hxgone|]. split; [|split; [|exact Ha']].
    + unfold on_best; cbn [nodes tip].
      destruct (is_anc _ x _) eqn:E; [|reflexivity].
      apply is_anc_spec in E as (a & Ha & Hah).
      pose proof (find_none_notin _ _ Hxgone a (ancestors_in _ _ _ Ha)). contradiction.
    + apply memN_In. apply in_or_app. right. left. reflexivity.
Qed.

(* while marked: the header is refused as invalid wherever it could attach, and its children
   have no parent to attach to *)
Theorem marked_is_refused cfg s h pick p :
  memN (h_hash h) (invalid s) = true -> bits_valid (h_bits h) = true ->
  find_mem (nodes s) (h_prev h) = Some p -> find_mem (nodes s) (h_hash h) = None ->
  submit cfg s h pick = (s, RSubmit VInvalid []).
Proof. intros Hi Hb Hp Hd. unfold submit. rewrite Hb, Hp, Hd, Hi. reflexivity. Qed.

Theorem child_of_absent_refused cfg s h pick :
  bits_valid (h_bits h) = true -> find_mem (nodes s) (h_prev h) = None ->
  exists v, submit cfg s h pick = (s, RSubmit v []) /\ v <> VOk.
Proof.
  intros Hb Hp. unfold submit. rewrite Hb, Hp. cbn [negb].
  destruct (h_prev h =? c_genesis cfg); eexists; split; try reflexivity; discriminate.
Qed.

(* the invalid list and the invalid file: every operation that changes the list writes the file,
   and Load reads it back *)
Definition inv_file_ok (s : st) : Prop :=
  NoDup (invalid s) /\
  (saved_invalid s = Some (invalid s) \/ (saved_invalid s = None /\ invalid s = [])).

Lemma NoDup_removeN x l : NoDup l -> NoDup (removeN x l) /\ (forall y, In y (removeN x l) -> In y l).
Proof.
  induction l as [|a l IH]; cbn [removeN]; intros H; [split; [constructor|auto]|].
  inversion H as [|? ? Hna Hnd]; subst. destruct (x =? a).
  - split; [assumption|intros y Hy; right; exact Hy].
  - destruct (IH Hnd) as [G1 G2]. split.
    + constructor; [|exact G1]. intros Hin. apply G2 in Hin. contradiction.
    + intros y [->|Hy]; [left; reflexivity|right; exact (G2 y Hy)].
Qed.

Lemma step_inv_file cfg s o : inv_file_ok s -> inv_file_ok (fst (step cfg s o)).
Proof.
  intros [Hnd Hf]. destruct o; cbn [step].
  - unfold submit.
    destruct (negb _); [split; assumption|].
    destruct (find_mem _ (h_prev h)); [|split; assumption].
    destruct (find_mem _ (h_hash h)); [split; assumption|].
    destruct (memN _ _); [split; assumption|].
    destruct (_ && _); [split; assumption|]. cbn [fst].
    unfold inv_file_ok; cbn [invalid saved_invalid]. split; [exact Hnd|].
    match goal with |- context [if ?c then Some _ else _] => destruct c end; [left; reflexivity|exact Hf].
  - unfold mark. destruct (memN x (invalid s)) eqn:E; [split; assumption|].
    assert (NoDup (invalid s ++ [x])).
    { apply NoDup_snoc; [exact Hnd|]. intros Hin. apply memN_In in Hin. congruence. }
    destruct (find_mem (nodes s) x); cbn [fst]; unfold inv_file_ok; cbn [invalid saved_invalid]; auto.
  - unfold unmark. destruct (memN x (invalid s)); [|split; assumption].
    cbn [fst]. unfold inv_file_ok; cbn [invalid saved_invalid].
    split; [exact (proj1 (NoDup_removeN x _ Hnd))|left; reflexivity].
  - unfold clean, inv_file_ok; cbn [fst invalid saved_invalid]. auto.
  - unfold save, inv_file_ok; cbn [fst invalid saved_invalid]. auto.
  - unfold load. destruct (saved s); [|split; assumption]. cbn [fst].
    unfold inv_file_ok; cbn [invalid saved_invalid].
    destruct Hf as [Hf|[Hf1 Hf2]].
    + rewrite Hf. auto.
    + rewrite Hf1. split; [constructor|right; auto].
  - split; assumption.
  - split; assumption.
  - split; assumption.
Qed.

(* a Load restores exactly the invalid list *)
Theorem load_keeps_invalid s d pick : inv_file_ok s -> invalid (fst (load s d pick)) = invalid s.
Proof.
  intros [_ Hf]. unfold load. destruct (saved s); [|reflexivity]. cbn [fst invalid].
  destruct Hf as [Hf|[Hf1 Hf2]]; [rewrite Hf; reflexivity|rewrite Hf1, Hf2; reflexivity].
Qed.

Theorem run_inv_file cfg ops : forall s, inv_file_ok s -> inv_file_ok (fst (run cfg s ops)).
Proof.
  induction ops as [|o ops IH]; intros s H; cbn [run]; [exact H|].
  pose proof (step_inv_file cfg s o H) as H1.
  destruct (step cfg s o) as [s1 r]. cbn [fst] in *. specialize (IH s1 H1).
  destruct (run cfg s1 ops). exact IH.
Qed.

Theorem unmark_clears s x : inv_file_ok s -> memN x (invalid (fst (unmark s x))) = false.
Proof.
  intros [Hnd _]. unfold unmark. destruct (memN x (invalid s)) eqn:E; [|exact E].
  cbn [fst invalid]. destruct (memN x (removeN x (invalid s))) eqn:E2; [|reflexivity]. exfalso.
  apply memN_In in E2. clear E. induction (invalid s) as [|a l IH]; [destruct E2|].
  cbn [removeN] in E2. inversion Hnd as [|? ? Hna Hnd']; subst. destruct (x =? a) eqn:Ea.
  - apply N.eqb_eq in Ea. subst a. contradiction.
  - destruct E2 as [->|E2]; [rewrite N.eqb_refl in Ea; discriminate|exact (IH Hnd' E2)].
Qed.

(* ... and only it: every other marked hash stays marked, and the tree and the tip are untouched *)
Lemma memN_removeN_other x y l : y <> x -> memN y (removeN x l) = memN y l.
Proof.
  intros Hne. induction l as [|a l IH]; [reflexivity|].
  cbn [removeN]. destruct (x =? a) eqn:Ea.
  - apply N.eqb_eq in Ea. subst a. cbn [memN]. destruct (y =? x) eqn:Exy; [|reflexivity].
    apply N.eqb_eq in Exy. congruence.
  - cbn [memN]. rewrite IH. reflexivity.
Qed.

Theorem unmark_keeps_others s x y : y <> x ->
  memN y (invalid (fst (unmark s x))) = memN y (invalid s) /\
  nodes (fst (unmark s x)) = nodes s /\ tip (fst (unmark s x)) = tip s.
Proof.
  intros Hne. unfold unmark. destruct (memN x (invalid s)); cbn [fst invalid nodes tip]; [|auto].
  split; [apply memN_removeN_other; exact Hne|auto].
Qed.

(* ---------------------------------------------------------------------------------- *)
(* C09: lookups agree with the tree                                                     *)

Lemma in_chain_memN l x t : In x (chain_of l t) <-> is_anc l x t = true.
Proof.
  unfold chain_of, is_anc. rewrite <- in_rev. symmetry. apply memN_In.
Qed.

Theorem lookup_known s x n : Inv s -> find x (nodes s) = Some n ->
  let k := lookup_of s x in
  lk_height k = n_height n /\
  Z.of_nat (length (ancestors (nodes s) x)) = (lk_height k + 1)%Z /\
  lk_ck_ok k = true /\ lk_ck_height k = n_height n /\
  (lk_ck_flag k = true <-> In x (chain_of (nodes s) (tip s))) /\
  (lk_prev k <> 0 -> lk_prev k = n_prev n /\ lk_prev_height k = (n_height n - 1)%Z) /\
  (lk_get_ok k = true -> n_mem n = true \/ In x (chain_of (nodes s) (tip s))).
Proof.
  intros (Hw & _ & _ & _) Hn. cbv zeta. unfold lookup_of. rewrite Hn.
  pose proof (ancestors_length _ Hw _ _ Hn) as Hlen.
  destruct (n_mem n) eqn:Em; cbn [lk_height lk_ck_ok lk_ck_height lk_ck_flag lk_prev lk_prev_height lk_get_ok].
  - split; [reflexivity|split; [exact Hlen|split; [reflexivity|split; [reflexivity|]]]].
    split; [unfold on_best; symmetry; apply in_chain_memN|].
    split; [|auto].
    destruct (find_mem (nodes s) (n_prev n)) as [p|] eqn:Ep; cbn [fst snd]; [|intros H; contradiction].
    intros _. destruct (find_mem_some _ _ _ Ep) as [Hpf _].
    destruct (find_some _ _ _ Hpf) as [_ Hph]. split; [exact Hph|].
    destruct (find_some _ _ _ Hn) as [Hnin _].
    destruct (wf_parent _ Hw n Hnin) as [[Hr _]|(q & Hq & Hh & _)].
    + rewrite Hr in Hpf. destruct (find_some _ _ _ Hpf) as [Hz Hz0]. exfalso. exact (wf_hash_nz _ Hw p Hz Hz0).
    + rewrite Hpf in Hq. inversion Hq; subst q. lia.
  - split; [reflexivity|split; [exact Hlen|split; [reflexivity|split; [reflexivity|]]]].
    split; [unfold on_best; symmetry; apply in_chain_memN|].
    split; [intros H; contradiction|].
    intros H. right. apply in_chain_memN. exact H.
Qed.

Theorem lookup_unknown s x : find x (nodes s) = None ->
  lookup_of s x = mkLookup x (-1) (-1) false false 0 (-1) false.
Proof. intros H. unfold lookup_of. rewrite H. reflexivity. Qed.

(* ---------------------------------------------------------------------------------- *)
(* C11: Save then Load                                                                  *)

Lemma ancestors_filter keep l : forall x, (forall a, In a (ancestors l x) -> keep a = true) ->
  ancestors (filter keep l) x = ancestors l x.
Proof.
  induction l as [|n l IH]; intros x Hk; [reflexivity|].
  cbn [ancestors filter] in *. destruct (n_hash n =? x) eqn:E.
  - rewrite (Hk n (or_introl eq_refl)). cbn [ancestors]. rewrite E. f_equal.
    apply IH. intros a Ha. apply Hk. right. exact Ha.
  - destruct (keep n); [cbn [ancestors]; rewrite E|]; apply IH; exact Hk.
Qed.

Theorem save_load_restores s d pick : Inv s -> inv_file_ok s -> (0 <= d)%Z ->
  let s2 := fst (load (fst (save s)) d pick) in
  Inv s2 /\
  invalid s2 = invalid s /\
  chain_of (nodes s2) (tip s) = chain_of (nodes s) (tip s) /\
  (forall x, In x (chain_of (nodes s) (tip s)) -> height_of (nodes s2) x = height_of (nodes s) x) /\
  (forall n, In n (nodes s2) -> exists n0, In n0 (nodes s) /\ core n0 = core n).
Proof.
  intros HI Hfile Hd. cbv zeta.
  pose proof (save_inv s HI) as HI1.
  pose proof (load_inv (fst (save s)) d pick HI1 Hd) as HI2.
  split; [exact HI2|].
  split.
  { rewrite load_keeps_invalid; [reflexivity|].
    exact (step_inv_file (mkCfg 0 0 0 0) s OSave Hfile). }
  pose proof HI as (Hw & Ha & _ & _).
  unfold load, save; cbn [fst saved nodes tip].
  rewrite load_nodes_eq. cbv zeta. cbn [sn_nodes sn_tip].
  set (l1 := consolidate (nodes s) (tip s)).
  set (main := chain_of l1 (tip s)). set (p := (height_of l1 (tip s) - d)%Z).
  assert (Hl1 : l1 = map (consolidate_f (chain_of (nodes s) (tip s))) (nodes s)) by reflexivity.
  assert (Hkeepmain : forall a, In a (ancestors l1 (tip s)) -> load_keep l1 main p a = true).
  { intros a Haa. unfold load_keep, main. rewrite on_chain_is_anc.
    replace (is_anc l1 (n_hash a) (tip s)) with true; [reflexivity|].
    symmetry. apply is_anc_spec. exists a. auto. }
  assert (Hchain : chain_of (map (load_f main p) (filter (load_keep l1 main p) l1)) (tip s) =
                   chain_of (nodes s) (tip s)).
  { rewrite chain_of_map by apply load_f_core. unfold chain_of at 1.
    rewrite ancestors_filter by exact Hkeepmain.
    fold (chain_of l1 (tip s)). rewrite Hl1. apply chain_of_map. apply consolidate_f_core. }
  split; [exact Hchain|]. split.
  - intros x Hx. rewrite height_of_map by apply load_f_core.
    assert (Hw1 : wf l1) by (rewrite Hl1; apply wf_map; [apply consolidate_f_core|exact Hw]).
    rewrite <- (chain_of_map (consolidate_f (chain_of (nodes s) (tip s)))) in Hx by apply consolidate_f_core.
    rewrite <- Hl1 in Hx. destruct (in_chain_of _ _ _ Hx) as (a & Haa & Hah).
    pose proof (wf_find_self l1 Hw1 a (ancestors_in _ _ _ Haa)) as Hfa. rewrite Hah in Hfa.
    unfold height_of at 1. rewrite (find_filter _ l1 Hw1 x a Hfa (Hkeepmain a Haa)).
    rewrite <- (height_of_map (consolidate_f (chain_of (nodes s) (tip s)))) by apply consolidate_f_core.
    rewrite <- Hl1. unfold height_of. rewrite Hfa. reflexivity.
  - intros n Hn. apply in_map_iff in Hn as (n1 & <- & Hn1). apply filter_In in Hn1 as [Hn1 _].
    rewrite Hl1 in Hn1. apply in_map_iff in Hn1 as (n0 & <- & Hn0).
    exists n0. split; [exact Hn0|]. rewrite load_f_core, consolidate_f_core. reflexivity.
Qed.
