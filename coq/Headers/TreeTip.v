(* C11: the reported tip itself is the same after Save;Load whenever it is the only header of
   its cumulative work (when several headers tie for the most work the repository may report any
   of them after a Load - C01 - and the harness takes the implementation's choice as an input). *)
From BR Require Import Base.Prelude Base.Compact Headers.Tree Headers.TreeBasics Headers.TreeInv
     Headers.TreeSteps Headers.TreeStream Headers.TreeProps Headers.TreeHorizon.
Open Scope N_scope.

Theorem save_load_same_tip s d pick : Inv s -> inv_file_ok s -> K (nodes s) -> (0 <= d)%Z ->
  (forall a, In a (nodes s) -> n_work a = work_of (nodes s) (tip s) -> n_hash a = tip s) ->
  tip (fst (load (fst (save s)) d pick)) = tip s.
Proof.
  intros HI Hfile HK Hd Huniq.
  destruct (save_load_restores s d pick HI Hfile Hd) as (HI2 & _ & _ & _ & Hcore).
  cbv zeta in *.
  pose proof HI as (Hw & Ha & _ & _).
  pose proof HI2 as (Hw2 & Ha2 & _ & _).
  apply (admissible_spec _ _ Hw) in Ha as (T & HT & HTh & HTm & HTw).
  apply (admissible_spec _ _ Hw2) in Ha2 as (T2 & HT2 & HT2h & HT2m & HT2w).
  assert (HfT : find (tip s) (nodes s) = Some T) by (rewrite <- HTh; exact (wf_find_self _ Hw T HT)).
  (* the old tip is held in memory after the Load *)
  assert (Hin : exists m, In m (nodes (fst (load (fst (save s)) d pick))) /\ n_mem m = true /\ n_work m = n_work T).
  { unfold load, save; cbn [fst saved nodes tip]. rewrite load_nodes_eq. cbv zeta. cbn [sn_nodes sn_tip].
    set (l1 := consolidate (nodes s) (tip s)).
    set (main := chain_of l1 (tip s)). set (p := (height_of l1 (tip s) - d)%Z).
    assert (Hl1 : l1 = map (consolidate_f (chain_of (nodes s) (tip s))) (nodes s)) by reflexivity.
    assert (Hw1 : wf l1) by (rewrite Hl1; apply wf_map; [apply consolidate_f_core|exact Hw]).
    set (tn := consolidate_f (chain_of (nodes s) (tip s)) T).
    assert (Htn : find (tip s) l1 = Some tn).
    { rewrite Hl1, find_map by apply consolidate_f_core. rewrite HfT. reflexivity. }
    assert (Htin : In tn l1) by (rewrite Hl1; apply in_map; exact HT).
    assert (Htmain : on_chain main tn = true).
    { unfold main. rewrite on_chain_is_anc. destruct (find_some _ _ _ Htn) as [_ Hth]. rewrite Hth.
      exact (is_anc_self l1 Hw1 (tip s) tn Htn). }
    exists (load_f main p tn). split; [|split].
    - apply in_map. apply filter_In. split; [exact Htin|]. unfold load_keep. rewrite Htmain. reflexivity.
    - unfold load_f. rewrite Htmain. cbn [n_mem]. apply Z.leb_le. unfold p, height_of. rewrite Htn. lia.
    - pose proof (load_f_core main p tn) as H1. pose proof (consolidate_f_core (chain_of (nodes s) (tip s)) T) as H2.
      unfold core in H1, H2. unfold tn in *. congruence. }
  destruct Hin as (m & Hm & Hmm & Hmw).
  destruct (Hcore T2 HT2) as (n0 & Hn0 & Hc0).
  assert (Hw0 : n_work n0 = n_work T2) by (unfold core in Hc0; congruence).
  assert (Hh0 : n_hash n0 = n_hash T2) by (unfold core in Hc0; unfold n_hash; congruence).
  pose proof (tip_max_work_all s HI HK n0 Hn0) as Hle.
  pose proof (max_work_mem_ge _ m Hm Hmm) as Hge.
  assert (HWT : work_of (nodes s) (tip s) = n_work T) by (unfold work_of; rewrite HfT; reflexivity).
  assert (Heq : n_work n0 = work_of (nodes s) (tip s)) by lia.
  rewrite <- HT2h, <- Hh0. apply Huniq; assumption.
Qed.
