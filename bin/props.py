"""Per-property configuration of bin/check."""

TRUSTED_BASE = [
    "Coq 8.16.1 kernel including its vm_compute virtual machine (used for cases files, finite sweeps and reflective proofs); native_compute is not used",
    "no axioms: every property theorem prints 'Closed under the global context' (re-checked by Print Assumptions on every run); bin/check lints the development for Axiom/Parameter/Admitted/admit/unset kernel checks",
    "no extraction: the model is evaluated inside Coq on the harness's histories (cases_*.v, vm_compute)",
    "trusted glue: the Go harness (generators, spies, Coq term printer), bin/gen_consts (constants translator) and bin/check (orchestration, result parsing)",
    "the model is hand-written; what is modelled rather than verified is listed per property in DESIGN.md section 8",
]

HOOK_COMMITS = []

# properties not claimed (yet), with the reason shown in MANIFEST.not_applicable
PENDING = {}

PROPS = {
    "C20": dict(
        sim="peersim", props_file="Props/C20.v",
        technique="Coq proof (induction over op lists; byte-codec round-trip and prefix theorems) + in-kernel differential correspondence with peers.go",
        level_text="Machine-checked theorems over every history of the address-book model (NoDup invariant, exact Get, int32 score sums, save/load round trip, every file prefix, totality of Load on arbitrary bytes), tied to peers.go by running the real repository and the model on the same generated histories on every run.",
        level_note="Proof is about the hand-written model coq/Peers/Peers.v; the tie to the code is differential (generated histories + corpus), not a proof. Clock and storage are inputs/assumptions; see evidence.assumptions.",
        n_quick=400, n_thorough=8000, shards_quick=16, shards_thorough=16,
        assumptions=[
            "storage.MockStorage is a key->bytes map with atomic Write/Remove (not modelled further)",
            "time.Now() is an input of the model: the LastTime the implementation stamped is fed to the model",
            "concurrent callers: every method holds the repository mutex for its whole body, so a concurrent run is a sequential order; the harness sequentialises 4-goroutine runs and compares the final book",
            "the book never reaches 2^31 peers (int32 count field) - hypothesis [bounded] of C20_nodup",
        ],
        mismatch_meaning="the implementation's answers (Add/Update booleans, Get result as a multiset, Count, Load error-or-not, panic) differ from the model's on this history, or a Get result held an address twice, or Load panicked",
    ),
}
