"""Per-property configuration of bin/check."""

TRUSTED_BASE = [
    "Coq 8.16.1 kernel including its vm_compute virtual machine (used for cases files, finite sweeps and reflective proofs); native_compute is not used",
    "no axioms: every property theorem prints 'Closed under the global context' (re-checked by Print Assumptions on every run); bin/check lints the development for Axiom/Parameter/Admitted/admit/unset kernel checks",
    "no extraction: the model is evaluated inside Coq on the harness's histories (cases_*.v, vm_compute)",
    "trusted glue: the Go harness (generators, spies, Coq term printer), bin/gen_consts (constants translator) and bin/check (orchestration, result parsing)",
    "the model is hand-written; what is modelled rather than verified is listed per property in DESIGN.md section 8",
]

HOOK_COMMITS = []

# properties not claimed (yet), with the reason shown in MANIFEST.not_applicable
PENDING = {}

PROPS = {
    "C03": dict(
        sim="splitsim", props_file="Props/C03.v", shrink=False,
        n_quick=60, n_thorough=600, shards_quick=8, shards_thorough=16,
        technique="Coq proof (split rule theorems over the split table regenerated from splits.go) + in-kernel differential correspondence on the real chain at the split height",
        level_text="Machine-checked: the split table and required split in /repo are the consensus ones (constants translator + reflexivity), nothing but the BSV split header passes the chain-identity check at 556767 on any branch, the BTC/BCH split headers are refused as wrong-chain (unknown parent, or at their height), the BSV header passes, VerifyHeader accepts only the BSV split header. Tied to the code by offering the real BSV and BCH split headers and random headers at height 556767 of the real fixture chain, on the main chain and on forks created below, with known/unknown parents, protection on/off, and by VerifyHeader on the same headers.",
        level_note="The BTC split header itself cannot be constructed offline (its 80 bytes are not in the repository): its refusal is covered by the theorem over the regenerated table and by the BCH header exercising the same rule. The peer-side use of VerifyHeader (verified only on the BSV reply, else disconnected) is checked under C13's harness (netsim) and listed there.",
        assumptions=["block hashes are inputs (SHA-256d not modelled)", "heights are parent height + 1 as the repository computes them (C09)"],
        mismatch_meaning="ProcessHeader's chain-identity answer (wrong chain / unknown / let through) or VerifyHeader's answer differs from the split rules for this header",
    ),
    "C02": dict(
        sim="powsim", props_file="Props/C02.v", shrink=False,
        n_quick=200, n_thorough=3000, shards_quick=16, shards_thorough=16,
        technique="Coq proof (compact codec lemmas, DAA = network algorithm, accept soundness/completeness, no-panic, kernel sweep of the real fixture chain) + in-kernel differential correspondence with the bitcoin/headers code",
        level_text="Machine-checked: an accepting verdict implies hash <= decoded target and, from 556767 on, bits = compact(network DAA target of the header's own branch); the DAA model equals the network algorithm (signed span clamp, 3-swap median, (2^256-W)/W, cap); the verdict function never panics and the exact set of crashing bits is characterised; every real header of the shipped fixture chains is accepted (vm_compute sweep). Tied to the code by comparing ConvertToDifficulty/Work/Bits on all 256 exponent bytes, Branch.Target on generated adversarial chains (root and fork), and ProcessHeader with difficulty ON on the real chains and on 13 kinds of mutations of real headers.",
        level_note="Proof is about coq/Base/Compact.v and coq/Headers/Pow.v; SHA-256d is not modelled (real hash values are inputs). Acceptance of synthetic headers at height >= 556767 cannot be exercised end to end (mining); it is covered by Branch.Target cases plus mutations of real headers. Consts.v and Fixture.v are regenerated from /repo on every run.",
        assumptions=[
            "the block hash value and the six (timestamp, cumulative work) samples are inputs of the model; cumulative work is the implementation's AccumulatedWork(), whose per-header increments are checked separately (decode cases)",
            "compact encodings with the sign bit or an exponent above 32 are decoded as the dependency decodes them (no negative/overflow rejection below the activation height; observation in DESIGN.md)",
        ],
        mismatch_meaning="ConvertToDifficulty/Work/Bits, Branch.Target or the ProcessHeader verdict with difficulty checks on differs from the model (network algorithm) on this input, or the call panicked",
    ),
    "C01": dict(
        sim="hdrsim", props_file="Props/C01.v", sim_args=["-profile", "C01"],
        n_quick=600, n_thorough=6000, shards_quick=16, shards_thorough=16,
        technique='Coq proof (state invariant by induction over all operation histories) + in-kernel differential correspondence with headers.Repository',
        level_text='Machine-checked: in every reachable state of every history the tip has maximal work among in-memory headers and above all its ancestors, the reported chain is the linked ancestry of the tip, refusals change nothing. Tied to the code by replaying generated histories (forks of forks, sibling/cousin forks, overtaking, orphans, duplicates, Clean/Save/Load) on the real repository and comparing tip, work and the chain at every height after every operation.',
        level_note='Theorems are about the hand-written reference model coq/Headers/Tree.v; the tie to /repo/headers is differential on generated histories (tag verif hooks VerifClean/VerifLoad for small prune depths), masked to the observables this property pins down. C01_max_work is marked partial in Coq (see Props/C01.v).',
        assumptions=[
            "hashes are abstract identifiers: the harness interns the real 256-bit block hashes injectively; theorems assume equal hashes mean equal headers and a non-zero hash (op_ok)",
            "difficulty checks are off in these histories (no mining); cumulative work is still computed from bits by the real code and by the model (Base/Compact.v)",
            "storage.MockStorage is a key->bytes map with atomic Write/Remove",
            "which of several equal-work tips is reported is left open by the properties: the model takes the implementation's choice as an input and checks that it is admissible",
            "Mark is only applied to headers whose parent is held in memory (DESIGN.md observation D23)",
        ],
        mismatch_meaning="after some operation the implementation's tip/height/work or the hash it reports at some height differs from the most-work chain of the headers accepted so far (model), or the implementation's choice of tip is not a maximal-work header",
    ),
    "C07": dict(
        sim="hdrsim", props_file="Props/C07.v", sim_args=["-profile", "C07"],
        n_quick=600, n_thorough=6000, shards_quick=16, shards_thorough=16,
        technique='Coq proof (stream reconstruction theorem for every submission in every reachable state) + differential correspondence + trace decider',
        level_text="Machine-checked: for every submission, applying the announced headers to the previous chain yields the new chain; only best-chain headers are announced; nothing when the tip does not move. Tied to the code by comparing the drained channel with the model's announcement after every submission, and by a decider that applies the implementation's own stream and compares with the chain it reports (several subscribers).",
        level_note='Theorems are about the hand-written reference model coq/Headers/Tree.v; the tie to /repo/headers is differential on generated histories (tag verif hooks VerifClean/VerifLoad for small prune depths), masked to the observables this property pins down.',
        assumptions=[
            "hashes are abstract identifiers: the harness interns the real 256-bit block hashes injectively; theorems assume equal hashes mean equal headers and a non-zero hash (op_ok)",
            "difficulty checks are off in these histories (no mining); cumulative work is still computed from bits by the real code and by the model (Base/Compact.v)",
            "storage.MockStorage is a key->bytes map with atomic Write/Remove",
            "which of several equal-work tips is reported is left open by the properties: the model takes the implementation's choice as an input and checks that it is admissible",
            "Mark is only applied to headers whose parent is held in memory (DESIGN.md observation D23)",
        ],
        mismatch_meaning="the headers drained from the new-header channel after a submission differ from the model's announcement (new chain above the fork point, lowest first), or applying the implementation's stream does not give the chain it reports, or subscribers received different items",
    ),
    "C08": dict(
        sim="hdrsim", props_file="Props/C08.v", sim_args=["-profile", "C08"],
        n_quick=600, n_thorough=6000, shards_quick=16, shards_thorough=16,
        technique='Coq proof (decision table and refusal-no-op theorems on the model) + differential correspondence + refusal decider',
        level_text='Machine-checked decision table for the verdict, refusal leaves the state identical, resubmission of a held header is a no-op any number of times. Tied to the code by comparing errors.Cause of every ProcessHeader answer with the model on adversarial next headers (orphans, duplicates on any branch, forks exactly at / beyond MaxBranchDepth for 0,1,2,3,5,144) and by a decider that compares full observations before and after every refusal.',
        level_note='Theorems are about the hand-written reference model coq/Headers/Tree.v; the tie to /repo/headers is differential on generated histories (tag verif hooks VerifClean/VerifLoad for small prune depths), masked to the observables this property pins down.',
        assumptions=[
            "hashes are abstract identifiers: the harness interns the real 256-bit block hashes injectively; theorems assume equal hashes mean equal headers and a non-zero hash (op_ok)",
            "difficulty checks are off in these histories (no mining); cumulative work is still computed from bits by the real code and by the model (Base/Compact.v)",
            "storage.MockStorage is a key->bytes map with atomic Write/Remove",
            "which of several equal-work tips is reported is left open by the properties: the model takes the implementation's choice as an input and checks that it is admissible",
            "Mark is only applied to headers whose parent is held in memory (DESIGN.md observation D23)",
        ],
        mismatch_meaning='ProcessHeader answered with a different verdict class than the rules dictate, or an observable changed across a refusal',
    ),
    "C09": dict(
        sim="hdrsim", props_file="Props/C09.v", sim_args=["-profile", "C09"],
        n_quick=600, n_thorough=6000, shards_quick=16, shards_thorough=16,
        technique='Coq proof (lookup theorems over the invariant) + differential correspondence on every lookup of every created header',
        level_text='Machine-checked: heights are tree depths, the best-chain flag is ancestry of the tip, predecessors are true parents, unknown hashes are unknown. Tied to the code by comparing HashHeight / CheckHeader / PreviousHash / GetHeader (must hash to the request) / Hash / Header / GetHeaders for every header ever created, after every operation including Clean(depth) and Load(depth) with small depths.',
        level_note='Theorems are about the hand-written reference model coq/Headers/Tree.v; the tie to /repo/headers is differential on generated histories (tag verif hooks VerifClean/VerifLoad for small prune depths), masked to the observables this property pins down.',
        assumptions=[
            "hashes are abstract identifiers: the harness interns the real 256-bit block hashes injectively; theorems assume equal hashes mean equal headers and a non-zero hash (op_ok)",
            "difficulty checks are off in these histories (no mining); cumulative work is still computed from bits by the real code and by the model (Base/Compact.v)",
            "storage.MockStorage is a key->bytes map with atomic Write/Remove",
            "which of several equal-work tips is reported is left open by the properties: the model takes the implementation's choice as an input and checks that it is admissible",
            "Mark is only applied to headers whose parent is held in memory (DESIGN.md observation D23)",
        ],
        mismatch_meaning='a lookup (HashHeight, CheckHeader height/flag, PreviousHash, GetHeader) of some created header differs from the accepted tree',
    ),
    "C10": dict(
        sim="hdrsim", props_file="Props/C10.v", sim_args=["-profile", "C10"],
        n_quick=600, n_thorough=6000, shards_quick=16, shards_thorough=16,
        technique='Coq proof (Clean is the identity on observables; history stays retrievable) + differential correspondence attributed through a clean-free control run',
        level_text='Machine-checked: Clean changes no reported observable for any state and depth, keeps best-chain history retrievable and preserves the invariant. Tied to the code by running each history with and without its Cleans on the real repository: a disagreement with the model that the control run does not show is a violation.',
        level_note='Theorems are about the hand-written reference model coq/Headers/Tree.v; the tie to /repo/headers is differential on generated histories (tag verif hooks VerifClean/VerifLoad for small prune depths), masked to the observables this property pins down. C10_future is decided by the correspondence only.',
        assumptions=[
            "hashes are abstract identifiers: the harness interns the real 256-bit block hashes injectively; theorems assume equal hashes mean equal headers and a non-zero hash (op_ok)",
            "difficulty checks are off in these histories (no mining); cumulative work is still computed from bits by the real code and by the model (Base/Compact.v)",
            "storage.MockStorage is a key->bytes map with atomic Write/Remove",
            "which of several equal-work tips is reported is left open by the properties: the model takes the implementation's choice as an input and checks that it is admissible",
            "Mark is only applied to headers whose parent is held in memory (DESIGN.md observation D23)",
        ],
        mismatch_meaning="with the Clean operations in place the implementation's verdicts/tip/chain/lookups differ from the model while the same history without the Cleans agrees",
    ),
    "C11": dict(
        sim="hdrsim", props_file="Props/C11.v", sim_args=["-profile", "C11"],
        n_quick=600, n_thorough=6000, shards_quick=16, shards_thorough=16,
        technique='Coq proof (Save;Load restores invariant, invalid list, best chain and heights) + differential correspondence attributed through a control run',
        level_text='Machine-checked: Save;Load(depth) re-establishes the invariant, the invalid list, the best chain at every height; generations by induction. Tied to the code by running each history with Save;Load(depth) pairs into a fresh repository on the same storage and comparing all later answers with the model, with a control run without the pairs.',
        level_note='Theorems are about the hand-written reference model coq/Headers/Tree.v; the tie to /repo/headers is differential on generated histories (tag verif hooks VerifClean/VerifLoad for small prune depths), masked to the observables this property pins down. Restoration of side branches within the retained depth and C11_future are decided by the correspondence only; legacy version-0 migration and empty storage are outside the model.',
        assumptions=[
            "hashes are abstract identifiers: the harness interns the real 256-bit block hashes injectively; theorems assume equal hashes mean equal headers and a non-zero hash (op_ok)",
            "difficulty checks are off in these histories (no mining); cumulative work is still computed from bits by the real code and by the model (Base/Compact.v)",
            "storage.MockStorage is a key->bytes map with atomic Write/Remove",
            "which of several equal-work tips is reported is left open by the properties: the model takes the implementation's choice as an input and checks that it is admissible",
            "Mark is only applied to headers whose parent is held in memory (DESIGN.md observation D23)",
        ],
        mismatch_meaning="after Save+Load the implementation's verdicts/tip/chain/lookups differ from the model while the same history without Save/Load agrees",
    ),
    "C17": dict(
        sim="hdrsim", props_file="Props/C17.v", sim_args=["-profile", "C17"],
        n_quick=600, n_thorough=6000, shards_quick=16, shards_thorough=16,
        technique='Coq proof (mark removes the subtree, refusal while marked, invalid list/file invariant) + differential correspondence',
        level_text='Machine-checked: marking removes the header and everything built on it, the tip falls back to a maximal-work remaining header, the hash is refused while marked, the list survives Save/Load, unmarking clears it. Tied to the code by histories with Mark/Unmark of best-chain, side-branch, first-of-branch, unseen and already marked headers, followed by submissions and Save/Load.',
        level_note='Theorems are about the hand-written reference model coq/Headers/Tree.v; the tie to /repo/headers is differential on generated histories (tag verif hooks VerifClean/VerifLoad for small prune depths), masked to the observables this property pins down.',
        assumptions=[
            "hashes are abstract identifiers: the harness interns the real 256-bit block hashes injectively; theorems assume equal hashes mean equal headers and a non-zero hash (op_ok)",
            "difficulty checks are off in these histories (no mining); cumulative work is still computed from bits by the real code and by the model (Base/Compact.v)",
            "storage.MockStorage is a key->bytes map with atomic Write/Remove",
            "which of several equal-work tips is reported is left open by the properties: the model takes the implementation's choice as an input and checks that it is admissible",
            "Mark is only applied to headers whose parent is held in memory (DESIGN.md observation D23)",
        ],
        mismatch_meaning="after MarkHeaderInvalid/MarkHeaderNotInvalid the implementation's tip/chain/lookups or the verdict for the marked hash or its children differ from the model",
    ),
    "C20": dict(
        sim="peersim", props_file="Props/C20.v",
        technique="Coq proof (induction over op lists; byte-codec round-trip and prefix theorems) + in-kernel differential correspondence with peers.go",
        level_text="Machine-checked theorems over every history of the address-book model (NoDup invariant, exact Get, int32 score sums, save/load round trip, every file prefix, totality of Load on arbitrary bytes), tied to peers.go by running the real repository and the model on the same generated histories on every run.",
        level_note="Proof is about the hand-written model coq/Peers/Peers.v; the tie to the code is differential (generated histories + corpus), not a proof. Clock and storage are inputs/assumptions; see evidence.assumptions.",
        n_quick=400, n_thorough=8000, shards_quick=16, shards_thorough=16,
        assumptions=[
            "storage.MockStorage is a key->bytes map with atomic Write/Remove (not modelled further)",
            "time.Now() is an input of the model: the LastTime the implementation stamped is fed to the model",
            "concurrent callers: every method holds the repository mutex for its whole body, so a concurrent run is a sequential order; the harness sequentialises 4-goroutine runs and compares the final book",
            "the book never reaches 2^31 peers (int32 count field) - hypothesis [bounded] of C20_nodup",
        ],
        mismatch_meaning="the implementation's answers (Add/Update booleans, Get result as a multiset, Count, Load error-or-not, panic) differ from the model's on this history, or a Get result held an address twice, or Load panicked",
    ),
}
