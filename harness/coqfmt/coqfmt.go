// Package coqfmt holds the small pieces every simulator shares: a deterministic PRNG
// (every random choice of a run derives from VERIF_SEED), Coq term printing, and the
// JSON case files used for replay and shrinking.
package coqfmt

import (
	"context"

	"encoding/json"
	"fmt"
	"github.com/tokenized/logger"
	"math/big"
	"os"
	"strings"
)

// Rand is splitmix64: tiny, deterministic and independent of the Go version.
type Rand struct{ s uint64 }

func NewRand(seed uint64) *Rand { return &Rand{s: seed*0x9E3779B97F4A7C15 + 0x1234567} }

func (r *Rand) U64() uint64 {
	r.s += 0x9E3779B97F4A7C15
	z := r.s
	z = (z ^ (z >> 30)) * 0xBF58476D1CE4E5B9
	z = (z ^ (z >> 27)) * 0x94D049BB133111EB
	return z ^ (z >> 31)
}

// Intn returns a value in [0,n).
func (r *Rand) Intn(n int) int {
	if n <= 0 {
		return 0
	}
	return int(r.U64() % uint64(n))
}

// Chance returns true with probability num/den.
func (r *Rand) Chance(num, den int) bool { return r.Intn(den) < num }

// Pick returns an index chosen by integer weights.
func (r *Rand) Pick(weights ...int) int {
	total := 0
	for _, w := range weights {
		total += w
	}
	x := r.Intn(total)
	for i, w := range weights {
		if x < w {
			return i
		}
		x -= w
	}
	return len(weights) - 1
}

// Fork derives an independent stream (so case k is reproducible on its own).
func (r *Rand) Fork(k uint64) *Rand { return NewRand(r.s ^ (k+1)*0xD1B54A32D192ED03) }

func N(n uint64) string      { return fmt.Sprintf("%d", n) }
func BigN(n *big.Int) string { return n.String() }
func Z(z int64) string {
	if z < 0 {
		return fmt.Sprintf("(%d)%%Z", z)
	}
	return fmt.Sprintf("%d%%Z", z)
}
func Nat(n int) string { return fmt.Sprintf("%d%%nat", n) }
func Bool(b bool) string {
	if b {
		return "true"
	}
	return "false"
}
func List(items []string) string { return "[" + strings.Join(items, "; ") + "]" }
func Bytes(b []byte) string {
	items := make([]string, len(b))
	for i, x := range b {
		items[i] = fmt.Sprintf("%d", x)
	}
	return List(items)
}
func Opt(s string, some bool) string {
	if some {
		return "(Some " + s + ")"
	}
	return "None"
}

// WriteCases writes one cases file: header, a list definition, and the evaluation that the
// orchestrator greps for ("VERIF_M = [...]").
func WriteCases(path, imports, ty, mismatchFn string, cases []string) error {
	var sb strings.Builder
	sb.WriteString(imports)
	sb.WriteString("\nOpen Scope N_scope.\n")
	fmt.Fprintf(&sb, "Definition cases : list (%s) := [\n", ty)
	for i, c := range cases {
		sb.WriteString(c)
		if i+1 < len(cases) {
			sb.WriteString(";\n")
		}
	}
	sb.WriteString("\n].\n")
	fmt.Fprintf(&sb, "Definition VERIF_M := Eval vm_compute in %s cases.\nPrint VERIF_M.\n", mismatchFn)
	return os.WriteFile(path, []byte(sb.String()), 0o644)
}

func WriteJSON(path string, v interface{}) error {
	b, err := json.MarshalIndent(v, "", " ")
	if err != nil {
		return err
	}
	return os.WriteFile(path, b, 0o644)
}

func ReadJSON(path string, v interface{}) error {
	b, err := os.ReadFile(path)
	if err != nil {
		return err
	}
	return json.Unmarshal(b, v)
}

// QuietContext is a context whose logger discards everything.
func QuietContext() context.Context { return logger.ContextWithNoLogger(context.Background()) }
