// peersim: correspondence harness for C20 (peer address book, /repo/peers.go).
//
// Generates histories of Add/UpdateScore/UpdateTime/Get/Count/Save/Load/Clear plus file
// truncations and arbitrary file contents, runs them on the real StoragePeerRepository over a
// MockStorage, and writes Coq case files in which the model (coq/Peers/Peers.v) is evaluated on
// the same histories and compared with what the implementation answered.
package main

import (
	"encoding/hex"
	"flag"
	"fmt"
	"math"
	"os"
	"path/filepath"
	"sort"
	"strings"
	"sync"

	bitcoin_reader "github.com/tokenized/bitcoin_reader"
	"github.com/tokenized/pkg/storage"

	"verifharness/coqfmt"
)

type Op struct {
	K  string `json:"k"`
	A  string `json:"a,omitempty"` // address bytes, hex
	D  int32  `json:"d,omitempty"`
	Lo int32  `json:"lo,omitempty"`
	Hi int32  `json:"hi,omitempty"`
	N  int    `json:"n,omitempty"`
	B  string `json:"b,omitempty"` // file bytes, hex
}

type Case struct {
	ID   int    `json:"id"`
	Kind string `json:"kind"` // seq | concurrent
	Ops  []Op   `json:"ops"`
}

type outp struct {
	kind  string // bool peers num unit load panic
	b     bool
	peers []bitcoin_reader.Peer
	n     int
	ok    bool
	now   uint32
}

const peersPath = "peers"

func addrBytes(a string) []byte { b, _ := hex.DecodeString(a); return b }

// run executes ops on a fresh repository. It returns the outputs and, for score/time ops, the
// LastTime the implementation stamped (the model takes the clock as an input).
func run(ops []Op) []outp {
	ctx := coqfmt.QuietContext()
	store := storage.NewMockStorage()
	repo := bitcoin_reader.NewPeerRepository(store, "")
	outs := make([]outp, 0, len(ops))
	lastTime := func(a string) uint32 {
		l, _ := repo.Get(ctx, math.MinInt32, -1)
		var t uint32
		for _, p := range l { // the lookup holds the last list element with this address
			if p.Address == a {
				t = p.LastTime
			}
		}
		return t
	}
	for _, op := range ops {
		a := string(addrBytes(op.A))
		switch op.K {
		case "add":
			ok, _ := repo.Add(ctx, a)
			outs = append(outs, outp{kind: "bool", b: ok})
		case "score":
			ok := repo.UpdateScore(ctx, a, op.D)
			outs = append(outs, outp{kind: "bool", b: ok, now: lastTime(a)})
		case "time":
			ok := repo.UpdateTime(ctx, a)
			outs = append(outs, outp{kind: "bool", b: ok, now: lastTime(a)})
		case "get":
			l, _ := repo.Get(ctx, op.Lo, op.Hi)
			ps := make([]bitcoin_reader.Peer, len(l))
			for i, p := range l {
				ps[i] = *p
			}
			outs = append(outs, outp{kind: "peers", peers: ps})
		case "count":
			outs = append(outs, outp{kind: "num", n: repo.Count()})
		case "save":
			repo.Save(ctx)
			outs = append(outs, outp{kind: "unit"})
		case "load":
			o := outp{kind: "load"}
			func() {
				defer func() {
					if r := recover(); r != nil {
						o.kind = "panic"
					}
				}()
				o.ok = repo.Load(ctx) == nil
			}()
			outs = append(outs, o)
		case "clear":
			repo.Clear(ctx)
			outs = append(outs, outp{kind: "unit"})
		case "cut":
			if data, err := store.Read(ctx, peersPath); err == nil {
				n := op.N
				if n > len(data) {
					n = len(data)
				}
				store.Write(ctx, peersPath, append([]byte{}, data[:n]...), nil)
			}
			outs = append(outs, outp{kind: "unit"})
		case "corrupt":
			store.Write(ctx, peersPath, addrBytes(op.B), nil)
			outs = append(outs, outp{kind: "unit"})
		}
	}
	return outs
}

func coqPeer(p bitcoin_reader.Peer) string {
	return fmt.Sprintf("mkPeer %s %s %d", coqfmt.Bytes([]byte(p.Address)), coqfmt.Z(int64(p.Score)), p.LastTime)
}

func coqCase(c Case, outs []outp) string {
	ops := make([]string, len(c.Ops))
	rs := make([]string, len(c.Ops))
	for i, op := range c.Ops {
		a := coqfmt.Bytes(addrBytes(op.A))
		o := outs[i]
		switch op.K {
		case "add":
			ops[i] = "OAdd " + a
		case "score":
			ops[i] = fmt.Sprintf("OScore %s %s %d", a, coqfmt.Z(int64(op.D)), o.now)
		case "time":
			ops[i] = fmt.Sprintf("OTime %s %d", a, o.now)
		case "get":
			ops[i] = fmt.Sprintf("OGet %s %s", coqfmt.Z(int64(op.Lo)), coqfmt.Z(int64(op.Hi)))
		case "count":
			ops[i] = "OCount"
		case "save":
			ops[i] = "OSave"
		case "load":
			ops[i] = "OLoad"
		case "clear":
			ops[i] = "OClear"
		case "cut":
			ops[i] = "OCut " + coqfmt.Nat(op.N)
		case "corrupt":
			ops[i] = "OCorrupt " + coqfmt.Bytes(addrBytes(op.B))
		}
		switch o.kind {
		case "bool":
			rs[i] = "RBool " + coqfmt.Bool(o.b)
		case "peers":
			ps := make([]string, len(o.peers))
			for j, p := range o.peers {
				ps[j] = coqPeer(p)
			}
			rs[i] = "RPeers " + coqfmt.List(ps)
		case "num":
			rs[i] = fmt.Sprintf("RNum %d", o.n)
		case "unit":
			rs[i] = "RUnit"
		case "load":
			if o.ok {
				rs[i] = "RLoad 0"
			} else {
				rs[i] = "RLoad 1"
			}
		case "panic":
			rs[i] = "RPanic 0"
		}
	}
	return "(" + coqfmt.List(ops) + ",\n  " + coqfmt.List(rs) + ")"
}

// ---- generation ------------------------------------------------------------------------

var pool = []string{"", "31", "3132", "5b3a3a315d3a38333333", "c3a9ff00", "74657374203120", "00", strings.Repeat("61", 300)}

func genAddr(r *coqfmt.Rand) string {
	if r.Chance(5, 6) {
		return pool[r.Intn(len(pool))]
	}
	n := r.Intn(12)
	b := make([]byte, n)
	for i := range b {
		b[i] = byte(r.Intn(256))
	}
	return hex.EncodeToString(b)
}

func genScore(r *coqfmt.Rand) int32 {
	switch r.Pick(6, 2, 1, 1) {
	case 0:
		return int32(r.Intn(11) - 5)
	case 1:
		return int32(r.Intn(2001) - 1000)
	case 2:
		return math.MaxInt32 - int32(r.Intn(3))
	default:
		return math.MinInt32 + int32(r.Intn(3))
	}
}

func le32(v uint32) []byte { return []byte{byte(v), byte(v >> 8), byte(v >> 16), byte(v >> 24)} }

// structured hostile files: the shapes named in the property (and D14)
func genFile(r *coqfmt.Rand) string {
	var b []byte
	rec := func(a []byte, size uint32) {
		b = append(b, le32(size)...)
		b = append(b, a...)
		b = append(b, le32(uint32(r.Intn(100)))...)
		b = append(b, le32(uint32(r.Intn(100)))...)
	}
	switch r.Pick(2, 2, 2, 2, 2, 1) {
	case 0: // random bytes
		n := r.Intn(40)
		for i := 0; i < n; i++ {
			b = append(b, byte(r.Intn(256)))
		}
	case 1: // negative count
		b = append(b, 0)
		b = append(b, le32(0xffffffff-uint32(r.Intn(3)))...)
		rec([]byte("ab"), 2)
	case 2: // negative address size
		b = append(b, 0)
		b = append(b, le32(uint32(r.Intn(3)))...)
		rec([]byte("ab"), 2)
		b = append(b, le32(0xffffffff-uint32(r.Intn(1000)))...)
		b = append(b, 1, 2, 3)
	case 3: // oversized declared address / count
		b = append(b, 0)
		b = append(b, le32(0x7fffffff)...)
		rec([]byte("abc"), 3)
		b = append(b, le32(0x7ffffff0)...)
		b = append(b, 9, 9)
	case 4: // duplicate addresses and wrong version
		b = append(b, byte(r.Intn(2)))
		b = append(b, le32(2)...)
		rec([]byte("x"), 1)
		rec([]byte("x"), 1)
	default: // tiny
		n := r.Intn(6)
		for i := 0; i < n; i++ {
			b = append(b, 0)
		}
	}
	return hex.EncodeToString(b)
}

func genCase(r *coqfmt.Rand, id int) Case {
	n := 4 + r.Intn(28)
	ops := make([]Op, 0, n)
	saved := false
	hostile := r.Chance(1, 5)
	for len(ops) < n {
		switch r.Pick(8, 6, 2, 4, 1, 3, 3, 1, 3, 2) {
		case 0:
			ops = append(ops, Op{K: "add", A: genAddr(r)})
		case 1:
			ops = append(ops, Op{K: "score", A: genAddr(r), D: genScore(r)})
		case 2:
			ops = append(ops, Op{K: "time", A: genAddr(r)})
		case 3:
			lo := int32(r.Intn(9) - 4)
			hi := int32(-1)
			if r.Chance(1, 2) {
				hi = lo + int32(r.Intn(6)) - 1
			}
			if r.Chance(1, 8) {
				lo = math.MinInt32
			}
			ops = append(ops, Op{K: "get", Lo: lo, Hi: hi})
		case 4:
			ops = append(ops, Op{K: "count"})
		case 5:
			ops = append(ops, Op{K: "save"})
			saved = true
		case 6:
			ops = append(ops, Op{K: "load"}, Op{K: "get", Lo: math.MinInt32, Hi: -1})
		case 7:
			ops = append(ops, Op{K: "clear"})
			saved = false
		case 8:
			if saved {
				ops = append(ops, Op{K: "cut", N: r.Intn(90)}, Op{K: "load"}, Op{K: "get", Lo: math.MinInt32, Hi: -1})
			}
		case 9:
			if hostile {
				ops = append(ops, Op{K: "corrupt", B: genFile(r)}, Op{K: "load"}, Op{K: "get", Lo: math.MinInt32, Hi: -1})
				saved = true
			}
		}
	}
	ops = append(ops, Op{K: "get", Lo: math.MinInt32, Hi: -1})
	return Case{ID: id, Kind: "seq", Ops: ops}
}

// exhaustive family: a saved 3-peer book cut at every byte offset
func cutCases(id0 int) []Case {
	base := []Op{{K: "add", A: "3132"}, {K: "add", A: ""}, {K: "add", A: "c3a9ff00"},
		{K: "score", A: "3132", D: -3}, {K: "score", A: "", D: 2147483647}, {K: "score", A: "", D: 1}, {K: "save"}}
	var res []Case
	for k := 0; k <= 50; k++ {
		ops := append(append([]Op{}, base...), Op{K: "cut", N: k}, Op{K: "load"},
			Op{K: "get", Lo: math.MinInt32, Hi: -1}, Op{K: "count"})
		res = append(res, Case{ID: id0 + k, Kind: "seq", Ops: ops})
	}
	return res
}

// concurrent callers: 4 goroutines add overlapping addresses, then apply score deltas, then one
// Get. Every method holds the repository lock for its whole body, so the outcome must be that of
// some sequential order; the final book does not depend on which (sums commute). The harness
// sequentialises: for each address the Add that returned true first.
func genConcurrent(r *coqfmt.Rand, id int) (Case, []outp, bool) {
	ctx := coqfmt.QuietContext()
	store := storage.NewMockStorage()
	repo := bitcoin_reader.NewPeerRepository(store, "")
	addrs := []string{"61", "62", "63", "64", "65"}
	type res struct {
		op Op
		ok bool
	}
	var mu sync.Mutex
	var adds, scores []res
	var wg sync.WaitGroup
	for g := 0; g < 4; g++ {
		rg := r.Fork(uint64(g))
		wg.Add(1)
		go func() {
			defer wg.Done()
			for i := 0; i < 6; i++ {
				a := addrs[rg.Intn(len(addrs))]
				ok, _ := repo.Add(ctx, string(addrBytes(a)))
				mu.Lock()
				adds = append(adds, res{Op{K: "add", A: a}, ok})
				mu.Unlock()
			}
		}()
	}
	wg.Wait()
	for g := 0; g < 4; g++ {
		rg := r.Fork(uint64(100 + g))
		wg.Add(1)
		go func() {
			defer wg.Done()
			for i := 0; i < 6; i++ {
				a := addrs[rg.Intn(len(addrs))]
				d := genScore(rg)
				ok := repo.UpdateScore(ctx, string(addrBytes(a)), d)
				mu.Lock()
				scores = append(scores, res{Op{K: "score", A: a, D: d}, ok})
				mu.Unlock()
			}
		}()
	}
	wg.Wait()
	sort.SliceStable(adds, func(i, j int) bool {
		if adds[i].op.A != adds[j].op.A {
			return adds[i].op.A < adds[j].op.A
		}
		return adds[i].ok && !adds[j].ok
	})
	c := Case{ID: id, Kind: "concurrent"}
	var outs []outp
	for _, a := range adds {
		c.Ops = append(c.Ops, a.op)
		outs = append(outs, outp{kind: "bool", b: a.ok})
	}
	l, _ := repo.Get(ctx, math.MinInt32, -1)
	final := map[string]uint32{}
	for _, p := range l {
		final[p.Address] = p.LastTime
	}
	for _, s := range scores {
		c.Ops = append(c.Ops, s.op)
		outs = append(outs, outp{kind: "bool", b: s.ok, now: final[string(addrBytes(s.op.A))]})
	}
	c.Ops = append(c.Ops, Op{K: "get", Lo: math.MinInt32, Hi: -1}, Op{K: "count"})
	ps := make([]bitcoin_reader.Peer, len(l))
	for i, p := range l {
		ps[i] = *p
	}
	outs = append(outs, outp{kind: "peers", peers: ps}, outp{kind: "num", n: repo.Count()})
	return c, outs, true
}

func main() {
	out := flag.String("out", "", "output directory")
	seed := flag.Uint64("seed", 1, "PRNG seed")
	n := flag.Int("n", 300, "number of generated cases")
	shards := flag.Int("shards", 8, "number of cases files")
	replay := flag.String("replay", "", "JSON file with cases to re-execute instead of generating")
	_ = flag.String("tier", "quick", "quick|thorough (only the case count differs)")
	flag.Parse()
	if *out == "" {
		fmt.Fprintln(os.Stderr, "need -out")
		os.Exit(2)
	}
	os.MkdirAll(*out, 0o755)

	var cases []Case
	pre := map[int][]outp{}
	if *replay != "" {
		if err := coqfmt.ReadJSON(*replay, &cases); err != nil {
			fmt.Fprintln(os.Stderr, err)
			os.Exit(2)
		}
	} else {
		root := coqfmt.NewRand(*seed)
		cases = append(cases, cutCases(0)...)
		for i := 0; i < *n; i++ {
			cases = append(cases, genCase(root.Fork(uint64(i)), len(cases)))
		}
		for i := 0; i < *n/20+1; i++ {
			c, outs, _ := genConcurrent(root.Fork(uint64(1000000+i)), len(cases))
			pre[c.ID] = outs
			cases = append(cases, c)
		}
	}

	// execute
	coq := make([]string, len(cases))
	stats := map[string]int{}
	shapes := map[string]bool{}
	nontrivial := map[string]bool{}
	for i, c := range cases {
		outs, ok := pre[c.ID]
		if !ok || c.Kind != "concurrent" {
			if c.Kind == "concurrent" {
				// a replayed concurrent case is re-executed sequentially in its recorded order
				c.Kind = "seq"
			}
			outs = run(c.Ops)
		}
		coq[i] = coqCase(c, outs)
		kinds := map[string]bool{}
		var shape strings.Builder
		for j, op := range c.Ops {
			stats["op_"+op.K]++
			kinds[op.K] = true
			shape.WriteString(op.K[:2])
			if outs[j].kind == "panic" {
				stats["panic_observed"]++
			}
			if outs[j].kind == "load" && !outs[j].ok {
				stats["load_error"]++
			}
			if outs[j].kind == "bool" {
				shape.WriteString(coqfmt.Bool(outs[j].b)[:1])
			}
		}
		stats["kind_"+c.Kind]++
		stats[fmt.Sprintf("len_%02d-%02d", len(c.Ops)/10*10, len(c.Ops)/10*10+9)]++
		shapes[shape.String()] = true
		// non-trivial: the history loads a file after a save/cut/corrupt, or updates a held peer
		if kinds["load"] && (kinds["save"] || kinds["corrupt"]) || kinds["score"] && kinds["add"] {
			nontrivial[shape.String()] = true
		}
	}

	// shard
	k := *shards
	if k > len(cases) {
		k = len(cases)
	}
	if k < 1 {
		k = 1
	}
	index := make([][]int, k)
	for s := 0; s < k; s++ {
		var part []string
		for i := s; i < len(cases); i += k {
			part = append(part, coq[i])
			index[s] = append(index[s], cases[i].ID)
		}
		path := filepath.Join(*out, fmt.Sprintf("cases_%d.v", s))
		if err := coqfmt.WriteCases(path, "From BR Require Import Base.Prelude Peers.Peers.",
			"list op * list out", "mismatches", part); err != nil {
			fmt.Fprintln(os.Stderr, err)
			os.Exit(2)
		}
	}
	coqfmt.WriteJSON(filepath.Join(*out, "cases.json"), cases)
	samples := []interface{}{}
	for i := 0; i < len(cases) && len(samples) < 3; i += len(cases)/3 + 1 {
		samples = append(samples, map[string]interface{}{"case": cases[i], "coq": coq[i]})
	}
	coqfmt.WriteJSON(filepath.Join(*out, "stats.json"), map[string]interface{}{
		"evaluations":         len(cases),
		"distinct_shapes":     len(shapes),
		"distinct_nontrivial": len(nontrivial),
		"rule": "cases: every byte cut 0..50 of a saved 3-peer book (exhaustive family), random histories of 4-35 ops over a pool of 8 addresses plus random ones (scores incl. int32 extremes, hostile files: negative count/size, oversize, duplicates, wrong version, random), and 4-goroutine concurrent runs; distinct = distinct (op kind, boolean result) sequence; non-trivial = loads a file it saved or was given, or updates the score of a held peer",
		"distribution":        stats,
		"index":               index,
		"samples":             samples,
	})
}
