// splitsim: correspondence harness for the header-repository part of C03 (chain splits) against
// coq/Headers/Splits.v.  The repository is brought to height 556766 with the real fixture chain;
// at the split height it is offered the BSV header, the BCH header, random headers - on the main
// chain and on forks created below - with protection on and off, with known and unknown parents;
// VerifyHeader is asked about the same headers.
package main

import (
	"encoding/json"
	"flag"
	"fmt"
	"math/big"
	"os"
	"path/filepath"

	"github.com/pkg/errors"
	"github.com/tokenized/bitcoin_reader/headers"
	"github.com/tokenized/pkg/bitcoin"
	"github.com/tokenized/pkg/storage"
	"github.com/tokenized/pkg/wire"

	"verifharness/coqfmt"
)

type Case struct {
	ID      int    `json:"id"`
	Ops     []int  `json:"ops"`
	Kind    string `json:"kind"` // scenario name
	ForkLen int    `json:"fork_len"`
	Protect bool   `json:"protect"`
	Seed    uint64 `json:"seed"`
	coq     []string
}

func classify(err error) string {
	if err == nil {
		return "VOk"
	}
	switch errors.Cause(err) {
	case headers.ErrUnknownHeader:
		return "VUnknown"
	case headers.ErrHeaderMarkedInvalid:
		return "VInvalid"
	case headers.ErrBeyondMaxBranchDepth:
		return "VTooDeep"
	case headers.ErrWrongChain:
		return "VWrongChain"
	case headers.ErrNotEnoughWork:
		return "VBadWork"
	case headers.ErrInvalidTarget:
		return "VBadBits"
	}
	return "VOther"
}

var fixture []*wire.BlockHeader
var genesisValue string

func hv(h bitcoin.Hash32) string { return "0x" + h.Value().Text(16) }

func bchHeader() *wire.BlockHeader {
	mr, _ := bitcoin.NewHash32FromStr("1cf31105bd6b1b4dba9ae55290ec06fff15b4567ec62a6e3863409bb3efd1944")
	return &wire.BlockHeader{Version: 0x20000000, PrevBlock: *fixture[766].BlockHash(), MerkleRoot: *mr,
		Timestamp: 1542304936, Bits: 402792411, Nonce: 3911120513}
}

func randHeader(r *coqfmt.Rand, prev bitcoin.Hash32, t uint32) *wire.BlockHeader {
	h := &wire.BlockHeader{Version: 1, PrevBlock: prev, Timestamp: t, Bits: 0x1d00ffff, Nonce: uint32(r.U64())}
	for i := 0; i < 8; i++ {
		h.MerkleRoot[i] = byte(r.Intn(256))
	}
	return h
}

func (c *Case) process(repo *headers.Repository, h *wire.BlockHeader, height int, known, dup bool) string {
	ctx := coqfmt.QuietContext()
	v := classify(repo.ProcessHeader(ctx, h))
	c.coq = append(c.coq, fmt.Sprintf("SProcess (mkSplitIn %s %s %d%%Z %s %s %s %s) %s", hv(*h.BlockHash()), hv(h.PrevBlock), height,
		coqfmt.Bool(known), coqfmt.Bool(dup), coqfmt.Bool(c.Protect), genesisValue, v))
	return v
}

func (c *Case) verify(repo *headers.Repository, h *wire.BlockHeader) {
	ctx := coqfmt.QuietContext()
	err := repo.VerifyHeader(ctx, h)
	obs := "VerUnknown"
	switch {
	case err == nil:
		obs = "VerAccept"
	case errors.Cause(err) == headers.ErrWrongChain:
		obs = "VerWrongChain"
	case errors.Cause(err) == headers.ErrUnknownHeader:
		obs = "VerUnknown"
	default:
		obs = "VerAfterGenesis"
	}
	c.coq = append(c.coq, fmt.Sprintf("SVerify %s %s %s %s", hv(*h.BlockHash()), hv(h.PrevBlock), genesisValue, obs))
}

func run(c *Case) {
	ctx := coqfmt.QuietContext()
	r := coqfmt.NewRand(c.Seed)
	repo := headers.NewRepository(headers.DefaultConfig(), storage.NewMockStorage())
	repo.DisableDifficulty()
	if !c.Protect {
		repo.DisableSplitProtection()
	}
	work, _ := new(big.Int).SetString("d167cf38dd7a9c078a40d5", 16)
	repo.MockLatest(ctx, fixture[0], 556000, work)
	upto := 766
	for i := 1; i <= upto; i++ {
		if err := repo.ProcessHeader(ctx, fixture[i]); err != nil {
			panic(err)
		}
	}
	tip := *fixture[766].BlockHash()
	t := fixture[766].Timestamp
	bsv, bch := fixture[767], bchHeader()
	switch c.Kind {
	case "main": // at the split height on the main chain
		order := r.Intn(3)
		rnd := randHeader(r, tip, t+600)
		if order == 0 {
			c.process(repo, rnd, 556767, true, false)
		}
		c.process(repo, bch, 556767, true, false)
		if order == 1 {
			c.process(repo, rnd, 556767, true, false)
		}
		v := c.process(repo, bsv, 556767, true, false)
		c.process(repo, bsv, 556767, true, v == "VOk") // duplicate
		if order == 2 {
			c.process(repo, rnd, 556767, true, false)
		}
		c.process(repo, bch, 556767, true, false)
		// continue on the real chain
		for i := 768; i < 768+r.Intn(5); i++ {
			c.process(repo, fixture[i], 556000+i, true, false)
		}
	case "fork": // a fork created below the split height reaches it
		at := 766 - c.ForkLen
		prev := *fixture[at].BlockHash()
		tt := fixture[at].Timestamp
		for h := 556000 + at + 1; h <= 556767+r.Intn(3); h++ {
			x := randHeader(r, prev, tt+600)
			v := c.process(repo, x, h, true, false)
			if v != "VOk" {
				break
			}
			prev = *x.BlockHash()
			tt += 600
		}
		c.process(repo, bsv, 556767, true, false)
	case "unknown": // parents the repository does not know (it starts at 556000)
		other := headers.NewRepository(headers.DefaultConfig(), storage.NewMockStorage())
		other.DisableDifficulty()
		if !c.Protect {
			other.DisableSplitProtection()
		}
		other.InitializeWithGenesis()
		c.process(other, bch, 0, false, false)
		c.process(other, bsv, 0, false, false)
		c.process(other, randHeader(r, tip, t), 0, false, false)
		// a header claiming the genesis header as parent, offered to the repository that does not hold it
		g, _ := other.Header(ctx, 0)
		c.process(repo, randHeader(r, *g.BlockHash(), 1231006505+600), 0, false, false)
	case "verify":
		if l, err := repo.GetVerifyOnlyLocatorHashes(ctx); err == nil {
			items := make([]string, len(l))
			for i, h := range l {
				items[i] = hv(h)
			}
			c.coq = append(c.coq, "SVerifyLocator "+coqfmt.List(items))
		}
		c.verify(repo, bsv)
		c.verify(repo, bch)
		c.verify(repo, randHeader(r, tip, t))
		c.verify(repo, fixture[r.Intn(len(fixture))])
		other := headers.NewRepository(headers.DefaultConfig(), storage.NewMockStorage())
		other.InitializeWithGenesis()
		g, _ := other.Header(ctx, 0)
		c.verify(repo, randHeader(r, *g.BlockHash(), 1231006505+600))
	}
}

func main() {
	out := flag.String("out", "", "output directory")
	seed := flag.Uint64("seed", 1, "PRNG seed")
	n := flag.Int("n", 40, "number of generated scenarios")
	shards := flag.Int("shards", 8, "number of cases files")
	replay := flag.String("replay", "", "JSON file with cases to re-execute instead of generating")
	_ = flag.String("tier", "quick", "")
	flag.Parse()
	os.MkdirAll(*out, 0o755)
	b, err := os.ReadFile("/repo/headers/test_fixtures/headers_556000.txt")
	if err == nil {
		err = json.Unmarshal(b, &fixture)
	}
	if err != nil {
		fmt.Fprintln(os.Stderr, err)
		os.Exit(2)
	}
	{
		other := headers.NewRepository(headers.DefaultConfig(), storage.NewMockStorage())
		other.InitializeWithGenesis()
		genesisValue = hv(other.LastHash())
	}
	var cases []Case
	if *replay != "" {
		if err := coqfmt.ReadJSON(*replay, &cases); err != nil {
			fmt.Fprintln(os.Stderr, err)
			os.Exit(2)
		}
	} else {
		r := coqfmt.NewRand(*seed)
		kinds := []string{"main", "fork", "fork", "unknown", "verify"}
		for i := 0; i < *n; i++ {
			cases = append(cases, Case{ID: i, Kind: kinds[i%len(kinds)], ForkLen: 1 + r.Intn(40), Protect: i%7 != 6, Seed: r.U64()})
		}
	}
	stats := map[string]int{}
	distinct := map[string]bool{}
	var lines []string
	var owner []int
	for i := range cases {
		cases[i].Ops = []int{}
		run(&cases[i])
		stats["scenario_"+cases[i].Kind]++
		for _, l := range cases[i].coq {
			lines = append(lines, "("+l+")")
			owner = append(owner, cases[i].ID)
			distinct[l] = true
			for _, v := range []string{"VOk", "VWrongChain", "VUnknown", "VerAccept", "VerWrongChain", "VerUnknown", "VerAfterGenesis"} {
				if len(l) > len(v) && l[len(l)-len(v):] == v {
					stats["observed_"+v]++
				}
			}
		}
	}
	k := *shards
	if k > len(lines) {
		k = len(lines)
	}
	if k < 1 {
		k = 1
	}
	index := make([][]int, k)
	for s := 0; s < k; s++ {
		var part []string
		for i := s; i < len(lines); i += k {
			part = append(part, lines[i])
			index[s] = append(index[s], owner[i])
		}
		coqfmt.WriteCases(filepath.Join(*out, fmt.Sprintf("cases_%d.v", s)), "From BR Require Import Base.Prelude Headers.Tree Headers.Splits.", "scase", "smismatches", part)
	}
	coqfmt.WriteJSON(filepath.Join(*out, "cases.json"), cases)
	coqfmt.WriteJSON(filepath.Join(*out, "stats.json"), map[string]interface{}{
		"evaluations":         len(lines),
		"distinct_nontrivial": len(distinct),
		"rule":                "scenarios on the real chain at height 556766: BSV/BCH/random headers at the split height in every order (main), forks of 1-40 random headers created below the split that reach it (fork), BCH/BSV/random/after-genesis headers with unknown parents (unknown), VerifyHeader on BSV/BCH/random/real/after-genesis headers (verify); protection on (6/7) and off (1/7); one evaluation per ProcessHeader/VerifyHeader call; distinct = distinct (inputs, answer)",
		"distribution":        stats,
		"index":               index,
		"samples":             []interface{}{map[string]interface{}{"case": cases[0], "coq": cases[0].coq}},
	})
}
