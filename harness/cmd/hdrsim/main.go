// hdrsim: correspondence harness for the header repository (/repo/headers) against the
// reference tree model coq/Headers/Tree.v.  Serves C01 C07 C08 C09 C10 C11 C17 (profiles).
//
// A case is a tree plan (headers with abstract parents, bits, times) plus an operation list
// (submit in any order, duplicates, orphans, Mark/Unmark, Clean(depth), Save, Load(depth),
// Observe).  The real headers.Repository runs it over a MockStorage; every answer, the drained
// new-header channel and full lookup snapshots are written as a Coq case that the model replays.
package main

import (
	"sync"
	"encoding/json"
	"math/big"
	"context"
	"encoding/binary"
	"flag"
	"fmt"
	"os"
	"path/filepath"
	"strings"

	"github.com/pkg/errors"
	"github.com/tokenized/bitcoin_reader/headers"
	"github.com/tokenized/pkg/bitcoin"
	"github.com/tokenized/pkg/merkle_proof"
	"github.com/tokenized/pkg/storage"
	"github.com/tokenized/pkg/wire"

	"verifharness/coqfmt"
)

type PlanHdr struct {
	P    int    `json:"p"` // parent index in the plan (0 = genesis)
	Bits uint32 `json:"bits"`
	T    uint32 `json:"t"`
	W    int    `json:"w,omitempty"` // width of the block behind this header (0: arbitrary merkle root)
}

type Op struct {
	K string `json:"k"` // submit mark unmark clean save load observe sub proof locator
	I int    `json:"i,omitempty"`
	D int    `json:"d,omitempty"`
	// proof: header I, transaction J, with the header or the block hash only, corruption
	J          int    `json:"j,omitempty"`
	WithHeader bool   `json:"with_header,omitempty"`
	Corrupt    string `json:"corrupt,omitempty"`
	// proof with a header: 0 = header only; 1 = also the hash of that header; 2 = also the hash of the
	// block the proof was built for (a known block: disagrees with the header when that was replaced)
	Both int `json:"both,omitempty"`
}

type Case struct {
	ID       int       `json:"id"`
	Mask     int       `json:"mask"`
	MaxDepth int       `json:"maxdepth"`
	Hdrs     []PlanHdr `json:"hdrs"` // index 0 is unused (genesis)
	Ops      []Op      `json:"ops"`
	Twin     int       `json:"twin"`    // id of the control case (-1: none)
	// plan indices of headers whose hashes are in Config.InvalidHeaderHashes; the model sees a
	// mark of each (of a hash not yet known) as the first operations of the history
	CfgInvalid []int `json:"cfg_invalid,omitempty"`
	Control  bool      `json:"control"` // this case is a control (its failure is not reported)
	Note     string    `json:"note,omitempty"`
	// C12: crash points of operations that follow a reorg reaching below the load horizon of the
	// tip persisted by the last completed Clean or Save are judged in a case of their own (known finding D27)
	CrashPart string `json:"crash_part,omitempty"` // "" = all other crash points, "deep" = only those
	Trigger   string `json:"trigger,omitempty"`
	deepCoq   string
	Crash  bool `json:"crash,omitempty"`   // C12: enumerate the crash points of every Clean / Save
	CrashD int  `json:"crash_d,omitempty"` // prune depth of the Load after a crash
	// locator on the real fixture chain (heights 556000..): tip index T, requested maximum
	Fix    bool `json:"fix,omitempty"`
	FixT   int  `json:"fix_t,omitempty"`
	FixMax int  `json:"fix_max,omitempty"`
}

var fixture []*wire.BlockHeader

// fixLocator brings a repository to height 556000+T on the real chain and asks for a locator.
func fixLocator(c *Case) string {
	ctx := coqfmt.QuietContext()
	if fixture == nil {
		b, err := os.ReadFile("/repo/headers/test_fixtures/headers_556000.txt")
		if err == nil {
			err = json.Unmarshal(b, &fixture)
		}
		if err != nil {
			panic(err)
		}
	}
	repo := headers.NewRepository(headers.DefaultConfig(), storage.NewMockStorage())
	repo.DisableDifficulty()
	work, _ := new(big.Int).SetString("d167cf38dd7a9c078a40d5", 16)
	repo.MockLatest(ctx, fixture[0], 556000, work)
	for i := 1; i <= c.FixT && i < len(fixture); i++ {
		if err := repo.ProcessHeader(ctx, fixture[i]); err != nil {
			panic(err)
		}
	}
	l, err := repo.GetLocatorHashes(ctx, c.FixMax)
	items := []string{}
	if err != nil {
		items = append(items, "0")
	}
	for _, h := range l {
		items = append(items, "0x"+h.Value().Text(16))
	}
	return fmt.Sprintf("(mkLCase %s %d%%nat %s)", coqfmt.Z(int64(556000+c.FixT)), c.FixMax, coqfmt.List(items))
}

var verdictNames = []string{"VOk", "VUnknown", "VInvalid", "VTooDeep", "VWrongChain", "VBadWork", "VBadBits", "VOther"}

func classify(err error) string {
	if err == nil {
		return "VOk"
	}
	switch errors.Cause(err) {
	case headers.ErrUnknownHeader:
		return "VUnknown"
	case headers.ErrHeaderMarkedInvalid:
		return "VInvalid"
	case headers.ErrBeyondMaxBranchDepth:
		return "VTooDeep"
	case headers.ErrWrongChain:
		return "VWrongChain"
	case headers.ErrNotEnoughWork:
		return "VBadWork"
	case headers.ErrInvalidTarget:
		return "VBadBits"
	}
	return "VOther"
}

// recStore records the Write / Remove calls a Clean or Save issues (C12).
type wr struct {
	key    string
	data   []byte
	remove bool
}

type recStore struct {
	*storage.MockStorage
	rec bool
	log []wr
}

func (s *recStore) Write(ctx context.Context, key string, body []byte, o *storage.Options) error {
	if s.rec {
		s.log = append(s.log, wr{key: key, data: append([]byte{}, body...)})
	}
	return s.MockStorage.Write(ctx, key, body, o)
}

func (s *recStore) Remove(ctx context.Context, key string) error {
	if s.rec {
		s.log = append(s.log, wr{key: key, remove: true})
	}
	return s.MockStorage.Remove(ctx, key)
}

type crashObs struct {
	ok    bool
	chain []int
	work  string
	note  string
}

// crashExec runs a Clean or Save while recording its storage writes, then loads a fresh
// repository from the image after every prefix of those writes.
func (r *runner) crashExec(op Op, depth int) (obs, []crashObs) {
	snap := map[string][]byte{}
	r.store.Data.Range(func(k, v interface{}) bool {
		snap[k.(string)] = append([]byte{}, v.([]byte)...)
		return true
	})
	r.rs.log, r.rs.rec = nil, true
	o := r.exec(op)
	r.rs.rec = false
	log := r.rs.log
	var res []crashObs
	for j := 0; j <= len(log); j++ {
		img := storage.NewMockStorage()
		for k, v := range snap {
			img.Write(r.ctx, k, v, nil)
		}
		for _, w := range log[:j] {
			if w.remove {
				img.Remove(r.ctx, w.key)
			} else {
				img.Write(r.ctx, w.key, w.data, nil)
			}
		}
		co := crashObs{}
		func() {
			defer func() {
				if rec := recover(); rec != nil {
					co = crashObs{note: fmt.Sprint("panic: ", rec)}
				}
			}()
			repo := headers.NewRepository(r.cfg, img)
			repo.DisableDifficulty()
			if err := repo.VerifLoad(r.ctx, depth); err != nil {
				co.note = "error: " + err.Error()
				return
			}
			hgt := repo.Height()
			bulk := 0 // long chains: the range query for the old part, per-height queries for the top 80
			if hgt > 200 {
				bulk = hgt - 80
				hs, err := repo.GetHeaders(r.ctx, 0, bulk)
				if err != nil || len(hs) != bulk {
					co.chain = append(co.chain, 999996)
				}
				for _, x := range hs {
					co.chain = append(co.chain, r.id(*x.BlockHash()))
				}
			}
			for h := bulk; h <= hgt; h++ {
				hash, err := repo.Hash(r.ctx, h)
				if err != nil || hash == nil {
					co.chain = append(co.chain, 999998)
					continue
				}
				co.chain = append(co.chain, r.id(*hash))
			}
			if len(co.chain) > 0 && co.chain[len(co.chain)-1] != r.id(repo.LastHash()) {
				co.chain = append(co.chain, 999997) // Hash(Height) is not the tip
			}
			co.work = repo.AccumulatedWork().String()
			co.ok = true
		}()
		if !co.ok && os.Getenv("VERIF_DEBUG") != "" {
			fmt.Fprintf(os.Stderr, "crash point %d/%d of %s: %s\n", j, len(log), op.K, co.note)
		}
		if co.work == "" {
			co.work = "0"
		}
		res = append(res, co)
	}
	return o, res
}

type runner struct {
	rs      *recStore
	crashD  int
	qsel    func(i int) bool // which plan headers an observation looks up (nil: all)
	ctx     context.Context
	cfg     *headers.Config
	store   *storage.MockStorage
	repo    *headers.Repository
	subs    []<-chan *wire.BlockHeader
	hdrs    []*wire.BlockHeader // by plan index; 0 = genesis
	ids     map[bitcoin.Hash32]int
	unknown bitcoin.Hash32
	saved   bool
}

func (r *runner) id(h bitcoin.Hash32) int {
	if v, ok := r.ids[h]; ok {
		return v
	}
	return 999999 // a hash the plan never created
}

func newRunner(c *Case) *runner {
	r := &runner{ctx: coqfmt.QuietContext(), ids: map[bitcoin.Hash32]int{}}
	r.cfg = &headers.Config{Network: bitcoin.MainNet, MaxBranchDepth: c.MaxDepth}
	r.store = storage.NewMockStorage()
	r.rs = &recStore{MockStorage: r.store}
	r.repo = headers.NewRepository(r.cfg, r.rs)
	r.repo.DisableDifficulty()
	r.repo.InitializeWithGenesis()
	g, err := r.repo.Header(r.ctx, 0)
	if err != nil {
		panic(err)
	}
	r.hdrs = make([]*wire.BlockHeader, len(c.Hdrs))
	r.hdrs[0] = g
	r.ids[*g.BlockHash()] = 1
	for i := 1; i < len(c.Hdrs); i++ {
		ph := c.Hdrs[i]
		h := &wire.BlockHeader{Version: 1, PrevBlock: *r.hdrs[ph.P].BlockHash(), Timestamp: ph.T, Bits: ph.Bits, Nonce: uint32(i)}
		binary.LittleEndian.PutUint32(h.MerkleRoot[0:], uint32(c.ID))
		binary.LittleEndian.PutUint32(h.MerkleRoot[4:], uint32(i))
		if ph.W > 0 {
			tree := merkle_proof.NewMerkleTree(false)
			for _, tx := range blockTxs(c.ID, i, ph.W) {
				tree.AddHash(*tx.TxHash())
			}
			h.MerkleRoot = tree.RootHash()
		}
		r.hdrs[i] = h
		r.ids[*h.BlockHash()] = i + 1
	}
	for i := range r.unknown {
		r.unknown[i] = 0xee
	}
	if len(c.CfgInvalid) > 0 {
		cfg := &headers.Config{Network: bitcoin.MainNet, MaxBranchDepth: c.MaxDepth}
		for _, i := range c.CfgInvalid {
			cfg.InvalidHeaderHashes = append(cfg.InvalidHeaderHashes, *r.hdrs[i].BlockHash())
		}
		r.cfg = cfg
		r.store = storage.NewMockStorage()
		r.rs = &recStore{MockStorage: r.store}
		r.repo = headers.NewRepository(r.cfg, r.rs)
		r.repo.DisableDifficulty()
		r.repo.InitializeWithGenesis()
	}
	r.subs = []<-chan *wire.BlockHeader{r.repo.GetNewHeadersAvailableChannel()}
	return r
}

// drain returns what the first subscriber received; later subscribers must have received the same
// items since they registered (0 is appended when they did not).
func (r *runner) drain() []int {
	var first []int
	for k, ch := range r.subs {
		var got []int
		for {
			select {
			case h := <-ch:
				if h != nil {
					got = append(got, r.id(*h.BlockHash()))
				}
				continue
			default:
			}
			break
		}
		if k == 0 {
			first = got
		} else if fmt.Sprint(got) != fmt.Sprint(first) {
			first = append(first, 0)
		}
	}
	return first
}

func (r *runner) tipID() int { return r.id(r.repo.LastHash()) }

func blockTxs(caseID, hdr, w int) []*wire.MsgTx {
	txs := make([]*wire.MsgTx, w)
	for j := range txs {
		tx := wire.NewMsgTx(1)
		tx.LockTime = uint32(caseID*1000000 + hdr*1000 + j)
		txs[j] = tx
	}
	return txs
}

// proofOp builds the merkle proof of transaction J of header I's block with the real merkle tree,
// applies the requested corruption, and asks the repository to verify it.
func (r *runner) proofOp(c *Case, op Op) (obs, int, bool) {
	w := c.Hdrs[op.I].W
	txs := blockTxs(c.ID, op.I, w)
	j := op.J % w
	tree := merkle_proof.NewMerkleTree(true)
	tree.AddMerkleProof(*txs[j].TxHash())
	for _, tx := range txs {
		tree.AddHash(*tx.TxHash())
	}
	_, proofs := tree.FinalizeMerkleProofs()
	p := proofs[0].Copy()
	x := op.I + 1 // model id of the header the proof points at
	pathOK := true
	hdr := r.hdrs[op.I]
	depth := len(p.Path) + len(p.DuplicatedIndexes)
	switch op.Corrupt {
	case "txid":
		t := *p.TxID
		t[5] ^= 0x40
		p.TxID = &t
		pathOK = false
	case "path":
		if len(p.Path) > 0 {
			p.Path[(op.J/3)%len(p.Path)][7] ^= 1
			pathOK = false
		}
	case "index_in":
		if depth > 0 {
			p.Index ^= 1 << uint((op.J/2)%depth)
			pathOK = false
		}
	case "index_out":
		p.Index += 1 << uint(depth)
		pathOK = false
	case "header": // another header of the plan: its merkle root is a different one
		o := 1 + (op.I+op.J)%(len(c.Hdrs)-1)
		if o != op.I {
			hdr = r.hdrs[o]
			x = o + 1
			pathOK = false
		}
	case "unknown":
		h2 := *hdr
		h2.Nonce ^= 0x55555555
		hdr = &h2
		x = 999999
	}
	if op.WithHeader {
		p.BlockHeader = hdr
		p.BlockHash = nil
		switch op.Both { // the supplied header decides; a hash beside it must not
		case 1:
			p.BlockHash = hdr.BlockHash()
		case 2:
			p.BlockHash = r.hdrs[op.I].BlockHash()
		}
	} else {
		p.BlockHeader = nil
		p.BlockHash = hdr.BlockHash()
	}
	height, flag, err := r.repo.VerifyMerkleProof(r.ctx, &p)
	o := obs{kind: "verify", ok: err == nil, tipH: height}
	if err != nil {
		o.tipH = -1
		flag = false
	}
	o.pick = 0
	if flag {
		o.pick = 1
	}
	return o, x, pathOK
}

type lookup struct {
	hash, height, ckHeight   int
	ckFlag, ckOK             bool
	prev, prevHeight         int
	getOK                    bool
}

type obs struct {
	kind    string // submit unit load panic snap
	verdict string
	ann     []int
	ok      bool
	tipH    int
	tip     int
	work    string
	chain   []int
	lks     []lookup
	pick    int
}

func (r *runner) snapshot() obs {
	o := obs{kind: "snap"}
	o.tipH = r.repo.Height()
	o.tip = r.tipID()
	o.work = r.repo.AccumulatedWork().String()
	for h := 0; h <= o.tipH; h++ {
		hash, err1 := r.repo.Hash(r.ctx, h)
		hdr, err2 := r.repo.Header(r.ctx, h)
		v := 0
		if err1 == nil && err2 == nil && hdr.BlockHash().Equal(hash) {
			v = r.id(*hash)
		}
		o.chain = append(o.chain, v)
	}
	// range query must agree with the per-height answers
	if hs, err := r.repo.GetHeaders(r.ctx, 0, o.tipH+1); err != nil || len(hs) != o.tipH+1 {
		o.chain = append(o.chain, 0)
	} else {
		for h, x := range hs {
			if r.id(*x.BlockHash()) != o.chain[h] {
				o.chain = append(o.chain, 0)
				break
			}
		}
	}
	if _, err := r.repo.Hash(r.ctx, o.tipH+1); err == nil {
		o.chain = append(o.chain, 0)
	}
	qs := make([]bitcoin.Hash32, 0, len(r.hdrs)+1)
	for i, h := range r.hdrs {
		if r.qsel != nil && !r.qsel(i) {
			continue
		}
		qs = append(qs, *h.BlockHash())
	}
	qs = append(qs, r.unknown)
	for _, q := range qs {
		l := lookup{hash: r.id(q)}
		l.height = r.repo.HashHeight(q)
		h, flag, err := r.repo.CheckHeader(r.ctx, q)
		l.ckHeight, l.ckFlag, l.ckOK = h, flag, err == nil
		if err != nil {
			l.ckHeight, l.ckFlag = -1, false
		}
		ph, phh := r.repo.PreviousHash(q)
		if ph != nil {
			l.prev, l.prevHeight = r.id(*ph), phh
		} else {
			l.prev, l.prevHeight = 0, -1
		}
		gh, gheight, gflag, gerr := r.repo.GetHeader(r.ctx, q)
		// a returned header must hash to the request and agree with CheckHeader
		l.getOK = gerr == nil && gh != nil && gh.BlockHash().Equal(&q) && gheight == l.ckHeight && gflag == l.ckFlag
		if gerr == nil && !l.getOK {
			l.prev = 999998 // inconsistent GetHeader answer: force a mismatch
		}
		o.lks = append(o.lks, l)
	}
	return o
}

func (r *runner) exec(op Op) (o obs) {
	defer func() {
		if rec := recover(); rec != nil {
			if os.Getenv("VERIF_DEBUG") != "" {
				fmt.Fprintln(os.Stderr, "panic:", rec)
			}
			o = obs{kind: "panic"}
		}
	}()
	switch op.K {
	case "submit":
		err := r.repo.ProcessHeader(r.ctx, r.hdrs[op.I])
		return obs{kind: "submit", verdict: classify(err), ann: r.drain(), pick: r.tipID()}
	case "mark":
		// A header at (or below) the memory horizon cannot be marked: everything held in memory
		// is built on it (DESIGN.md, observation D23). Such a mark is skipped.
		hh := *r.hdrs[op.I].BlockHash()
		if r.repo.HashHeight(hh) != -1 {
			if p, _ := r.repo.PreviousHash(hh); p == nil {
				return obs{kind: "skip"}
			}
		}
		r.repo.MarkHeaderInvalid(r.ctx, *r.hdrs[op.I].BlockHash())
		r.drain()
		return obs{kind: "unit", pick: r.tipID()}
	case "unmark":
		r.repo.MarkHeaderNotInvalid(r.ctx, *r.hdrs[op.I].BlockHash())
		return obs{kind: "unit"}
	case "cfgmark": // the hash is in the configuration: nothing to call
		return obs{kind: "unit", pick: r.tipID()}
	case "clean":
		if err := r.repo.VerifClean(r.ctx, op.D); err != nil {
			if os.Getenv("VERIF_DEBUG") != "" {
				fmt.Fprintln(os.Stderr, "clean error:", err)
			}
			return obs{kind: "panic"} // Clean must not fail
		}
		return obs{kind: "unit"}
	case "save":
		r.saved = true
		if err := r.repo.Save(r.ctx); err != nil {
			if os.Getenv("VERIF_DEBUG") != "" {
				fmt.Fprintln(os.Stderr, "save error:", err)
			}
			return obs{kind: "panic"}
		}
		return obs{kind: "unit"}
	case "load":
		if !r.saved { // nothing was saved: not a history of the model (migration / genesis init)
			return obs{kind: "skip"}
		}
		repo := headers.NewRepository(r.cfg, r.rs)
		repo.DisableDifficulty()
		err := repo.VerifLoad(r.ctx, op.D)
		if err == nil {
			r.repo = repo
			r.subs = []<-chan *wire.BlockHeader{r.repo.GetNewHeadersAvailableChannel()}
		}
		return obs{kind: "load", ok: err == nil, pick: r.tipID()}
	case "sub":
		r.subs = append(r.subs, r.repo.GetNewHeadersAvailableChannel())
		return obs{kind: "unit"}
	case "observe":
		return r.snapshot()
	case "locator":
		l, err := r.repo.GetLocatorHashes(r.ctx, op.D)
		o := obs{kind: "locator"}
		if err != nil {
			return obs{kind: "panic"}
		}
		for _, h := range l {
			o.chain = append(o.chain, r.id(h))
		}
		return o
	}
	return obs{kind: "unit"}
}

// ---- Coq printing -----------------------------------------------------------------------

func ints(l []int) string {
	s := make([]string, len(l))
	for i, x := range l {
		s[i] = fmt.Sprint(x)
	}
	return coqfmt.List(s)
}

func (r *runner) coqHdr(c *Case, i int) string {
	if i == 0 {
		return fmt.Sprintf("mkHdr 1 0 %d %d", r.hdrs[0].Bits, r.hdrs[0].Timestamp)
	}
	return fmt.Sprintf("mkHdr %d %d %d %d", i+1, c.Hdrs[i].P+1, c.Hdrs[i].Bits, c.Hdrs[i].T)
}

func coqCase(c *Case) (string, map[string]int) {
	r := newRunner(c)
	st := map[string]int{}
	ops := make([]string, 0, len(c.Ops))
	outs := make([]string, 0, len(c.Ops))
	var crashes, deepCrashes, excls []string
	var fileChain, indexChain []int // best chain last written to the main files / under the last index
	bestChain := func() []int {
		var l []int
		bulk := 0
		if r.repo.Height() > 200 {
			bulk = r.repo.Height() - 80
			if hs, err := r.repo.GetHeaders(r.ctx, 0, bulk); err == nil {
				for _, x := range hs {
					l = append(l, r.id(*x.BlockHash()))
				}
			}
			for len(l) < bulk {
				l = append(l, 0)
			}
		}
		for h := bulk; h <= r.repo.Height(); h++ {
			if x, err := r.repo.Hash(r.ctx, h); err == nil && x != nil {
				l = append(l, r.id(*x))
			} else {
				l = append(l, 0)
			}
		}
		return l
	}
	nq := len(c.Hdrs) + 1
	if len(c.Hdrs) > 300 {
		// long histories: look up the first headers, a sample, and everything from shortly below
		// the 1000-header file boundary upwards
		r.qsel = func(i int) bool { return i < 3 || i%97 == 0 || i >= 985 }
	}
	qs := make([]int, 0, nq)
	for i := range c.Hdrs {
		if r.qsel != nil && !r.qsel(i) {
			continue
		}
		qs = append(qs, i+1)
	}
	qs = append(qs, 999999)
	for _, op := range c.Ops {
		var o obs
		if op.K == "proof" {
			if c.Hdrs[op.I].W == 0 {
				continue
			}
			var x int
			var pathOK bool
			func() {
				defer func() {
					if rec := recover(); rec != nil {
						o = obs{kind: "panic"}
					}
				}()
				o, x, pathOK = r.proofOp(c, op)
			}()
			st["op_proof"]++
			st["proof_"+op.Corrupt]++
			ops = append(ops, fmt.Sprintf("OVerify %d %s %s", x, coqfmt.Bool(op.WithHeader), coqfmt.Bool(pathOK)))
			if o.kind == "panic" {
				outs = append(outs, "RPanic")
			} else {
				if o.ok {
					st["proof_verified"]++
				}
				outs = append(outs, fmt.Sprintf("RVerify %s %s %s", coqfmt.Bool(o.ok), coqfmt.Z(int64(o.tipH)), coqfmt.Bool(o.pick == 1)))
			}
			continue
		}
		if c.Crash && (op.K == "clean" || op.K == "save") {
			d := op.D
			if op.K == "save" || d == 0 {
				d = c.CrashD
			}
			newChain := bestChain()
			// x leaves the chain ref (what a Load would find under the index and the branch files:
			// the chain at the last completed Save, or - the branch files being rewritten by every
			// Clean as well - at the last completed Clean or Save) below that chain's load horizon
			deepAgainst := func(x, ref []int) bool {
				if ref == nil || x == nil {
					return false
				}
				f := 0
				for f < len(x) && f < len(ref) && x[f] == ref[f] {
					f++
				}
				return f < len(ref)-1-d
			}
			flagged := false
			oldFile, oldIndex := fileChain, indexChain
			switch {
			case deepAgainst(fileChain, indexChain) || deepAgainst(newChain, indexChain):
				flagged = true
			case deepAgainst(newChain, fileChain):
				flagged = true
				oldIndex = fileChain // the reference that justifies the exclusion
			}
			var cos []crashObs
			o, cos = r.crashExec(op, d)
			if o.kind != "panic" {
				fileChain = newChain
				if op.K == "save" {
					indexChain = newChain
				}
			}
			items := make([]string, len(cos))
			for i, co := range cos {
				items[i] = fmt.Sprintf("mkCObs %s %s %s", coqfmt.Bool(co.ok), ints(co.chain), co.work)
				st["crash_points"]++
				if !co.ok {
					st["crash_load_failed"]++
				}
			}
			if flagged {
				excls = append(excls, fmt.Sprintf("(%d%%nat, (%s, %s, %s, %s))", len(ops), ints(oldFile), ints(oldIndex), ints(newChain), coqfmt.Z(int64(d))))
				deepCrashes = append(deepCrashes, fmt.Sprintf("(%d%%nat, %s)", len(ops), coqfmt.List(items)))
				st["crash_ops_after_deep_reorg"]++
			} else {
				crashes = append(crashes, fmt.Sprintf("(%d%%nat, %s)", len(ops), coqfmt.List(items)))
			}
			st["crash_ops_"+op.K]++
		} else {
			o = r.exec(op)
		}
		if o.kind == "skip" {
			st["skipped_"+op.K]++
			continue
		}
		st["op_"+op.K]++
		switch op.K {
		case "submit":
			ops = append(ops, fmt.Sprintf("OSubmit (%s) %d", r.coqHdr(c, op.I), o.pick))
		case "mark":
			ops = append(ops, fmt.Sprintf("OMark %d %d", op.I+1, o.pick))
		case "unmark":
			ops = append(ops, fmt.Sprintf("OUnmark %d", op.I+1))
		case "cfgmark":
			ops = append(ops, fmt.Sprintf("OMark %d %d", op.I+1, o.pick))
		case "clean":
			ops = append(ops, "OClean "+coqfmt.Z(int64(op.D)))
		case "save":
			ops = append(ops, "OSave")
		case "load":
			ops = append(ops, fmt.Sprintf("OLoad %s %d", coqfmt.Z(int64(op.D)), o.pick))
		case "sub":
			continue
		case "observe":
			ops = append(ops, "OObserve "+ints(qs))
		case "locator":
			ops = append(ops, fmt.Sprintf("OLocator %d", op.D))
		}
		switch o.kind {
		case "submit":
			st["verdict_"+o.verdict]++
			if len(o.ann) > 1 {
				st["reorg_announcements"]++
			}
			outs = append(outs, fmt.Sprintf("RSubmit %s %s", o.verdict, ints(o.ann)))
		case "unit":
			outs = append(outs, "RUnit")
		case "load":
			outs = append(outs, "RLoad "+coqfmt.Bool(o.ok))
		case "locator":
			outs = append(outs, "RLocator "+ints(o.chain))
		case "panic":
			st["impl_panic_or_error"]++
			outs = append(outs, "RPanic")
		case "snap":
			lks := make([]string, len(o.lks))
			for i, l := range o.lks {
				lks[i] = fmt.Sprintf("mkLookup %d %s %s %s %s %d %s %s", l.hash, coqfmt.Z(int64(l.height)),
					coqfmt.Z(int64(l.ckHeight)), coqfmt.Bool(l.ckFlag), coqfmt.Bool(l.ckOK), l.prev,
					coqfmt.Z(int64(l.prevHeight)), coqfmt.Bool(l.getOK))
			}
			outs = append(outs, fmt.Sprintf("RSnap %s %d %s %s\n    %s", coqfmt.Z(int64(o.tipH)), o.tip, o.work,
				ints(o.chain), coqfmt.List(lks)))
		}
	}
	if c.Crash {
		mk := func(obs, ex []string) string {
			return fmt.Sprintf("(mkCCase (mkCfg %s 10000%%Z 10000%%Z 1) (%s)\n  %s\n  %s\n  %s)", coqfmt.Z(int64(c.MaxDepth)),
				r.coqHdr(c, 0), coqfmt.List(ops), coqfmt.List(obs), coqfmt.List(ex))
		}
		c.deepCoq = ""
		if len(deepCrashes) > 0 {
			c.deepCoq = mk(deepCrashes, nil)
		}
		if c.CrashPart == "deep" {
			return mk(deepCrashes, nil), st
		}
		return mk(crashes, excls), st // the exclusions have to be justified in the kernel
	}
	s := fmt.Sprintf("mkCase %d (mkCfg %s 10000%%Z 10000%%Z 1) (%s)\n  %s\n  %s", c.Mask, coqfmt.Z(int64(c.MaxDepth)),
		r.coqHdr(c, 0), coqfmt.List(ops), coqfmt.List(outs))
	return "(" + s + ")", st
}

// ---- generation -------------------------------------------------------------------------

var bitsPool = []uint32{0x1d00ffff, 0x1d00ffff, 0x1d00ffff, 0x1c7fffff, 0x1d01fffe, 0x1c0fffff}

type profile struct {
	mask                                  int
	clean, save, load, mark, extraSubs    int // weights (per 100 ops)
	proofs, locators                      int
	dupes, orphans                        int
	twinDrop                              string // op kinds removed in the control twin ("" = none)
}

var profiles = map[string]profile{
	// tip/chain is the most-work chain, with maintenance interleaved
	"C01": {mask: 4, clean: 5, save: 2, load: 3, mark: 3, dupes: 4, orphans: 6},
	// stream
	"C07": {mask: 2 | 32, extraSubs: 3, dupes: 5, orphans: 3, save: 1, load: 3},
	// verdicts + refusal no-op
	"C08": {mask: 1 | 64, dupes: 10, orphans: 10, clean: 2, mark: 3},
	// lookups
	"C09": {mask: 8, clean: 6, save: 2, load: 3, mark: 2, dupes: 2, orphans: 3},
	// clean changes nothing (attributed through a clean-free control)
	"C10": {mask: 1 | 4 | 8, clean: 12, dupes: 2, orphans: 2, twinDrop: "clean"},
	// save+load restores (attributed through a control without save/load)
	"C11": {mask: 1 | 4 | 8 | 16, clean: 4, save: 3, load: 8, mark: 3, dupes: 2, orphans: 2, twinDrop: "save,load"},
	// invalid marking
	"C17": {mask: 1 | 4 | 8, mark: 8, clean: 3, save: 1, load: 2, dupes: 3, orphans: 2},
	// crash points of Clean / Save (no loads inside the history: every crash point loads a fresh repository)
	// (no invalid marking either: a mark is not persisted until the next Clean / Save, so a crash
	// legitimately brings invalidated headers back; that is C17's persistence clause, not C12)
	"C12": {mask: 0, clean: 7, save: 6, dupes: 1, orphans: 2},
	// merkle proofs against headers on the best chain, on side branches, pruned and reloaded
	"C18": {mask: 128, proofs: 60, clean: 6, save: 2, load: 4, orphans: 3},
	// locators after every operation
	"C19": {mask: 256, locators: 100, clean: 6, save: 2, load: 4, orphans: 3, dupes: 2},
}

// genOvertake builds the "fork overtakes after maintenance" scenario: a main chain, several forks at
// different depths created in random order, more main chain, a maintenance op with a small
// depth, then one of the forks is extended (heavier bits) until it overtakes; observe throughout.
// genMarkedMain builds "the main chain above a fork point is invalidated": a main chain, a short
// fork a few headers below the tip, the main header right above the fork point is marked invalid
// (so the fork becomes the best chain and nothing pins the memory horizon), the fork grows beyond
// the prune depth, maintenance with a small depth, observe throughout.
func genMarkedMain(r *coqfmt.Rand, id int, pf profile) Case {
	c := Case{ID: id, Mask: pf.mask, Twin: -1, Note: "main-invalidated-above-fork"}
	c.MaxDepth = []int{5, 144, 144}[r.Intn(3)]
	t0 := uint32(1231006505)
	c.Hdrs = make([]PlanHdr, 1)
	height := []int{0}
	add := func(p int, bits uint32) int {
		c.Hdrs = append(c.Hdrs, PlanHdr{P: p, Bits: bits, T: t0 + uint32(600*(height[p]+1)) + uint32(r.Intn(500))})
		height = append(height, height[p]+1)
		return len(c.Hdrs) - 1
	}
	obs := func(op Op) { c.Ops = append(c.Ops, op, Op{K: "observe"}) }
	c.Ops = append(c.Ops, Op{K: "observe"})
	main := []int{0}
	for i := 3 + r.Intn(5); i > 0; i-- {
		main = append(main, add(main[len(main)-1], 0x1d00ffff))
		obs(Op{K: "submit", I: main[len(main)-1]})
	}
	at := len(main) - 1 - (1 + r.Intn(3)) // fork point on main
	if at < 1 {
		at = 1
	}
	tip := add(main[at], 0x1d00ffff)
	obs(Op{K: "submit", I: tip})
	for k := r.Intn(2); k > 0; k-- {
		tip = add(tip, 0x1d00ffff)
		obs(Op{K: "submit", I: tip})
	}
	obs(Op{K: "mark", I: main[at+1]})
	d := []int{1, 2, 3, 5}[r.Intn(4)]
	for i := d + 2 + r.Intn(4); i > 0; i-- {
		tip = add(tip, 0x1d00ffff)
		obs(Op{K: "submit", I: tip})
	}
	switch {
	case pf.clean > 0:
		obs(Op{K: "clean", D: d})
	case pf.save > 0 && pf.load > 0:
		c.Ops = append(c.Ops, Op{K: "save"})
		obs(Op{K: "load", D: d + c.MaxDepth})
	}
	for i := r.Intn(3); i > 0; i-- {
		tip = add(tip, 0x1d00ffff)
		obs(Op{K: "submit", I: tip})
	}
	if pf.clean > 0 && r.Chance(1, 2) {
		obs(Op{K: "clean", D: d})
	}
	return c
}

// genMarkCycle builds "marked, un-marked, persisted, reloaded, offered again": a chain with a
// fork, one header is marked invalid and (usually) un-marked again, the state is persisted by a
// Save or a Clean, a fresh repository loads it, and the header and its descendants are offered
// again.
func genMarkCycle(r *coqfmt.Rand, id int, pf profile) Case {
	c := Case{ID: id, Mask: pf.mask, Twin: -1, Note: "mark-unmark-persist-reload"}
	c.MaxDepth = 144
	t0 := uint32(1231006505)
	c.Hdrs = make([]PlanHdr, 1)
	height := []int{0}
	add := func(p int, bits uint32) int {
		c.Hdrs = append(c.Hdrs, PlanHdr{P: p, Bits: bits, T: t0 + uint32(600*(height[p]+1)) + uint32(r.Intn(500))})
		height = append(height, height[p]+1)
		return len(c.Hdrs) - 1
	}
	obs := func(op Op) { c.Ops = append(c.Ops, op, Op{K: "observe"}) }
	c.Ops = append(c.Ops, Op{K: "observe"})
	main := []int{0}
	for i := 4 + r.Intn(5); i > 0; i-- {
		main = append(main, add(main[len(main)-1], 0x1d00ffff))
		obs(Op{K: "submit", I: main[len(main)-1]})
	}
	side := add(main[1+r.Intn(len(main)-2)], 0x1d00ffff)
	obs(Op{K: "submit", I: side})
	if r.Chance(1, 2) {
		c.Ops = append(c.Ops, Op{K: "save"})
	}
	x := 2 + r.Intn(len(main)-2) // position on main of the header to mark (not the first one)
	obs(Op{K: "mark", I: main[x]})
	if r.Chance(1, 2) {
		obs(Op{K: "clean", D: 10000})
	}
	unmarked := r.Chance(3, 4)
	if unmarked {
		obs(Op{K: "unmark", I: main[x]})
	}
	if r.Chance(1, 2) {
		obs(Op{K: "clean", D: 10000})
	}
	c.Ops = append(c.Ops, Op{K: "save"})
	obs(Op{K: "load", D: 10000})
	for i := x; i < len(main); i++ {
		obs(Op{K: "submit", I: main[i]})
	}
	if r.Chance(1, 2) {
		c.Ops = append(c.Ops, Op{K: "save"})
		obs(Op{K: "load", D: 10000})
		obs(Op{K: "submit", I: main[x]})
	}
	return c
}

// genConfiguredInvalid: a hash listed in Config.InvalidHeaderHashes (the model: marked before
// anything else). Its header and what is built on it are refused, through one or two Save/Load
// generations (Load merges the configured list with the stored one: no duplicates); after the
// last Load the hash is un-marked and the headers are accepted. (Un-marking a configured hash
// BEFORE a Load is not a history of the model: Load puts it back from the configuration.)
func genConfiguredInvalid(r *coqfmt.Rand, id int, pf profile) Case {
	c := Case{ID: id, Mask: pf.mask, Twin: -1, Note: "configured-invalid-hash"}
	c.MaxDepth = 144
	t0 := uint32(1231006505)
	c.Hdrs = make([]PlanHdr, 1)
	height := []int{0}
	add := func(p int, bits uint32) int {
		c.Hdrs = append(c.Hdrs, PlanHdr{P: p, Bits: bits, T: t0 + uint32(600*(height[p]+1)) + uint32(r.Intn(500))})
		height = append(height, height[p]+1)
		return len(c.Hdrs) - 1
	}
	obs := func(op Op) { c.Ops = append(c.Ops, op, Op{K: "observe"}) }
	main := []int{0}
	for i := 4 + r.Intn(5); i > 0; i-- {
		main = append(main, add(main[len(main)-1], 0x1d00ffff))
	}
	x := 2 + r.Intn(len(main)-2)
	c.CfgInvalid = []int{main[x]}
	obs(Op{K: "cfgmark", I: main[x]})
	var other int
	if r.Chance(1, 2) { // a second hash, marked at run time: the stored list has both
		other = add(main[1], 0x1d00ffff)
	}
	for i := 1; i < len(main); i++ {
		obs(Op{K: "submit", I: main[i]})
	}
	if other != 0 {
		obs(Op{K: "mark", I: other})
		obs(Op{K: "submit", I: other})
	}
	for g := 1 + r.Intn(2); g > 0; g-- {
		if r.Chance(1, 3) {
			obs(Op{K: "clean", D: 10000})
		}
		c.Ops = append(c.Ops, Op{K: "save"})
		obs(Op{K: "load", D: 10000})
		obs(Op{K: "submit", I: main[x]})
	}
	obs(Op{K: "unmark", I: main[x]})
	for i := x; i < len(main); i++ {
		obs(Op{K: "submit", I: main[i]})
	}
	if other != 0 && r.Chance(1, 2) {
		obs(Op{K: "unmark", I: other})
		obs(Op{K: "submit", I: other})
	}
	if r.Chance(1, 2) {
		obs(Op{K: "save"})
	}
	return c
}

// genTrimmedParent builds "a branch hanging off the tip of a trimmed branch": a main chain, a side
// branch S1, a branch S2 forking from the interior of S1; the header of S1 right above S2's fork
// point is marked invalid (S1 now ends exactly where S2 starts); the state is persisted and
// reloaded (or cleaned); S2 must still be there - lookups, extension, overtaking.
func genTrimmedParent(r *coqfmt.Rand, id int, pf profile) Case {
	c := Case{ID: id, Mask: pf.mask, Twin: -1, Note: "branch-off-the-tip-of-a-trimmed-branch"}
	c.MaxDepth = 144
	t0 := uint32(1231006505)
	c.Hdrs = make([]PlanHdr, 1)
	height := []int{0}
	add := func(p int, bits uint32) int {
		c.Hdrs = append(c.Hdrs, PlanHdr{P: p, Bits: bits, T: t0 + uint32(600*(height[p]+1)) + uint32(r.Intn(500))})
		height = append(height, height[p]+1)
		return len(c.Hdrs) - 1
	}
	obs := func(op Op) { c.Ops = append(c.Ops, op, Op{K: "observe"}) }
	c.Ops = append(c.Ops, Op{K: "observe"})
	main := []int{0}
	for i := 10 + r.Intn(8); i > 0; i-- {
		main = append(main, add(main[len(main)-1], 0x1d00ffff))
		obs(Op{K: "submit", I: main[len(main)-1]})
	}
	s1 := []int{main[2+r.Intn(4)]}
	for i := 4 + r.Intn(3); i > 0; i-- {
		s1 = append(s1, add(s1[len(s1)-1], 0x1d00ffff))
		obs(Op{K: "submit", I: s1[len(s1)-1]})
	}
	k := 1 + r.Intn(len(s1)-2) // S2 forks from s1[k], an interior header of S1
	s2 := add(s1[k], 0x1d00ffff)
	obs(Op{K: "submit", I: s2})
	for i := r.Intn(3); i > 0; i-- {
		s2 = add(s2, 0x1d00ffff)
		obs(Op{K: "submit", I: s2})
	}
	obs(Op{K: "mark", I: s1[k+1]})
	switch {
	case pf.save > 0 && pf.load > 0:
		c.Ops = append(c.Ops, Op{K: "save"})
		obs(Op{K: "load", D: 10000})
	case pf.clean > 0:
		obs(Op{K: "clean", D: 10000})
	}
	// S2 grows with heavy headers until it overtakes the main chain
	for i := 0; i < 12 && height[s2] <= height[main[len(main)-1]]; i++ {
		s2 = add(s2, 0x1c0fffff)
		obs(Op{K: "submit", I: s2})
	}
	if pf.save > 0 && pf.load > 0 && r.Chance(1, 2) {
		c.Ops = append(c.Ops, Op{K: "save"})
		obs(Op{K: "load", D: 10000})
	}
	return c
}

func genOvertake(r *coqfmt.Rand, id int, pf profile) Case {
	c := Case{ID: id, Mask: pf.mask, Twin: -1, Note: "overtake-after-maintenance"}
	c.MaxDepth = []int{3, 5, 144, 144}[r.Intn(4)]
	t0 := uint32(1231006505)
	c.Hdrs = make([]PlanHdr, 1)
	height := []int{0}
	add := func(p int, bits uint32) int {
		c.Hdrs = append(c.Hdrs, PlanHdr{P: p, Bits: bits, T: t0 + uint32(600*(height[p]+1)) + uint32(r.Intn(500))})
		height = append(height, height[p]+1)
		return len(c.Hdrs) - 1
	}
	obs := func(op Op) { c.Ops = append(c.Ops, op, Op{K: "observe"}) }
	c.Ops = append(c.Ops, Op{K: "observe"})
	main := []int{0}
	m := 4 + r.Intn(8)
	for i := 0; i < m; i++ {
		main = append(main, add(main[len(main)-1], 0x1d00ffff))
		obs(Op{K: "submit", I: main[len(main)-1]})
	}
	// forks off main within MaxBranchDepth of the current tip, in random order
	nf := 1 + r.Intn(3)
	var forkTips []int
	for f := 0; f < nf; f++ {
		lo := len(main) - 1 - c.MaxDepth
		if lo < 0 {
			lo = 0
		}
		at := lo + r.Intn(len(main)-lo)
		base := main[at]
		if f > 0 && r.Chance(1, 3) { // a fork of a fork
			base = forkTips[r.Intn(len(forkTips))]
		}
		tip := add(base, 0x1d00ffff)
		obs(Op{K: "submit", I: tip})
		for k := r.Intn(3); k > 0; k-- {
			tip = add(tip, 0x1d00ffff)
			obs(Op{K: "submit", I: tip})
		}
		forkTips = append(forkTips, tip)
	}
	// main grows
	for i := 2 + r.Intn(10); i > 0; i-- {
		main = append(main, add(main[len(main)-1], 0x1d00ffff))
		obs(Op{K: "submit", I: main[len(main)-1]})
	}
	maint := func() {
		d := []int{1, 2, 3, 5, 8}[r.Intn(5)]
		switch {
		case pf.load > 0 && r.Chance(1, 2):
			c.Ops = append(c.Ops, Op{K: "save"})
			obs(Op{K: "load", D: d + c.MaxDepth})
		case pf.clean > 0:
			obs(Op{K: "clean", D: d})
		case pf.save > 0:
			obs(Op{K: "save"})
		}
	}
	maint()
	// one fork overtakes with heavy headers
	tip := forkTips[r.Intn(len(forkTips))]
	for i := 0; i < 40 && height[tip] <= height[main[len(main)-1]]+1; i++ {
		tip = add(tip, 0x1c0fffff)
		obs(Op{K: "submit", I: tip})
		if r.Chance(1, 8) {
			maint()
		}
	}
	maint()
	// and main (now a side chain) grows a little more
	for i := r.Intn(3); i > 0; i-- {
		main = append(main, add(main[len(main)-1], 0x1d00ffff))
		obs(Op{K: "submit", I: main[len(main)-1]})
	}
	return c
}

func genCase(r *coqfmt.Rand, id int, pf profile, size int) Case {
	if pf.clean+pf.save+pf.load > 0 && r.Chance(1, 4) {
		return genOvertake(r, id, pf)
	}
	if pf.mark > 0 && pf.clean+pf.load > 0 && r.Chance(1, 8) {
		return genMarkedMain(r, id, pf)
	}
	if pf.mark > 0 && pf.save > 0 && pf.load > 0 && r.Chance(1, 10) {
		return genMarkCycle(r, id, pf)
	}
	if pf.mark > 0 && (pf.clean > 0 || (pf.save > 0 && pf.load > 0)) && r.Chance(1, 12) {
		return genTrimmedParent(r, id, pf)
	}
	if pf.mark > 0 && pf.save > 0 && pf.load > 0 && r.Chance(1, 12) {
		return genConfiguredInvalid(r, id, pf)
	}
	c := Case{ID: id, Mask: pf.mask, Twin: -1}
	c.MaxDepth = []int{0, 1, 2, 3, 5, 144, 144}[r.Intn(7)]
	n := 4 + r.Intn(size)
	c.Hdrs = make([]PlanHdr, 1, n+1)
	height := []int{0}
	work := []int{1}
	child := []int{0}
	best := 0
	t0 := uint32(1231006505) // mainnet genesis time
	for i := 1; i <= n; i++ {
		var p int
		switch r.Pick(45, 20, 20, 8, 7) {
		case 0:
			p = best
		case 1: // a random leaf
			p = r.Intn(i)
			for tries := 0; tries < 8 && child[p] > 0; tries++ {
				p = r.Intn(i)
			}
		case 2: // fork near the limit below the best tip
			want := height[best] - c.MaxDepth + r.Intn(3) - 1
			if c.MaxDepth > 10 {
				want = height[best] - r.Intn(4)
			}
			p = best
			for p != 0 && height[p] > want {
				p = c.Hdrs[p].P
			}
		case 3:
			p = r.Intn(i)
		default: // sibling of the newest header
			p = c.Hdrs[i-1].P
			if i == 1 {
				p = 0
			}
		}
		bits := bitsPool[r.Intn(len(bitsPool))]
		w := 0
		if pf.proofs > 0 {
			w = 1 + r.Intn(9)
			if r.Chance(1, 6) {
				w = 10 + r.Intn(40)
			}
		}
		c.Hdrs = append(c.Hdrs, PlanHdr{P: p, Bits: bits, T: t0 + uint32(600*(height[p]+1)) + uint32(r.Intn(900)), W: w})
		height = append(height, height[p]+1)
		wk := map[uint32]int{0x1d00ffff: 16, 0x1c7fffff: 32, 0x1d01fffe: 8, 0x1c0fffff: 256}[bits]
		work = append(work, work[p]+wk)
		child = append(child, 0)
		child[p]++
		if work[i] > work[best] {
			best = i
		}
	}
	_ = work
	// operation order
	var pendingOrphans []int
	marked := []int{}
	submitted := []int{}
	add := func(op Op) { c.Ops = append(c.Ops, op, Op{K: "observe"}) }
	c.Ops = append(c.Ops, Op{K: "observe"})
	for i := 1; i <= n; i++ {
		if r.Intn(100) < pf.orphans {
			pendingOrphans = append(pendingOrphans, i)
		} else {
			add(Op{K: "submit", I: i})
			submitted = append(submitted, i)
		}
		if len(pendingOrphans) > 0 && r.Chance(1, 3) {
			j := pendingOrphans[0]
			pendingOrphans = pendingOrphans[1:]
			add(Op{K: "submit", I: j})
			submitted = append(submitted, j)
		}
		if r.Intn(100) < pf.dupes {
			add(Op{K: "submit", I: 1 + r.Intn(i)})
		}
		if r.Intn(100) < pf.clean {
			d := c.MaxDepth + []int{1, 2, 3, 10}[r.Intn(4)]
			if r.Chance(1, 5) {
				d = 10000
			}
			add(Op{K: "clean", D: d})
		}
		if r.Intn(100) < pf.save {
			add(Op{K: "save"})
		}
		if r.Intn(100) < pf.load {
			d := c.MaxDepth + []int{1, 2, 3, 10}[r.Intn(4)]
			if r.Chance(1, 4) {
				d = 10000
			}
			c.Ops = append(c.Ops, Op{K: "save"})
			add(Op{K: "load", D: d})
		}
		if r.Intn(100) < pf.mark && len(submitted) > 0 {
			x := submitted[r.Intn(len(submitted))]
			if r.Chance(1, 6) {
				x = 1 + r.Intn(n) // possibly not yet seen
			}
			add(Op{K: "mark", I: x})
			marked = append(marked, x)
		}
		if len(marked) > 0 && r.Intn(100) < pf.mark {
			k := r.Intn(len(marked))
			x := marked[k]
			marked = append(marked[:k], marked[k+1:]...)
			add(Op{K: "unmark", I: x})
			if r.Chance(1, 2) {
				add(Op{K: "submit", I: x})
			}
		}
		if r.Intn(100) < pf.extraSubs {
			c.Ops = append(c.Ops, Op{K: "sub"})
		}
		for k := 0; k < 3 && r.Intn(100) < pf.proofs; k++ {
			cor := []string{"", "", "", "txid", "path", "index_in", "index_out", "header", "unknown"}[r.Intn(9)]
			pop := Op{K: "proof", I: 1 + r.Intn(i), J: r.Intn(60), WithHeader: r.Chance(1, 2), Corrupt: cor}
			if pop.WithHeader {
				pop.Both = r.Intn(3)
			}
			c.Ops = append(c.Ops, pop)
		}
		if r.Intn(100) < pf.locators {
			c.Ops = append(c.Ops, Op{K: "locator", D: []int{1, 3, 10, 50}[r.Intn(4)]})
		}
	}
	for _, j := range pendingOrphans {
		add(Op{K: "submit", I: j})
	}
	return c
}

// prependChain puts a straight chain of L headers between genesis and the rest of the plan, so
// that the history works around height L (C12: the 1000-header file boundary).
func prependChain(c Case, L int) Case {
	t := c
	t.Hdrs = make([]PlanHdr, 1, len(c.Hdrs)+L)
	t0 := uint32(1231006505)
	for i := 1; i <= L; i++ {
		t.Hdrs = append(t.Hdrs, PlanHdr{P: i - 1, Bits: 0x1d00ffff, T: t0 + uint32(600*i)})
	}
	for i := 1; i < len(c.Hdrs); i++ {
		h := c.Hdrs[i]
		if h.P == 0 {
			h.P = L
		} else {
			h.P += L
		}
		h.T += uint32(600 * L)
		t.Hdrs = append(t.Hdrs, h)
	}
	t.Ops = make([]Op, 0, len(c.Ops)+L)
	for i := 1; i <= L; i++ {
		t.Ops = append(t.Ops, Op{K: "submit", I: i})
	}
	for _, op := range c.Ops {
		if op.K == "submit" || op.K == "mark" || op.K == "unmark" || op.K == "proof" || op.K == "cfgmark" {
			op.I += L
		}
		t.Ops = append(t.Ops, op)
	}
	t.CfgInvalid = nil
	for _, i := range c.CfgInvalid {
		t.CfgInvalid = append(t.CfgInvalid, i+L)
	}
	t.Note = fmt.Sprintf("base chain of %d headers", L)
	return t
}

func dropOps(c Case, kinds string) Case {
	t := c
	t.Ops = nil
	for _, op := range c.Ops {
		if strings.Contains(","+kinds+",", ","+op.K+",") {
			continue
		}
		t.Ops = append(t.Ops, op)
	}
	return t
}

func main() {
	out := flag.String("out", "", "output directory")
	seed := flag.Uint64("seed", 1, "PRNG seed")
	n := flag.Int("n", 200, "number of generated cases")
	shards := flag.Int("shards", 16, "number of cases files")
	replay := flag.String("replay", "", "JSON file with cases to re-execute instead of generating")
	tier := flag.String("tier", "quick", "quick|thorough")
	prof := flag.String("profile", "C01", "property profile")
	flag.Parse()
	os.MkdirAll(*out, 0o755)
	pf, ok := profiles[*prof]
	if !ok {
		fmt.Fprintln(os.Stderr, "unknown profile")
		os.Exit(2)
	}

	var cases []Case
	if *replay != "" {
		if err := coqfmt.ReadJSON(*replay, &cases); err != nil {
			fmt.Fprintln(os.Stderr, err)
			os.Exit(2)
		}
		// replayed cases that have a control get it regenerated right behind them
		var exp []Case
		for _, c := range cases {
			c.ID = len(exp)
			c.Control = false
			if pf.twinDrop != "" {
				c.Twin = len(exp) + 1
				exp = append(exp, c)
				t := dropOps(c, pf.twinDrop)
				t.ID, t.Twin, t.Control = len(exp), -1, true
				exp = append(exp, t)
			} else {
				c.Twin = -1
				exp = append(exp, c)
			}
		}
		cases = exp
	} else {
		root := coqfmt.NewRand(*seed)
		size := 36
		if *tier == "thorough" {
			size = 90
		}
		for i := 0; i < *n; i++ {
			sz := size
			if i%10 == 0 {
				sz = 8 // plenty of tiny trees
			}
			c := genCase(root.Fork(uint64(i)), len(cases), pf, sz)
			if (*prof == "C09" || *prof == "C11") && i%100 == 13 && i < 1400 {
				// a history across the 1000-header file boundary with the whole first file in
				// pruned history (observations only after loads / cleans and at the end)
				var ops []Op
				for j, op := range c.Ops {
					if op.K == "observe" && j+1 < len(c.Ops) && !(j > 0 && (c.Ops[j-1].K == "load" || c.Ops[j-1].K == "clean")) {
						continue
					}
					if (op.K == "load" || op.K == "clean") && op.D > 6 {
						op.D = 2 + op.D%5
					}
					ops = append(ops, op)
				}
				c.Ops = ops
				c = prependChain(c, 1010+root.Fork(uint64(i)^0xb0b).Intn(15))
			}
			if *prof == "C12" {
				c = dropOps(c, "observe")
				if i%25 == 7 && i < 700 { // work across the boundary between header files 0 and 1
					c = prependChain(c, 985+root.Fork(uint64(i)^0xf11e).Intn(20))
				}
				c.Crash = true
				c.CrashD = []int{2, 5, 10000, 10000}[root.Fork(uint64(i)^0xc12).Intn(4)]
			}
			if pf.twinDrop != "" {
				c.Twin = len(cases) + 1
				cases = append(cases, c)
				t := dropOps(c, pf.twinDrop)
				t.ID, t.Twin, t.Control = len(cases), -1, true
				cases = append(cases, t)
			} else {
				cases = append(cases, c)
			}
		}
	}

	if *replay == "" && *prof == "C19" {
		root := coqfmt.NewRand(*seed ^ 0x5151)
		for i := 0; i < *n/4+8; i++ {
			r := root.Fork(uint64(i))
			t := 1 + r.Intn(1985)
			if r.Chance(2, 3) { // around and above the BCH/BSV split (index 767)
				t = 760 + r.Intn(60)
			}
			cases = append(cases, Case{ID: len(cases), Twin: -1, Fix: true, FixT: t, FixMax: []int{1, 2, 3, 3, 4, 5, 10, 10, 50}[r.Intn(9)]})
		}
	}

	coq := make([]string, len(cases))
	stats := map[string]int{}
	shapes := map[string]bool{}
	nontrivial := map[string]bool{}
	type res struct {
		s  string
		st map[string]int
	}
	results := make([]res, len(cases))
	{
		var wg sync.WaitGroup
		sem := make(chan struct{}, 16)
		for i := range cases {
			if cases[i].Fix {
				continue
			}
			wg.Add(1)
			sem <- struct{}{}
			go func(i int) {
				defer wg.Done()
				defer func() { <-sem }()
				results[i].s, results[i].st = coqCase(&cases[i])
			}(i)
		}
		wg.Wait()
	}
	for i := range cases {
		if cases[i].Fix {
			coq[i] = fixLocator(&cases[i])
			stats["fixture_chain_locator"]++
			stats[fmt.Sprintf("fixture_locator_max_%d", cases[i].FixMax)]++
			continue
		}
		s, st := results[i].s, results[i].st
		coq[i] = s
		if *replay == "" && cases[i].Crash && cases[i].CrashPart == "" && cases[i].deepCoq != "" {
			d := cases[i]
			d.ID, d.CrashPart, d.Trigger = len(cases), "deep", "c12-deep-reorg"
			cases = append(cases, d)
			coq = append(coq, d.deepCoq)
			stats["cases_with_deep_reorg_part"]++
		}
		for k, v := range st {
			stats[k] += v
		}
		// shape = parent vector + op kinds; non-trivial = the history contains a reorg
		// (an announcement of more than one header) or a refusal
		var sb strings.Builder
		for _, h := range cases[i].Hdrs {
			fmt.Fprintf(&sb, "%d,", h.P)
		}
		for _, op := range cases[i].Ops {
			sb.WriteString(op.K[:2])
		}
		shapes[sb.String()] = true
		if st["reorg_announcements"] > 0 || st["verdict_VTooDeep"]+st["verdict_VUnknown"]+st["verdict_VInvalid"] > 0 {
			nontrivial[sb.String()] = true
		}
		stats[fmt.Sprintf("hdrs_%03d-%03d", len(cases[i].Hdrs)/20*20, len(cases[i].Hdrs)/20*20+19)]++
	}

	var normal, fix, long []int
	for i := range cases {
		switch {
		case cases[i].Fix:
			fix = append(fix, i)
		case len(cases[i].Hdrs) > 300:
			long = append(long, i) // a shard of its own each: they cost half a minute to evaluate
		default:
			normal = append(normal, i)
		}
	}
	k := *shards
	if k > len(normal) {
		k = len(normal)
	}
	if k < 1 {
		k = 1
	}
	index := make([][]int, k)
	if len(fix) > 0 {
		var part []string
		var ids []int
		for _, i := range fix {
			part = append(part, coq[i])
			ids = append(ids, cases[i].ID)
		}
		index = append(index, ids)
		path := filepath.Join(*out, fmt.Sprintf("cases_%d.v", k))
		if err := coqfmt.WriteCases(path, "From BR Require Import Base.Prelude Gen.Fixture Headers.SplitLocator.", "lcase",
			"lmismatches (map (fun x => fst (fst x)) fixture_556000) 556000%Z", part); err != nil {
			fmt.Fprintln(os.Stderr, err)
			os.Exit(2)
		}
	}
	for s := 0; s < k; s++ {
		var part []string
		for j := s; j < len(normal); j += k {
			i := normal[j]
			part = append(part, coq[i])
			index[s] = append(index[s], cases[i].ID)
		}
		if len(part) == 0 {
			continue
		}
		path := filepath.Join(*out, fmt.Sprintf("cases_%d.v", s))
		imports, ty, fn := "From BR Require Import Base.Prelude Headers.Tree.", "tcase", "mismatches"
		if *prof == "C12" {
			imports, ty, fn = "From BR Require Import Base.Prelude Headers.Tree Headers.Crash.", "ccase", "cmismatches"
		}
		if err := coqfmt.WriteCases(path, imports, ty, fn, part); err != nil {
			fmt.Fprintln(os.Stderr, err)
			os.Exit(2)
		}
	}
	for _, i := range long {
		imports, ty, fn := "From BR Require Import Base.Prelude Headers.Tree.", "tcase", "mismatches"
		if *prof == "C12" {
			imports, ty, fn = "From BR Require Import Base.Prelude Headers.Tree Headers.Crash.", "ccase", "cmismatches"
		}
		path := filepath.Join(*out, fmt.Sprintf("cases_%d.v", len(index)))
		index = append(index, []int{cases[i].ID})
		if err := coqfmt.WriteCases(path, imports, ty, fn, []string{coq[i]}); err != nil {
			fmt.Fprintln(os.Stderr, err)
			os.Exit(2)
		}
	}
	coqfmt.WriteJSON(filepath.Join(*out, "cases.json"), cases)
	twins := map[string]int{}
	controls := []int{}
	for _, c := range cases {
		if c.Twin >= 0 {
			twins[fmt.Sprint(c.ID)] = c.Twin
		}
		if c.Control {
			controls = append(controls, c.ID)
		}
	}
	samples := []interface{}{}
	for i := 0; i < len(cases) && len(samples) < 2; i += len(cases)/2 + 1 {
		samples = append(samples, map[string]interface{}{"case": cases[i], "coq": coq[i]})
	}
	coqfmt.WriteJSON(filepath.Join(*out, "stats.json"), map[string]interface{}{
		"evaluations":         len(cases),
		"distinct_shapes":     len(shapes),
		"distinct_nontrivial": len(nontrivial),
		"rule": "random header trees (parent choice: extend best / random leaf / fork around the MaxBranchDepth limit / anywhere / sibling; bits from 4 difficulty classes so most-work differs from longest; MaxBranchDepth in {0,1,2,3,5,144}), submitted parents-first with orphans, duplicates and the profile's maintenance ops, full observation after every op; distinct = distinct (parent vector, op-kind sequence); non-trivial = the implementation announced a reorg (>1 header at once) or refused a header",
		"distribution":        stats,
		"index":               index,
		"twins":               twins,
		"controls":            controls,
		"samples":             samples,
		"profile":             *prof,
	})
}
