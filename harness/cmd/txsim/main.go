// txsim: correspondence harness for C06 (TxManager) against coq/Tx/TxManager.v.
//
// Sequential histories of AddTxID / AddTx / GetTxRequests over a few nodes and txids, with the
// request timeout switched through the verif hook (0 = every outstanding request is expired,
// 1h = none is) or, in "epoch" cases, with the real clock and a 100 ms timeout (mixed ages);
// concurrent histories from several goroutines whose recorded call/return order is linearised.
// The real TxManager.Run feeds a counting TxProcessor/TxSaver.
package main

import (
	"context"
	"flag"
	"fmt"
	"os"
	"path/filepath"
	"sort"
	"sync"
	"time"

	"github.com/google/uuid"
	bitcoin_reader "github.com/tokenized/bitcoin_reader"
	"github.com/tokenized/pkg/bitcoin"
	"github.com/tokenized/pkg/merkle_proof"
	"github.com/tokenized/pkg/wire"

	"verifharness/coqfmt"
)

type Op struct {
	K        string `json:"k"` // id tx get sleep
	Node     int    `json:"node"`
	Tx       int    `json:"tx"`
	Expired  bool   `json:"expired"` // hook mode: timeout 0 (true) or 1h (false)
	Relevant bool   `json:"relevant"`
	Max      int    `json:"max"`
}

type Case struct {
	ID   int    `json:"id"`
	Mode string `json:"mode"` // hook | epoch | concurrent
	Ops  []Op   `json:"ops"`
	// all txids of the case fall into one of the manager's 256 maps (the first byte of the txid
	// picks the map): several eligible txids are then met in one map while a poll counts to max
	SameBucket bool `json:"same_bucket,omitempty"`
}

type spy struct {
	sync.Mutex
	processed []int
	saved     []int
	relevant  map[int]bool
	ids       map[bitcoin.Hash32]int
}

func (s *spy) ProcessTx(ctx context.Context, tx *wire.MsgTx) (bool, error) {
	s.Lock()
	defer s.Unlock()
	id := s.ids[*tx.TxHash()]
	s.processed = append(s.processed, id)
	return s.relevant[id], nil
}
func (s *spy) SaveTx(ctx context.Context, tx *wire.MsgTx) error {
	s.Lock()
	defer s.Unlock()
	s.saved = append(s.saved, s.ids[*tx.TxHash()])
	return nil
}
func (s *spy) CancelTx(ctx context.Context, txid bitcoin.Hash32) error { return nil }
func (s *spy) AddTxConflict(ctx context.Context, txid, c bitcoin.Hash32) error { return nil }
func (s *spy) ConfirmTx(ctx context.Context, txid bitcoin.Hash32, h int, p *merkle_proof.MerkleProof) error {
	return nil
}
func (s *spy) UpdateTxChainDepth(ctx context.Context, txid bitcoin.Hash32, d uint32) error { return nil }
func (s *spy) ProcessCoinbaseTx(ctx context.Context, b bitcoin.Hash32, tx *wire.MsgTx) error {
	return nil
}

// sameBucketLocks: lock times whose transactions' txids share their first byte (found by search).
var sameBucketLocks = func() []uint32 {
	by := map[byte][]uint32{}
	for l := uint32(5000); ; l++ {
		tx := wire.NewMsgTx(1)
		tx.LockTime = l
		b := tx.TxHash()[0]
		by[b] = append(by[b], l)
		if len(by[b]) == 8 {
			return by[b]
		}
	}
}()

func mkTx(i int, same bool) *wire.MsgTx {
	tx := wire.NewMsgTx(1)
	tx.LockTime = uint32(1000 + i) // spread over the maps: the first byte of the txid picks the map
	if same {
		tx.LockTime = sameBucketLocks[i%len(sameBucketLocks)]
	}
	return tx
}

const hour = time.Hour
const epochTimeout = 100 * time.Millisecond

func ints(l []int) string {
	s := make([]string, len(l))
	for i, x := range l {
		s[i] = fmt.Sprint(x)
	}
	return coqfmt.List(s)
}

// runSeq executes a sequential case. It returns the Coq case text and whether it is usable (an
// epoch case whose bursts were too slow is discarded).
func runSeq(c *Case, relevantOf map[int]bool) (string, bool) {
	ctx := coqfmt.QuietContext()
	m := bitcoin_reader.NewTxManager(hour)
	sp := &spy{relevant: relevantOf, ids: map[bitcoin.Hash32]int{}}
	m.SetTxProcessor(sp)
	m.SetTxSaver(sp)
	done := make(chan error, 1)
	go func() { done <- m.Run(ctx) }()
	nodes := make([]uuid.UUID, 8)
	for i := range nodes {
		nodes[i] = uuid.New()
	}
	txs := map[int]*wire.MsgTx{}
	txid := func(i int) bitcoin.Hash32 {
		if _, ok := txs[i]; !ok {
			txs[i] = mkTx(i, c.SameBucket)
			sp.Lock()
			sp.ids[*txs[i].TxHash()] = i
			sp.Unlock()
		}
		return *txs[i].TxHash()
	}
	ops := []string{}
	outs := []string{}
	now := 0  // model clock: hook mode counts operations, epoch mode counts epochs
	usable := true
	if c.Mode == "epoch" {
		m.VerifSetRequestTimeout(epochTimeout)
	}
	burst := time.Now()
	cutoff := time.Now()
	for _, op := range c.Ops {
		timeout := "1%Z" // epoch mode: one epoch
		if c.Mode == "hook" {
			now++
			if op.Expired {
				m.VerifSetRequestTimeout(0)
				timeout = "0%Z"
			} else {
				m.VerifSetRequestTimeout(hour)
				timeout = "1000000%Z"
			}
		}
		switch op.K {
		case "mark": // remember the time: the cutoff of a later clean-up
			time.Sleep(2 * time.Millisecond)
			cutoff = time.Now()
			time.Sleep(2 * time.Millisecond)
		case "clean":
			// the periodic clean-up with the remembered cutoff.  The scenario has every entry
			// active (requested or delivered) after the cutoff, so nothing may be forgotten: the
			// model has no operation for it
			m.Clean(ctx, cutoff)
		case "sleep":
			if c.Mode == "epoch" {
				if time.Since(burst) > epochTimeout/2 {
					usable = false
				}
				time.Sleep(epochTimeout + epochTimeout/3)
				burst = time.Now()
				now++
			}
		case "id":
			ok, _ := m.AddTxID(ctx, nodes[op.Node], txid(op.Tx))
			ops = append(ops, fmt.Sprintf("OAddTxID %d %d %d%%Z %s", op.Node, op.Tx, now, timeout))
			outs = append(outs, "RGrant "+coqfmt.Bool(ok))
		case "tx":
			txid(op.Tx)
			m.AddTx(ctx, nil, nodes[op.Node], txs[op.Tx])
			ops = append(ops, fmt.Sprintf("OAddTx %d %d %s %d%%Z", op.Node, op.Tx, coqfmt.Bool(relevantOf[op.Tx]), now))
			outs = append(outs, "RForward true")
		case "get":
			l, _ := m.GetTxRequests(ctx, nodes[op.Node], op.Max)
			got := make([]int, len(l))
			sp.Lock()
			for i, h := range l {
				got[i] = sp.ids[h]
			}
			sp.Unlock()
			sort.Ints(got)
			ops = append(ops, fmt.Sprintf("OGet %d %d%%Z %s %d %s", op.Node, now, timeout, op.Max, ints(got)))
			outs = append(outs, "RRequests true "+ints(got))
		}
	}
	if c.Mode == "epoch" && time.Since(burst) > epochTimeout/2 {
		usable = false
	}
	m.Stop(ctx)
	select {
	case <-done:
	case <-time.After(5 * time.Second):
		outs = append(outs, "RGrant false") // Run did not return: force a mismatch
	}
	sp.Lock()
	defer sp.Unlock()
	return fmt.Sprintf("(mkTCase %s\n  %s %s %s)", coqfmt.List(ops), coqfmt.List(outs), ints(sp.processed), ints(sp.saved)), usable
}

// runStress: many never-announced transactions, each delivered by several peers released from a
// barrier at the same instant.  Which delivery is forwarded is not observable; what the processor
// and the saver received is, and by C06_processed_once it does not depend on the interleaving: every
// delivered transaction exactly once, saved iff relevant.  The Coq case lists the deliveries in
// program order and compares only the processed / saved multisets (mismatches_stress).
func runStress(c *Case) string {
	ctx := coqfmt.QuietContext()
	m := bitcoin_reader.NewTxManager(hour)
	rel := map[int]bool{}
	sp := &spy{relevant: rel, ids: map[bitcoin.Hash32]int{}}
	m.SetTxProcessor(sp)
	m.SetTxSaver(sp)
	done := make(chan error, 1)
	go func() { done <- m.Run(ctx) }()
	peers := c.Ops[0].Node // number of peers
	txsN := c.Ops[0].Tx    // number of transactions
	nodes := make([]uuid.UUID, peers)
	for i := range nodes {
		nodes[i] = uuid.New()
	}
	var ops []string
	txl := make([]*wire.MsgTx, txsN)
	sp.Lock() // (the processor reads these maps from the Run loop)
	for t := 0; t < txsN; t++ {
		txl[t] = wire.NewMsgTx(1)
		txl[t].LockTime = uint32(700000 + c.ID*100000 + t)
		rel[t] = t%3 == 0
		sp.ids[*txl[t].TxHash()] = t
	}
	sp.Unlock()
	for t := 0; t < txsN; t++ {
		tx := txl[t]
		start := make(chan struct{})
		var wg sync.WaitGroup
		for p := 0; p < peers; p++ {
			wg.Add(1)
			go func(p int) {
				defer wg.Done()
				<-start
				m.AddTx(ctx, nil, nodes[p], tx)
			}(p)
			ops = append(ops, fmt.Sprintf("OAddTx %d %d %s 1%%Z", p, t, coqfmt.Bool(rel[t])))
		}
		close(start)
		wg.Wait()
	}
	m.Stop(ctx)
	select {
	case <-done:
	case <-time.After(10 * time.Second):
		sp.Lock()
		sp.processed = append(sp.processed, 999999) // Run did not return: force a mismatch
		sp.Unlock()
	}
	sp.Lock()
	defer sp.Unlock()
	return fmt.Sprintf("(mkTCase %s\n  [] %s %s)", coqfmt.List(ops), ints(sp.processed), ints(sp.saved))
}

// runConcurrent: goroutines issue operations at the same instant over the same txids; every call is
// atomic with respect to the entry it touches, so the result must equal that of SOME sequential
// order.  The harness records each call's result, then searches the permutations of the calls
// (at most 7) for one that reproduces every result sequentially on a fresh manager; the Coq case
// is that order.  No order found = the concurrent run is not linearisable = mismatch.
func runConcurrent(c *Case, relevantOf map[int]bool) string {
	ctx := coqfmt.QuietContext()
	type call struct {
		op  Op
		ok  bool
		got []int
	}
	m := bitcoin_reader.NewTxManager(hour)
	m.VerifSetRequestTimeout(0) // everything outstanding is expired: the interesting races
	sp := &spy{relevant: relevantOf, ids: map[bitcoin.Hash32]int{}}
	m.SetTxProcessor(sp)
	m.SetTxSaver(sp)
	done := make(chan error, 1)
	go func() { done <- m.Run(ctx) }()
	nodes := make([]uuid.UUID, 8)
	for i := range nodes {
		nodes[i] = uuid.New()
	}
	txs := map[int]*wire.MsgTx{}
	for _, op := range c.Ops {
		if _, ok := txs[op.Tx]; !ok {
			txs[op.Tx] = mkTx(op.Tx, c.SameBucket)
			sp.ids[*txs[op.Tx].TxHash()] = op.Tx
		}
	}
	calls := make([]call, len(c.Ops))
	var wg sync.WaitGroup
	start := make(chan struct{})
	for i, op := range c.Ops {
		calls[i].op = op
		wg.Add(1)
		go func(i int, op Op) {
			defer wg.Done()
			<-start
			switch op.K {
			case "id":
				calls[i].ok, _ = m.AddTxID(ctx, nodes[op.Node], *txs[op.Tx].TxHash())
			case "tx":
				m.AddTx(ctx, nil, nodes[op.Node], txs[op.Tx])
			case "get":
				l, _ := m.GetTxRequests(ctx, nodes[op.Node], op.Max)
				sp.Lock()
				for _, h := range l {
					calls[i].got = append(calls[i].got, sp.ids[h])
				}
				sp.Unlock()
				sort.Ints(calls[i].got)
			}
		}(i, op)
	}
	close(start)
	wg.Wait()
	m.Stop(ctx)
	<-done
	// emit in index order; the Coq side tries the permutations (linearisation search)
	ops := []string{}
	outs := []string{}
	for _, cl := range calls {
		switch cl.op.K {
		case "id":
			ops = append(ops, fmt.Sprintf("OAddTxID %d %d 1%%Z 0%%Z", cl.op.Node, cl.op.Tx))
			outs = append(outs, "RGrant "+coqfmt.Bool(cl.ok))
		case "tx":
			ops = append(ops, fmt.Sprintf("OAddTx %d %d %s 1%%Z", cl.op.Node, cl.op.Tx, coqfmt.Bool(relevantOf[cl.op.Tx])))
			outs = append(outs, "RForward true")
		case "get":
			ops = append(ops, fmt.Sprintf("OGet %d 1%%Z 0%%Z %d %s", cl.op.Node, cl.op.Max, ints(cl.got)))
			outs = append(outs, "RRequests true "+ints(cl.got))
		}
	}
	sp.Lock()
	defer sp.Unlock()
	return fmt.Sprintf("(mkTCase %s\n  %s %s %s)", coqfmt.List(ops), coqfmt.List(outs), ints(sp.processed), ints(sp.saved))
}

func genCase(r *coqfmt.Rand, id int, mode string) Case {
	c := Case{ID: id, Mode: mode}
	nn := 1 + r.Intn(5)
	nt := 1 + r.Intn(6)
	n := 4 + r.Intn(24)
	if mode == "concurrent" {
		n = 3 + r.Intn(4)
		nt = 1 + r.Intn(2)
		nn = 2 + r.Intn(3)
	}
	if mode != "concurrent" && r.Chance(1, 3) {
		c.SameBucket = true
		nt = 3 + r.Intn(5)
		n += 8
		if nn < 2 {
			nn = 2
		}
		// every txid announced by two or three nodes first: the later announcers then have several
		// txids to retry at once
		for k, announcers := 0, 2+r.Intn(2); k < announcers && k < nn; k++ {
			for t := 0; t < nt; t++ {
				if r.Chance(5, 6) {
					c.Ops = append(c.Ops, Op{K: "id", Node: k, Tx: t, Max: 100})
				}
			}
		}
	}
	for i := 0; i < n; i++ {
		op := Op{Node: r.Intn(nn), Tx: r.Intn(nt), Expired: r.Chance(2, 5), Max: 100}
		switch r.Pick(8, 4, 5, 2) {
		case 0:
			op.K = "id"
		case 1:
			op.K = "tx"
		case 2:
			op.K = "get"
			if r.Chance(1, 4) || (c.SameBucket && r.Chance(1, 2)) {
				op.Max = 1 + r.Intn(3)
			}
		default:
			op.K = "sleep"
			if mode != "epoch" {
				op.K = "id"
			}
		}
		c.Ops = append(c.Ops, op)
	}
	return c
}

func main() {
	out := flag.String("out", "", "output directory")
	seed := flag.Uint64("seed", 1, "PRNG seed")
	n := flag.Int("n", 400, "number of generated cases")
	shards := flag.Int("shards", 16, "number of cases files")
	replay := flag.String("replay", "", "JSON file with cases to re-execute instead of generating")
	_ = flag.String("tier", "quick", "")
	flag.Parse()
	os.MkdirAll(*out, 0o755)
	var cases []Case
	if *replay != "" {
		if err := coqfmt.ReadJSON(*replay, &cases); err != nil {
			fmt.Fprintln(os.Stderr, err)
			os.Exit(2)
		}
	} else {
		r := coqfmt.NewRand(*seed)
		for i := 0; i < *n; i++ {
			mode := "hook"
			if i%10 == 3 {
				mode = "epoch"
			}
			if i%5 == 4 {
				mode = "concurrent"
			}
			if i%25 == 11 { // a delivery in flight across the clean-up's cutoff
				rr := r.Fork(uint64(i))
				cc := Case{ID: i, Mode: "hook"}
				nt := 1 + rr.Intn(3)
				for t := 0; t < nt; t++ { // announced by A (granted) and by B (remembered)
					cc.Ops = append(cc.Ops, Op{K: "id", Node: 0, Tx: t, Max: 100}, Op{K: "id", Node: 1, Tx: t, Max: 100})
				}
				cc.Ops = append(cc.Ops, Op{K: "mark"})
				for t := 0; t < nt; t++ { // every transaction is delivered after the cutoff
					cc.Ops = append(cc.Ops, Op{K: "tx", Node: rr.Intn(2), Tx: t, Max: 100})
				}
				cc.Ops = append(cc.Ops, Op{K: "clean"})
				for t := 0; t < nt; t++ { // a third peer announces and delivers; the second one polls
					cc.Ops = append(cc.Ops, Op{K: "id", Node: 2, Tx: t, Expired: true, Max: 100}, Op{K: "get", Node: 1, Expired: true, Max: 100},
						Op{K: "tx", Node: 2, Tx: t, Max: 100})
				}
				cases = append(cases, cc)
				continue
			}
			if i%50 == 7 { // a few stress cases: (peers, transactions) in the first op
				rr := r.Fork(uint64(i))
				cases = append(cases, Case{ID: i, Mode: "stress", Ops: []Op{{K: "stress", Node: 4 + rr.Intn(5), Tx: 200 + rr.Intn(200)}}})
				continue
			}
			cases = append(cases, genCase(r.Fork(uint64(i)), i, mode))
		}
	}
	relevantOf := map[int]bool{0: true, 2: true, 4: true}
	coq := make([]string, len(cases))
	usable := make([]bool, len(cases))
	var wg sync.WaitGroup
	sem := make(chan struct{}, 16)
	for i := range cases {
		wg.Add(1)
		sem <- struct{}{}
		go func(i int) {
			defer wg.Done()
			defer func() { <-sem }()
			if cases[i].Mode == "stress" {
				coq[i] = runStress(&cases[i])
				usable[i] = true
			} else if cases[i].Mode == "concurrent" {
				coq[i] = runConcurrent(&cases[i], relevantOf)
				usable[i] = true
			} else {
				coq[i], usable[i] = runSeq(&cases[i], relevantOf)
			}
		}(i)
	}
	wg.Wait()
	stats := map[string]int{}
	distinct := map[string]bool{}
	var seqCases, concCases, stressCases []string
	var seqIDs, concIDs, stressIDs []int
	for i, c := range cases {
		stats["mode_"+c.Mode]++
		if !usable[i] {
			stats["discarded_slow_epoch_burst"]++
			continue
		}
		for _, op := range c.Ops {
			stats["op_"+op.K]++
		}
		distinct[coq[i]] = true
		if c.Mode == "stress" {
			stressCases = append(stressCases, coq[i])
			stressIDs = append(stressIDs, c.ID)
		} else if c.Mode == "concurrent" {
			concCases = append(concCases, coq[i])
			concIDs = append(concIDs, c.ID)
		} else {
			seqCases = append(seqCases, coq[i])
			seqIDs = append(seqIDs, c.ID)
		}
	}
	k := *shards
	if k < 2 {
		k = 2
	}
	index := [][]int{}
	file := 0
	write := func(cs []string, ids []int, fn string, parts int) {
		if parts > len(cs) {
			parts = len(cs)
		}
		for s := 0; s < parts; s++ {
			var part []string
			var idx []int
			for i := s; i < len(cs); i += parts {
				part = append(part, cs[i])
				idx = append(idx, ids[i])
			}
			coqfmt.WriteCases(filepath.Join(*out, fmt.Sprintf("cases_%d.v", file)), "From BR Require Import Base.Prelude Tx.TxManager.", "tcase", fn, part)
			index = append(index, idx)
			file++
		}
	}
	write(seqCases, seqIDs, "mismatches", k*3/4)
	write(concCases, concIDs, "mismatches_linearisable", k-k*3/4)
	write(stressCases, stressIDs, "mismatches_stress", 2)
	coqfmt.WriteJSON(filepath.Join(*out, "cases.json"), cases)
	samples := []interface{}{}
	for i := 0; i < len(cases) && len(samples) < 3; i += 4 {
		samples = append(samples, map[string]interface{}{"case": cases[i], "coq": coq[i]})
	}
	coqfmt.WriteJSON(filepath.Join(*out, "stats.json"), map[string]interface{}{
		"evaluations":         len(seqCases) + len(concCases) + len(stressCases),
		"distinct_nontrivial": len(distinct),
		"rule":                "sequential histories of 4-27 AddTxID/AddTx/GetTxRequests calls over 1-5 nodes and 1-6 txids (timeout switched per call through the verif hook: expired / not expired; every 10th case uses the real clock with a 100 ms timeout and sleeps for mixed ages); concurrent cases: 3-6 calls from as many goroutines released together over 1-2 txids, checked for linearisability against the model; stress cases: 200-400 never-announced transactions each delivered by 4-8 peers released together, processed / saved multisets compared; the real Run loop feeds a counting processor/saver; distinct = distinct case text",
		"distribution":        stats,
		"index":               index,
		"samples":             samples,
	})
}
