// powsim: correspondence harness for C02 (proof of work) against coq/Headers/Pow.v.
//
//   decode  : bitcoin.ConvertToDifficulty / ConvertToWork on every exponent byte x mantissa class
//   encode  : bitcoin.ConvertToBits
//   target  : headers.NewBranch/Add/Target on generated chains (ties, decreasing and far-future
//             timestamps, mixed bits, root branch and fork) against the network's algorithm
//   verdict : ProcessHeader with difficulty checks ON on the real fixture chains (556000.., 725000..)
//             and on single-field mutations of real headers, and on bits that crash the converter
package main

import (
	"encoding/json"
	"flag"
	"fmt"
	"math/big"
	"os"
	"path/filepath"
	"strings"

	"github.com/pkg/errors"
	"github.com/tokenized/bitcoin_reader/headers"
	"github.com/tokenized/pkg/bitcoin"
	"github.com/tokenized/pkg/storage"
	"github.com/tokenized/pkg/wire"

	"verifharness/coqfmt"
)

type Case struct {
	ID   int    `json:"id"`
	Kind string `json:"kind"`
	Ops  []int  `json:"ops"` // unused (no shrinking); kept for the generic tooling
	// decode / encode
	Bits   uint32 `json:"bits,omitempty"`
	Target string `json:"target,omitempty"`
	// target: chain description
	Times    []uint32 `json:"times,omitempty"`
	BitsList []uint32 `json:"bitslist,omitempty"`
	ForkAt   int      `json:"fork_at,omitempty"` // 0 = no fork
	// verdict
	Fixture  string `json:"fixture,omitempty"`
	Index    int    `json:"index,omitempty"`
	Mutation string `json:"mutation,omitempty"`
	Seed     uint64 `json:"seed,omitempty"`
	coq      string
}

func classify(err error) string {
	if err == nil {
		return "VOk"
	}
	switch errors.Cause(err) {
	case headers.ErrUnknownHeader:
		return "VUnknown"
	case headers.ErrHeaderMarkedInvalid:
		return "VInvalid"
	case headers.ErrBeyondMaxBranchDepth:
		return "VTooDeep"
	case headers.ErrWrongChain:
		return "VWrongChain"
	case headers.ErrNotEnoughWork:
		return "VBadWork"
	case headers.ErrInvalidTarget:
		return "VBadBits"
	}
	return "VOther"
}

func decodeCase(c *Case) {
	var t, w *big.Int
	func() {
		defer func() { recover() }()
		t = bitcoin.ConvertToDifficulty(c.Bits)
		w = bitcoin.ConvertToWork(t)
	}()
	if t == nil || w == nil {
		c.coq = fmt.Sprintf("PDecode %d None", c.Bits)
		return
	}
	c.coq = fmt.Sprintf("PDecode %d (Some (0x%s, 0x%s))", c.Bits, t.Text(16), w.Text(16))
}

func encodeCase(c *Case) {
	t, _ := new(big.Int).SetString(c.Target, 10)
	c.coq = fmt.Sprintf("PEncode %s %d", t.String(), bitcoin.ConvertToBits(t, bitcoin.MaxBits))
}

func hdr(prev bitcoin.Hash32, t, bits uint32, nonce uint32) *wire.BlockHeader {
	h := &wire.BlockHeader{Version: 1, PrevBlock: prev, Timestamp: t, Bits: bits, Nonce: nonce}
	h.MerkleRoot[0] = byte(nonce)
	h.MerkleRoot[1] = byte(nonce >> 8)
	return h
}

func sampleStr(d *headers.HeaderData) string {
	return fmt.Sprintf("(%d, %s)", d.Header.Timestamp, d.AccumulatedWork.String())
}

func targetCase(c *Case) {
	ctx := coqfmt.QuietContext()
	n := len(c.Times)
	first := hdr(bitcoin.Hash32{}, c.Times[0], c.BitsList[0], 0)
	branch, _ := headers.NewBranch(nil, -1, first)
	prev := *first.BlockHash()
	cur := branch
	for i := 1; i < n; i++ {
		h := hdr(prev, c.Times[i], c.BitsList[i], uint32(i))
		if c.ForkAt > 0 && i == c.ForkAt {
			// continue on a child branch hanging at height i-1
			child, err := headers.NewBranch(cur, i-1, h)
			if err != nil {
				panic(err)
			}
			cur = child
		} else if !cur.Add(h) {
			panic("add failed")
		}
		prev = *h.BlockHash()
	}
	height := n // the next header's height (first header is height 0)
	var obs string
	func() {
		defer func() {
			if r := recover(); r != nil {
				obs = "0"
			}
		}()
		t, err := cur.Target(ctx, height)
		if err != nil {
			obs = "0"
			return
		}
		obs = t.String()
	}()
	s := make([]string, 0, 6)
	for _, h := range []int{height - 147, height - 146, height - 145, height - 3, height - 2, height - 1} {
		s = append(s, sampleStr(cur.AtHeight(h)))
	}
	c.coq = fmt.Sprintf("PTarget (%s) %s", strings.Join(s, ", "), obs)
}

// ---- fixture replay -----------------------------------------------------------------------

type fixture struct {
	name   string
	height int
	work   string
	hdrs   []*wire.BlockHeader
}

func loadFixture(name string) *fixture {
	f := &fixture{name: name}
	switch name {
	case "725000":
		f.height, f.work = 725000, "134b2eb2b14bbedbad9a14b"
	case "556000":
		f.height, f.work = 556000, "d167cf38dd7a9c078a40d5"
	}
	b, err := os.ReadFile("/repo/headers/test_fixtures/headers_" + name + ".txt")
	if err != nil {
		panic(err)
	}
	if err := json.Unmarshal(b, &f.hdrs); err != nil {
		panic(err)
	}
	return f
}

type want struct {
	index    int
	mutation string
	seed     uint64
	c        *Case
}

// forkVerdictCase: the real chain is replayed up to header Index-1, then - with the checks off - a
// few heavy unmined headers are hung a little below the tip so that THAT branch becomes the most
// work chain; with the checks on again the next real header is offered.  It extends a branch that
// is not the most work branch and has to be judged by the samples of its own branch.
var realSamples = map[string][]struct {
	t uint32
	w *big.Int
}{}

func forkVerdictCase(c *Case) {
	f := loadFixture(c.Fixture)
	ctx := coqfmt.QuietContext()
	if realSamples[c.Fixture] == nil {
		repo := headers.NewRepository(headers.DefaultConfig(), storage.NewMockStorage())
		work, _ := new(big.Int).SetString(f.work, 16)
		repo.DisableDifficulty()
		out := make([]struct {
			t uint32
			w *big.Int
		}, len(f.hdrs))
		for i, h := range f.hdrs {
			if i == 0 {
				repo.MockLatest(ctx, h, f.height, work)
			} else if err := repo.ProcessHeader(ctx, h); err != nil {
				panic(err)
			}
			out[i].t, out[i].w = h.Timestamp, new(big.Int).Set(repo.AccumulatedWork())
		}
		realSamples[c.Fixture] = out
	}
	smps := realSamples[c.Fixture]
	repo := headers.NewRepository(headers.DefaultConfig(), storage.NewMockStorage())
	work, _ := new(big.Int).SetString(f.work, 16)
	repo.DisableDifficulty()
	for i := 0; i < c.Index; i++ {
		if i == 0 {
			repo.MockLatest(ctx, f.hdrs[0], f.height, work)
		} else if err := repo.ProcessHeader(ctx, f.hdrs[i]); err != nil {
			panic(err)
		}
	}
	prev := *f.hdrs[c.ForkAt].BlockHash()
	t := f.hdrs[c.ForkAt].Timestamp
	for k := 0; k < 4; k++ {
		t += 600
		x := hdr(prev, t, 0x17100000, uint32(c.Seed)+uint32(k))
		if err := repo.ProcessHeader(ctx, x); err != nil {
			panic(err)
		}
		prev = *x.BlockHash()
	}
	last := repo.LastHash()
	forkLeads := last.Equal(&prev)
	repo.EnableDifficulty()
	h := f.hdrs[c.Index]
	obs := "None"
	func() {
		defer func() { recover() }()
		obs = "(Some " + classify(repo.ProcessHeader(ctx, h)) + ")"
	}()
	if !forkLeads {
		obs = "None" // the scenario did not come about: force a look
	}
	i := c.Index
	at := func(j int) string { return fmt.Sprintf("(%d, %s)", smps[j].t, smps[j].w.String()) }
	c.coq = fmt.Sprintf("PVerdict true (mkPowIn %s %d %d%%Z true false (Some (%s, %s, %s, %s, %s, %s))) %s", h.BlockHash().Value().String(), h.Bits,
		f.height+i, at(i-147), at(i-146), at(i-145), at(i-3), at(i-2), at(i-1), obs)
}

func grind(h *wire.BlockHeader) {
	for i := 0; i < 1000 && !h.WorkIsValid(); i++ {
		h.Nonce++
	}
}

// runFixture feeds the real chain with difficulty checks ON and produces the requested cases.
func runFixture(f *fixture, wants []want) {
	ctx := coqfmt.QuietContext()
	store := storage.NewMockStorage()
	repo := headers.NewRepository(headers.DefaultConfig(), store)
	work, _ := new(big.Int).SetString(f.work, 16)
	byIndex := map[int][]want{}
	for _, w := range wants {
		byIndex[w.index] = append(byIndex[w.index], w)
	}
	type smp struct {
		t uint32
		w *big.Int
	}
	samples := make([]smp, len(f.hdrs)) // by fixture index
	sampleAt := func(i int) string {
		return fmt.Sprintf("(%d, %s)", samples[i].t, samples[i].w.String())
	}
	submit := func(h *wire.BlockHeader) string {
		v := "None"
		func() {
			defer func() {
				if r := recover(); r != nil {
					v = "None"
				}
			}()
			v = "(Some " + classify(repo.ProcessHeader(ctx, h)) + ")"
		}()
		return v
	}
	difficulty := true
	emit := func(c *Case, h *wire.BlockHeader, i int, known, dup bool, obs string) {
		height := f.height + i
		smp := "None"
		if i >= 147 {
			smp = fmt.Sprintf("(Some (%s, %s, %s, %s, %s, %s))", sampleAt(i-147), sampleAt(i-146), sampleAt(i-145),
				sampleAt(i-3), sampleAt(i-2), sampleAt(i-1))
		}
		c.coq = fmt.Sprintf("PVerdict "+coqfmt.Bool(difficulty)+" (mkPowIn %s %d %d%%Z %s %s %s) %s", h.BlockHash().Value().String(), h.Bits,
			height, coqfmt.Bool(known), coqfmt.Bool(dup), smp, obs)
	}
	for i, h := range f.hdrs {
		if i == 0 {
			repo.MockLatest(ctx, h, f.height, work)
			samples[0] = smp{h.Timestamp, new(big.Int).Set(repo.AccumulatedWork())}
			continue
		}
		// the difficulty algorithm needs 147 predecessors on the branch: like the repository's own
		// tests, checks are off until enough of the fixture has been fed
		if i < 150 {
			repo.DisableDifficulty()
			difficulty = false
		} else {
			repo.EnableDifficulty()
			difficulty = true
		}
		// mutated variants first (they attach to the current tip = the real parent)
		for _, w := range byIndex[i] {
			if w.mutation == "real" {
				continue
			}
			if !difficulty {
				// with the checks off any bits are accepted and would distort the chain's work
				w.c.coq = "PEncode 0 0"
				continue
			}
			m := h.Copy()
			r := coqfmt.NewRand(w.seed)
			known := true
			switch w.mutation {
			case "nonce":
				m.Nonce += 1 + uint32(r.Intn(1000))
			case "time":
				m.Timestamp += 1 + uint32(r.Intn(100))
			case "merkle":
				m.MerkleRoot[r.Intn(32)] ^= 1 << uint(r.Intn(8))
			case "version":
				m.Version ^= 1 << uint(r.Intn(8))
			case "prev": // unknown parent; the hash value changes too
				m.PrevBlock[r.Intn(32)] ^= 1 << uint(r.Intn(8))
				known = false
			case "bits_off_by_one":
				m.Bits += uint32(1 - 2*r.Intn(2))
			case "bits_easy": // trivially minable target, then ground so that the work is valid
				m.Bits = 0x207fffff
				grind(&m)
			case "bits_easy_bad": // trivially minable target but the hash misses it
				m.Bits = 0x207fffff
				for i := 0; i < 1000 && m.WorkIsValid(); i++ {
					m.Nonce++
				}
			case "bits_crash1":
				m.Bits = 0x01010000 + uint32(r.Intn(0xffff))
			case "bits_crash2":
				m.Bits = 0x02000000 + uint32(r.Intn(0xffff))
			case "bits_zero_exp":
				m.Bits = uint32(r.Intn(0x00ffffff))
			case "bits_huge_exp":
				m.Bits = 0xff000001 + uint32(r.Intn(0x00fffffe))
			case "bits_negative":
				m.Bits = 0x1d800000 + uint32(r.Intn(0x7fffff))
			}
			obs := submit(&m)
			emit(w.c, &m, i, known, false, obs)
		}
		obs := submit(h)
		samples[i] = smp{h.Timestamp, new(big.Int).Set(repo.AccumulatedWork())}
		for _, w := range byIndex[i] {
			if w.mutation == "real" {
				emit(w.c, h, i, true, false, obs)
			}
		}
	}
}

// ---- generation ----------------------------------------------------------------------------

var mutations = []string{"nonce", "time", "merkle", "version", "prev", "bits_off_by_one", "bits_easy", "bits_easy_bad",
	"bits_crash1", "bits_crash2", "bits_zero_exp", "bits_huge_exp", "bits_negative"}

func genTarget(r *coqfmt.Rand, id int) Case {
	n := 147 + r.Intn(60)
	c := Case{ID: id, Kind: "target"}
	t := uint32(1500000000)
	style := r.Intn(7)
	pool := []uint32{0x1c0fffff, 0x1c0ffffe, 0x1b7fffff, 0x1d00ffff, 0x1c7fffff, 0x18021fdb}
	same := pool[r.Intn(len(pool))]
	// style 6: a window at (or within a factor of two of) the proof-of-work limit with blocks a
	// little faster or slower than the schedule, so that the new target lands just below, at or
	// just above the limit (the cap must apply exactly from the limit on)
	nearStep := uint32(250 + r.Intn(500))
	nearLow := r.Chance(1, 4)
	for i := 0; i < n; i++ {
		switch style {
		case 0: // perfectly regular
			t += 600
		case 1: // jitter
			t += uint32(r.Intn(1200))
		case 2: // fast blocks (span below the lower clamp)
			t += uint32(r.Intn(120))
		case 3: // slow blocks (span above the upper clamp)
			t += 1500 + uint32(r.Intn(2000))
		case 4: // decreasing
			t -= uint32(r.Intn(300))
		case 5: // plateaus: ties among neighbours
			if r.Chance(1, 3) {
				t += 1800
			}
		default: // near the proof-of-work limit
			t += nearStep
		}
		tt := t
		// perturb the six sampled positions: ties, inversions, far future
		if (i >= n-3 || (i >= n-147 && i <= n-145)) && (style != 6 || r.Chance(1, 4)) {
			switch r.Intn(10) {
			case 0:
				tt = t + 7200
			case 1:
				if t > 5000 {
					tt = t - 5000
				}
			case 2:
				tt = t - t%3600 // likely ties
			case 3: // far future / far past: spans beyond 2^31 seconds in either direction
				tt = t + 0x80000000 + uint32(r.Intn(1000))
			case 4:
				tt = 0xffffffff - uint32(r.Intn(100))
			case 5:
				tt = uint32(r.Intn(100))
			}
		}
		c.Times = append(c.Times, tt)
		if style == 6 {
			if nearLow && r.Chance(1, 2) {
				c.BitsList = append(c.BitsList, 0x1c7fffff)
			} else {
				c.BitsList = append(c.BitsList, 0x1d00ffff)
			}
		} else if r.Chance(1, 2) {
			c.BitsList = append(c.BitsList, same)
		} else {
			c.BitsList = append(c.BitsList, pool[r.Intn(len(pool))])
		}
	}
	if r.Chance(1, 3) {
		c.ForkAt = 1 + r.Intn(n-2)
	}
	return c
}

func main() {
	out := flag.String("out", "", "output directory")
	seed := flag.Uint64("seed", 1, "PRNG seed")
	n := flag.Int("n", 300, "number of generated target/verdict cases (each)")
	shards := flag.Int("shards", 16, "number of cases files")
	replay := flag.String("replay", "", "JSON file with cases to re-execute instead of generating")
	_ = flag.String("tier", "quick", "quick|thorough")
	flag.Parse()
	os.MkdirAll(*out, 0o755)

	var cases []Case
	if *replay != "" {
		if err := coqfmt.ReadJSON(*replay, &cases); err != nil {
			fmt.Fprintln(os.Stderr, err)
			os.Exit(2)
		}
	} else {
		r := coqfmt.NewRand(*seed)
		add := func(c Case) { c.ID = len(cases); cases = append(cases, c) }
		// decode: every exponent byte x mantissa classes (exhaustive over the exponent)
		mants := []uint32{0, 1, 0x7fffff, 0x800000, 0x00ffff, 0x010000, 0xffffff, 0x0000ff, 0x00ff00}
		for e := uint32(0); e < 256; e++ {
			for _, m := range mants {
				add(Case{Kind: "decode", Bits: e<<24 | m})
			}
			add(Case{Kind: "decode", Bits: e<<24 | uint32(r.Intn(1<<24))})
		}
		// encode: decoded targets and random ones of every byte length
		for e := uint32(0); e < 40; e++ {
			for _, m := range []uint32{0x7fffff, 0x800000, 0x00ffff, 0x010000, 0xffffff, 1} {
				var t *big.Int
				func() {
					defer func() { recover() }()
					t = bitcoin.ConvertToDifficulty(e<<24 | m)
				}()
				if t != nil {
					add(Case{Kind: "encode", Target: t.String()})
				}
			}
			t := new(big.Int).Lsh(big.NewInt(int64(1+r.Intn(1<<30))), uint(r.Intn(240)))
			add(Case{Kind: "encode", Target: t.String()})
		}
		for i := 0; i < *n; i++ {
			add(genTarget(r.Fork(uint64(i)), 0))
		}
		// D2 witness shape: evenly spaced blocks of equal bits
		{
			c := Case{Kind: "target"}
			for i := 0; i < 160; i++ {
				c.Times = append(c.Times, 1500000000+uint32(600*i))
				c.BitsList = append(c.BitsList, 0x1c0fffff)
			}
			add(c)
		}
		// verdicts on the fixture chains: every real header, and mutations of sampled ones
		for _, fx := range []string{"725000", "556000"} {
			f := loadFixture(fx)
			for i := 1; i < len(f.hdrs); i++ {
				add(Case{Kind: "verdict", Fixture: fx, Index: i, Mutation: "real"})
			}
			for k := 0; k < *n; k++ {
				i := 1 + r.Intn(len(f.hdrs)-1)
				add(Case{Kind: "verdict", Fixture: fx, Index: i, Mutation: mutations[k%len(mutations)], Seed: r.U64()})
			}
			// real headers that extend a branch which is not the most work branch
			for k := 0; k < 6+*n/40; k++ {
				i := 200 + r.Intn(len(f.hdrs)-200)
				if fx == "556000" && i < 775 {
					i += 775 // the algorithm applies from 556767 on
				}
				if i >= len(f.hdrs) {
					i = len(f.hdrs) - 1
				}
				add(Case{Kind: "verdict_fork", Fixture: fx, Index: i, ForkAt: i - 1 - (3 + r.Intn(4)), Mutation: "real_on_lighter_branch", Seed: r.U64()})
			}
		}
	}

	// execute
	byFixture := map[string][]want{}
	for i := range cases {
		c := &cases[i]
		c.Ops = []int{}
		switch c.Kind {
		case "decode":
			decodeCase(c)
		case "encode":
			encodeCase(c)
		case "target":
			targetCase(c)
		case "verdict":
			byFixture[c.Fixture] = append(byFixture[c.Fixture], want{c.Index, c.Mutation, c.Seed, c})
		case "verdict_fork":
			forkVerdictCase(c)
		}
	}
	for fx, ws := range byFixture {
		runFixture(loadFixture(fx), ws)
	}

	stats := map[string]int{}
	distinct := map[string]bool{}
	for _, c := range cases {
		stats["kind_"+c.Kind]++
		if c.Kind == "verdict" {
			stats["mutation_"+c.Mutation]++
			i := strings.LastIndex(c.coq, ")")
			_ = i
			for _, v := range []string{"VOk", "VBadWork", "VBadBits", "VUnknown", "VOther", "None"} {
				if strings.HasSuffix(c.coq, v+")") || strings.HasSuffix(c.coq, v) {
					stats["observed_"+v]++
					break
				}
			}
		}
		if c.Kind != "decode" {
			distinct[c.coq] = true
		}
	}
	k := *shards
	if k > len(cases) {
		k = len(cases)
	}
	if k < 1 {
		k = 1
	}
	index := make([][]int, k)
	for s := 0; s < k; s++ {
		var part []string
		for i := s; i < len(cases); i += k {
			part = append(part, "("+cases[i].coq+")")
			index[s] = append(index[s], cases[i].ID)
		}
		path := filepath.Join(*out, fmt.Sprintf("cases_%d.v", s))
		if err := coqfmt.WriteCases(path, "From BR Require Import Base.Prelude Headers.Tree Headers.Pow.", "pcase", "pmismatches", part); err != nil {
			fmt.Fprintln(os.Stderr, err)
			os.Exit(2)
		}
	}
	coqfmt.WriteJSON(filepath.Join(*out, "cases.json"), cases)
	samples := []interface{}{}
	for _, kind := range []string{"decode", "target", "verdict"} {
		for _, c := range cases {
			if c.Kind == kind && (kind != "verdict" || c.Mutation == "bits_easy") {
				samples = append(samples, map[string]interface{}{"case": c, "coq": c.coq})
				break
			}
		}
	}
	coqfmt.WriteJSON(filepath.Join(*out, "stats.json"), map[string]interface{}{
		"evaluations":         len(cases),
		"distinct_nontrivial": len(distinct),
		"rule": "decode: all 256 exponent bytes x 10 mantissas (zero, sign bit, boundaries, random), each call in recover; encode: decoded and random targets of every byte length; target: Branch.Target on generated chains of 147-206 headers (regular, jitter, fast, slow, decreasing, plateau timestamps; ties/inversions/far-future at the six sampled positions; mixed bits; root branch or fork) compared with the network's algorithm; verdict: ProcessHeader with difficulty ON on every real header of the two fixture chains and on 13 kinds of single-field mutations of sampled real headers; distinct = distinct (inputs, observation) among non-decode cases",
		"distribution":        stats,
		"index":               index,
		"samples":             samples,
		"exhaustive":          false,
	})
}
