// Selection cases (C13: "never selected to serve header, transaction or block requests" unless
// verified): a real NodeManager holds real BitcoinNodes brought into chosen states over pipes -
// never connected, handshaking, verifying, ready, ready and busy with a block request, stopped -
// and is asked for headers (RequestHeaders) or for a block (RequestBlock); the peer whose
// connection receives the request is the node that was selected.  coq/Net/Select.v (nextNode)
// replays the same list of node states.
package main

import (
	"context"
	"fmt"
	"net"
	"sync/atomic"
	"time"

	bitcoin_reader "github.com/tokenized/bitcoin_reader"
	"github.com/tokenized/bitcoin_reader/headers"
	"github.com/tokenized/pkg/bitcoin"
	"github.com/tokenized/pkg/storage"
	"github.com/tokenized/pkg/wire"

	"verifharness/coqfmt"
)

type SelNode struct {
	State string `json:"state"` // fresh | handshaking | verifying | ready | busy | stopped
	Has   bool   `json:"has"`   // the peer announced headers up to the block that will be asked for
}

func (s *session) count(cmd string) int {
	s.mu.Lock()
	defer s.mu.Unlock()
	n := 0
	for _, c := range s.seen {
		if c == cmd {
			n++
		}
	}
	return n
}

// newSessionOn starts a node over a pipe on a shared header repository.
func newSessionOn(repo *headers.Repository, run bool) *session {
	ctx := coqfmt.QuietContext()
	s := &session{interrupt: make(chan interface{}), runDone: make(chan error, 1), pongs: map[uint64]bool{}}
	s.seenCond = newCond(s)
	cfg := bitcoin_reader.DefaultConfig()
	s.repo = &spyHeaders{Repository: repo, early: &s.early, sess: s}
	s.peersSpy = &spyPeers{early: &s.early, sess: s}
	s.node = bitcoin_reader.NewBitcoinNode("127.0.0.1:8333", "/verif:1/", cfg, s.repo, s.peersSpy)
	s.repo.node, s.peersSpy.node = s.node, s.node
	atomic.StoreInt32(&s.proved, 1)
	if !run {
		return s
	}
	nodeSide, peerSide := net.Pipe()
	s.peer = peerSide
	go func() { s.runDone <- s.node.VerifRun(ctx, nodeSide, s.interrupt) }()
	go s.readLoop()
	return s
}

func runSelect(c *Case) {
	ctx := coqfmt.QuietContext()
	repo := headers.NewRepository(headers.DefaultConfig(), storage.NewMockStorage())
	repo.DisableDifficulty()
	repo.InitializeWithGenesis()
	// the block that will be asked for: a few headers on top of genesis, known to the repository
	var chain []*wire.BlockHeader
	prev := repo.LastHash()
	t := repo.LastTime()
	for i := 0; i < 3; i++ {
		t += 600
		h := &wire.BlockHeader{Version: 1, PrevBlock: prev, Timestamp: t, Bits: 0x1d00ffff, Nonce: uint32(c.ID*10 + i)}
		if err := repo.ProcessHeader(ctx, h); err != nil {
			c.note = "setup"
		}
		chain = append(chain, h)
		prev = *h.BlockHash()
	}
	want := prev
	nm := bitcoin_reader.NewNodeManager("/verif:1/", bitcoin_reader.DefaultConfig(), repo, &spyPeers{early: new(int64), sess: &session{}})
	var sessions []*session
	var coqNodes []string
	send := func(s *session, st Step) {
		b, _ := s.bytesFor(st, 1)
		s.write(b)
	}
	for i, sn := range c.Sel {
		run := sn.State != "fresh"
		s := newSessionOn(repo, run)
		sessions = append(sessions, s)
		if run {
			send(s, Step{Cmd: "version"})
			s.waitFor("verack", time.Second)
			if sn.State != "handshaking" {
				send(s, Step{Cmd: "verack"})
				s.waitFor("getheaders", time.Second)
			}
			if sn.State == "ready" || sn.State == "busy" || sn.State == "stopped" {
				send(s, Step{Cmd: "headers", Variant: "bsv", Count: 1})
				s.waitFor("sendheaders", time.Second)
				if sn.Has { // announce the chain up to the wanted block
					s.write(frame("headers", headersPayload(chain)))
					pingBarrier(s, uint64(7000+i))
				}
			}
			if sn.State == "busy" {
				other := *chain[0].BlockHash()
				s.node.RequestBlock(ctx, other, func(ctx context.Context, h *wire.BlockHeader, n uint64, txs <-chan *wire.MsgTx) error {
					for range txs {
					}
					return nil
				}, func(context.Context) {})
				s.waitFor("getdata", time.Second)
			}
			if sn.State == "stopped" {
				close(s.interrupt)
				s.peer.Close()
				select {
				case <-s.runDone:
				case <-time.After(3 * time.Second):
					c.note = "node did not stop"
				}
			}
		}
		nm.VerifAddNode(s.node)
		ready := s.node.IsReady()
		coqNodes = append(coqNodes, fmt.Sprintf("mkNd %d %s %s %s %s", i+1, coqfmt.Bool(s.node.IsStopped()), coqfmt.Bool(ready),
			coqfmt.Bool(s.node.IsBusy()), coqfmt.Bool(s.node.HasBlock(ctx, want, 3))))
		// the states must be what the script intended (otherwise the case tests nothing)
		if (sn.State == "ready" || sn.State == "busy") != ready {
			c.note = "state not reached: " + sn.State
		}
	}
	nm.VerifSetNextNodeOffset(c.SelOff)
	// everything the nodes sent on their own (accept sends getheaders, ...) must be in before the
	// request is made: a pong comes back through the same ordered outgoing channel
	for i, s := range sessions {
		if s.peer != nil && !s.node.IsStopped() {
			pingBarrier(s, uint64(8000+i))
		}
	}
	before := make([]int, len(sessions))
	cmd := "getheaders"
	if c.SelBlock {
		cmd = "getdata"
	}
	for i, s := range sessions {
		before[i] = s.count(cmd)
	}
	if c.SelBlock {
		nm.RequestBlock(ctx, want, func(ctx context.Context, h *wire.BlockHeader, n uint64, txs <-chan *wire.MsgTx) error {
			for range txs {
			}
			return nil
		}, func(context.Context) {})
	} else {
		nm.RequestHeaders(ctx)
	}
	chosen := "None"
	deadline := time.Now().Add(400 * time.Millisecond)
	for time.Now().Before(deadline) && chosen == "None" {
		for i, s := range sessions {
			if s.seenCond != nil && s.peer != nil && s.count(cmd) > before[i] {
				if chosen != "None" {
					c.note = "two nodes received the request"
				}
				chosen = fmt.Sprintf("(Some %d)", i+1)
			}
		}
		time.Sleep(5 * time.Millisecond)
	}
	for _, s := range sessions {
		if s.peer != nil {
			select {
			case <-s.interrupt:
			default:
				close(s.interrupt)
			}
			s.peer.Close()
		}
	}
	if c.note != "" {
		chosen = "(Some 999)"
	}
	c.coq = fmt.Sprintf("(mkSelCase %s %s %d%%nat %s)", coqfmt.Bool(c.SelBlock), coqfmt.List(coqNodes), c.SelOff, chosen)
}

// pingBarrier makes sure everything sent before has been handled.
func pingBarrier(s *session, nonce uint64) {
	p := make([]byte, 8)
	for i := 0; i < 8; i++ {
		p[i] = byte(nonce >> (8 * uint(i)))
	}
	s.write(frame("ping", p))
	deadline := time.Now().Add(time.Second)
	for time.Now().Before(deadline) {
		s.mu.Lock()
		ok := s.pongs[nonce]
		s.mu.Unlock()
		if ok {
			return
		}
		time.Sleep(2 * time.Millisecond)
	}
}

func genSelect(r *coqfmt.Rand, id int) Case {
	c := Case{ID: id, Kind: "select", SelBlock: r.Chance(1, 2)}
	n := 1 + r.Intn(5)
	states := []string{"fresh", "handshaking", "verifying", "ready", "ready", "ready", "busy", "stopped"}
	for i := 0; i < n; i++ {
		c.Sel = append(c.Sel, SelNode{State: states[r.Intn(len(states))], Has: r.Chance(2, 3)})
	}
	c.SelOff = r.Intn(n + 2)
	return c
}

var _ = bitcoin.Hash32{}
