// netsim: correspondence harness for C13, C14, C15 (and the peer side of C03) against
// coq/Net/NodeFSM.v.  A real BitcoinNode runs over a net.Pipe (hook VerifRun) against a scripted
// peer; the header repository, the address book and the tx processor are spies that record every
// call together with whether the node counted as verified at that moment.
//
//   session cases (C13/C14): the peer follows a script of messages; deterministic scripts wait
//     for the node's answers between phases so that the interleaving with the handshake thread is
//     known and the final flags can be compared with the model; racy scripts send everything at
//     once and only the properties themselves are checked.  Every session ends with a ping.
//   byte cases (C15): structured mutants of valid frames and random bytes are fed at three
//     stages to a node running in a child process; the exit status, panic output and whether Run
//     returned are the observables.
package main

import (
	"bytes"
	"context"
	"crypto/sha256"
	"encoding/binary"
	"encoding/hex"
	"encoding/json"
	"flag"
	"fmt"
	"io"
	"net"
	"os"
	"os/exec"
	"path/filepath"
	"strings"
	"sync"
	"sync/atomic"
	"time"

	bitcoin_reader "github.com/tokenized/bitcoin_reader"
	"github.com/tokenized/bitcoin_reader/headers"
	"github.com/tokenized/pkg/bitcoin"
	"github.com/tokenized/pkg/merkle_proof"
	"github.com/tokenized/pkg/storage"
	"github.com/tokenized/pkg/wire"

	"verifharness/coqfmt"
)

// ---- frames -------------------------------------------------------------------------------------

var magic = uint32(bitcoin.MainNet)

func dsha(b []byte) [32]byte {
	a := sha256.Sum256(b)
	return sha256.Sum256(a[:])
}

func frame(cmd string, payload []byte) []byte {
	var b bytes.Buffer
	binary.Write(&b, binary.LittleEndian, magic)
	var c [12]byte
	copy(c[:], cmd)
	b.Write(c[:])
	binary.Write(&b, binary.LittleEndian, uint32(len(payload)))
	sum := dsha(payload)
	b.Write(sum[:4])
	b.Write(payload)
	return b.Bytes()
}

func extFrame(cmd string, payload []byte, declared uint64) []byte {
	var b bytes.Buffer
	binary.Write(&b, binary.LittleEndian, magic)
	var c [12]byte
	copy(c[:], "extmsg")
	b.Write(c[:])
	binary.Write(&b, binary.LittleEndian, uint32(0xffffffff))
	b.Write([]byte{0, 0, 0, 0})
	var e [12]byte
	copy(e[:], cmd)
	b.Write(e[:])
	binary.Write(&b, binary.LittleEndian, declared)
	b.Write(payload)
	return b.Bytes()
}

func encode(m wire.Message) []byte {
	var b bytes.Buffer
	m.BtcEncode(&b, wire.ProtocolVersion)
	return b.Bytes()
}

var fixture []*wire.BlockHeader

func loadFixture() {
	b, err := os.ReadFile("/repo/headers/test_fixtures/headers_556000.txt")
	if err == nil {
		err = json.Unmarshal(b, &fixture)
	}
	if err != nil {
		fmt.Fprintln(os.Stderr, err)
		os.Exit(2)
	}
}

func bchHeader() *wire.BlockHeader {
	mr, _ := bitcoin.NewHash32FromStr("1cf31105bd6b1b4dba9ae55290ec06fff15b4567ec62a6e3863409bb3efd1944")
	return &wire.BlockHeader{Version: 0x20000000, PrevBlock: *fixture[766].BlockHash(), MerkleRoot: *mr,
		Timestamp: 1542304936, Bits: 402792411, Nonce: 3911120513}
}

func headersPayload(hs []*wire.BlockHeader) []byte {
	var b bytes.Buffer
	wire.WriteVarInt(&b, 0, uint64(len(hs)))
	for _, h := range hs {
		h.Serialize(&b)
		b.WriteByte(0)
	}
	return b.Bytes()
}

func mkTx(seed uint32, outputs int) *wire.MsgTx {
	tx := wire.NewMsgTx(1)
	tx.LockTime = seed
	for i := 0; i < outputs; i++ {
		tx.AddTxOut(wire.NewTxOut(uint64(i), bytes.Repeat([]byte{0x6a}, 20)))
	}
	return tx
}

// ---- script ---------------------------------------------------------------------------------------

type Step struct {
	K       string `json:"k"` // send | wait | request_block
	// send: do not write this message on its own but together with the next one (one write on the
	// connection: what a peer's coalesced TCP segments look like to a reader that reads ahead)
	Join bool `json:"join,omitempty"`
	Cmd     string `json:"cmd,omitempty"`
	Ext     bool   `json:"ext,omitempty"`
	Count   int    `json:"count,omitempty"`
	Variant string `json:"variant,omitempty"`
	Size    int    `json:"size,omitempty"`
	Raw     string `json:"raw,omitempty"` // hex, byte cases
}

type Case struct {
	ID         int    `json:"id"`
	Kind       string `json:"kind"` // session | bytes
	VerifyOnly bool   `json:"verify_only"`
	HasTxm     bool   `json:"has_txm"`
	Racy       bool   `json:"racy"`
	Ops        []Step `json:"ops"`
	Stage      string `json:"stage,omitempty"` // bytes: pre | verify | ready
	// select: states of the manager's nodes, round-robin offset, block (true) or headers request
	Sel      []SelNode `json:"sel,omitempty"`
	SelOff   int       `json:"sel_off,omitempty"`
	SelBlock bool      `json:"sel_block,omitempty"`
	Trigger    string `json:"trigger,omitempty"` // set by the run: which known failure signature was seen
	Output     string `json:"output,omitempty"`  // tail of the worker's output when it died
	coq        string
	note       string
	outcome    string
}

// ---- spies ------------------------------------------------------------------------------------------

type spyHeaders struct {
	*headers.Repository
	sess   *session
	node   *bitcoin_reader.BitcoinNode
	early  *int64
	procs  int64
	verifs int64
}

func (s *spyHeaders) ProcessHeader(ctx context.Context, h *wire.BlockHeader) error {
	atomic.AddInt64(&s.procs, 1)
	if !s.node.Verified() || s.sess.unproven() {
		atomic.AddInt64(s.early, 1)
	}
	return s.Repository.ProcessHeader(ctx, h)
}
func (s *spyHeaders) VerifyHeader(ctx context.Context, h *wire.BlockHeader) error {
	atomic.AddInt64(&s.verifs, 1)
	return s.Repository.VerifyHeader(ctx, h)
}

type spyPeers struct {
	sess  *session
	node  *bitcoin_reader.BitcoinNode
	early *int64
	adds  int64
}

func (s *spyPeers) Add(ctx context.Context, address string) (bool, error) {
	atomic.AddInt64(&s.adds, 1)
	if !s.node.Verified() || s.sess.unproven() {
		atomic.AddInt64(s.early, 1)
	}
	return true, nil
}
func (s *spyPeers) Get(ctx context.Context, a, b int32) (bitcoin_reader.PeerList, error) { return nil, nil }
func (s *spyPeers) UpdateTime(ctx context.Context, a string) bool                        { return true }
func (s *spyPeers) UpdateScore(ctx context.Context, a string, d int32) bool              { return true }

type spyProc struct {
	sess  *session
	node  *bitcoin_reader.BitcoinNode
	early *int64
	txs   int64
}

func (s *spyProc) ProcessTx(ctx context.Context, tx *wire.MsgTx) (bool, error) {
	atomic.AddInt64(&s.txs, 1)
	if !s.node.Verified() || s.sess.unproven() {
		atomic.AddInt64(s.early, 1)
	}
	return false, nil
}
func (s *spyProc) CancelTx(ctx context.Context, t bitcoin.Hash32) error                      { return nil }
func (s *spyProc) AddTxConflict(ctx context.Context, a, b bitcoin.Hash32) error              { return nil }
func (s *spyProc) UpdateTxChainDepth(ctx context.Context, t bitcoin.Hash32, d uint32) error  { return nil }
func (s *spyProc) ProcessCoinbaseTx(ctx context.Context, b bitcoin.Hash32, t *wire.MsgTx) error { return nil }
func (s *spyProc) ConfirmTx(ctx context.Context, t bitcoin.Hash32, h int, p *merkle_proof.MerkleProof) error {
	return nil
}

// ---- session ------------------------------------------------------------------------------------------

type session struct {
	node      *bitcoin_reader.BitcoinNode
	peer      net.Conn
	repo      *spyHeaders
	peersSpy  *spyPeers
	proc      *spyProc
	early     int64
	interrupt chan interface{}
	runDone   chan error
	mu        sync.Mutex
	seen      []string // commands received from the node, in order
	seenCond  *sync.Cond
	getdata   int64
	earlyGetdata int64
	closed    int32
	pongs     map[uint64]bool
	blockCalls int64
	lastPing   uint64
	lastBlock  bitcoin.Hash32
	// what the peer has really done so far, independent of the node's own flags: it may count as
	// proven only after it sent version and verack and then a reply starting with the BSV header
	sentVersion, sentVerack bool
	proved                  int32
}

func (s *session) unproven() bool { return atomic.LoadInt32(&s.proved) == 0 }

func newSession(c *Case) *session {
	ctx := coqfmt.QuietContext()
	s := &session{interrupt: make(chan interface{}), runDone: make(chan error, 1), pongs: map[uint64]bool{}}
	s.seenCond = sync.NewCond(&s.mu)
	repo := headers.NewRepository(headers.DefaultConfig(), storage.NewMockStorage())
	repo.DisableDifficulty()
	repo.InitializeWithGenesis()
	cfg := bitcoin_reader.DefaultConfig()
	s.repo = &spyHeaders{Repository: repo, early: &s.early, sess: s}
	s.peersSpy = &spyPeers{early: &s.early, sess: s}
	s.node = bitcoin_reader.NewBitcoinNode("127.0.0.1:8333", "/verif:1/", cfg, s.repo, s.peersSpy)
	s.repo.node, s.peersSpy.node = s.node, s.node
	if c.HasTxm {
		txm := bitcoin_reader.NewTxManager(2 * time.Second)
		s.proc = &spyProc{node: s.node, early: &s.early, sess: s}
		txm.SetTxProcessor(s.proc)
		go txm.Run(ctx)
		s.node.SetTxManager(txm)
	}
	if c.VerifyOnly {
		s.node.SetVerifyOnly()
	}
	nodeSide, peerSide := net.Pipe()
	s.peer = peerSide
	go func() {
		err := s.node.VerifRun(ctx, nodeSide, s.interrupt)
		if os.Getenv("VERIF_DEBUG") != "" {
			fmt.Fprintln(os.Stderr, "case", c.ID, "run returned:", err)
		}
		s.runDone <- err
	}()
	go s.readLoop()
	return s
}

func newCond(s *session) *sync.Cond { return sync.NewCond(&s.mu) }

// readLoop collects the frames the node sends (the pipe is synchronous: somebody must read).
func (s *session) readLoop() {
	hdr := make([]byte, 24)
	for {
		s.peer.SetReadDeadline(time.Now().Add(5 * time.Second))
		if _, err := io.ReadFull(s.peer, hdr); err != nil {
			atomic.StoreInt32(&s.closed, 1)
			s.mu.Lock()
			s.seenCond.Broadcast()
			s.mu.Unlock()
			return
		}
		cmd := string(bytes.TrimRight(hdr[4:16], "\x00"))
		l := binary.LittleEndian.Uint32(hdr[16:20])
		payload := make([]byte, l)
		if _, err := io.ReadFull(s.peer, payload); err != nil {
			atomic.StoreInt32(&s.closed, 1)
			return
		}
		if cmd == "pong" && len(payload) == 8 {
			s.mu.Lock()
			s.pongs[binary.LittleEndian.Uint64(payload)] = true
			s.mu.Unlock()
		}
		if cmd == "ping" && len(payload) == 8 {
			atomic.StoreUint64(&s.lastPing, binary.LittleEndian.Uint64(payload))
		}
		if cmd == "getdata" {
			atomic.AddInt64(&s.getdata, 1)
			if !s.node.Verified() || s.unproven() {
				atomic.AddInt64(&s.earlyGetdata, 1)
			}
		}
		s.mu.Lock()
		s.seen = append(s.seen, cmd)
		s.seenCond.Broadcast()
		s.mu.Unlock()
	}
}

func (s *session) waitFor(cmd string, d time.Duration) bool {
	deadline := time.Now().Add(d)
	s.mu.Lock()
	defer s.mu.Unlock()
	for {
		for _, c := range s.seen {
			if c == cmd {
				return true
			}
		}
		if atomic.LoadInt32(&s.closed) == 1 || time.Now().After(deadline) {
			return false
		}
		go func() { time.Sleep(10 * time.Millisecond); s.mu.Lock(); s.seenCond.Broadcast(); s.mu.Unlock() }()
		s.seenCond.Wait()
	}
}

func (s *session) write(b []byte) bool {
	s.peer.SetWriteDeadline(time.Now().Add(3 * time.Second))
	_, err := s.peer.Write(b)
	return err == nil
}

// bytesFor builds the frame of a scripted message and the model's message term.
func (s *session) bytesFor(st Step, id int) ([]byte, string) {
	ext := func(cmd string, p []byte) []byte {
		if st.Ext {
			return extFrame(cmd, p, uint64(len(p)))
		}
		return frame(cmd, p)
	}
	switch st.Cmd {
	case "version":
		me := wire.NewNetAddressIPPort(net.IPv4(127, 0, 0, 1), 8333, 0)
		v := wire.NewMsgVersion(me, me, 77, 100)
		v.UserAgent = "/peer:1/"
		return frame("version", encode(v)), "MVersion"
	case "verack":
		return frame("verack", nil), "MVerack"
	case "protoconf":
		return frame("protoconf", encode(wire.NewMsgProtoconf())), "MProtoconf"
	case "ping":
		p := make([]byte, 8)
		binary.LittleEndian.PutUint64(p, uint64(1000+id))
		return frame("ping", p), "MPing"
	case "pong":
		p := make([]byte, 8)
		if st.Variant == "wrong" {
			binary.LittleEndian.PutUint64(p, 12345)
			return frame("pong", p), "MPong false"
		}
		// answer the ping the node sent when it started (its nonce is zero when it has not pinged)
		if s.seenCond != nil {
			s.waitFor("ping", 300*time.Millisecond)
		}
		binary.LittleEndian.PutUint64(p, atomic.LoadUint64(&s.lastPing))
		return frame("pong", p), "MPong true"
	case "reject":
		return frame("reject", encode(wire.NewMsgReject("tx", wire.RejectInvalid, "no"))), "MReject"
	case "headers":
		var hs []*wire.BlockHeader
		cls := "HUnknown"
		allOK := true
		switch st.Variant {
		case "bsv":
			hs = append(hs, fixture[767])
			cls = "HBsv"
		case "bch":
			hs = append(hs, bchHeader())
			cls = "HForeign"
		case "random":
			hs = append(hs, &wire.BlockHeader{Version: 1, PrevBlock: *fixture[5].BlockHash(), Timestamp: 1600000000, Bits: 0x1d00ffff, Nonce: uint32(id)})
		case "empty":
		case "aftergenesis": // a block-1 header: what a peer sharing none of our locator hashes sends
			if g, err := s.repo.Header(coqfmt.QuietContext(), 0); err == nil {
				hs = append(hs, &wire.BlockHeader{Version: 1, PrevBlock: *g.BlockHash(), Timestamp: g.Timestamp + 600, Bits: 0x1d00ffff, Nonce: uint32(id)})
			}
			allOK = false
		case "known": // a header the repository already holds (shared by every fork: proves nothing)
			// (the genesis header: offered again in tracking mode it is refused - its parent is
			// looked up before the duplicate check - so it is not an "accepted" header either)
			if h, err := s.repo.Header(coqfmt.QuietContext(), 0); err == nil {
				hs = append(hs, h)
			}
			allOK = false
		case "extend": // headers that extend what the repository holds
			prev := s.repo.LastHash()
			t := s.repo.LastTime()
			for i := 0; i < st.Count; i++ {
				t += 600
				h := &wire.BlockHeader{Version: 1, PrevBlock: prev, Timestamp: t, Bits: 0x1d00ffff, Nonce: uint32(id*100 + i)}
				hs = append(hs, h)
				prev = *h.BlockHash()
			}
		case "orphan":
			hs = append(hs, &wire.BlockHeader{Version: 1, PrevBlock: *fixture[9].BlockHash(), Timestamp: 1600000000, Bits: 0x1d00ffff, Nonce: uint32(id)})
			allOK = false
		}
		if st.Variant == "bsv" || st.Variant == "bch" || st.Variant == "random" {
			for i := 1; i < st.Count; i++ {
				hs = append(hs, fixture[767+i])
			}
			allOK = false // irrelevant before ready; after ready these do not attach
		}
		return frame("headers", headersPayload(hs)), fmt.Sprintf("MHeaders %d %s %s", len(hs), cls, coqfmt.Bool(allOK))
	case "addr":
		m := wire.NewMsgAddr()
		for i := 0; i < st.Count; i++ {
			m.AddAddress(wire.NewNetAddressIPPort(net.IPv4(10, 0, byte(i>>8), byte(i)), 8333, 1))
		}
		return frame("addr", encode(m)), fmt.Sprintf("MAddr %d", st.Count)
	case "getaddr":
		return frame("getaddr", nil), "MGetAddr"
	case "sendheaders":
		return frame("sendheaders", nil), "MSendHeaders"
	case "inv":
		m := wire.NewMsgInv()
		for i := 0; i < st.Count; i++ {
			h := mkTx(uint32(id*1000+i), 1).TxHash()
			t := wire.InvTypeTx
			if st.Variant == "mixed" { // block announcements and other item types between the tx items
				t = []wire.InvType{wire.InvTypeTx, wire.InvTypeBlock, wire.InvTypeBlock, wire.InvTypeFilteredBlock, wire.InvTypeError}[(id+i*i+st.Count)%5]
			}
			m.AddInvVect(wire.NewInvVect(t, h))
		}
		return frame("inv", encode(m)), fmt.Sprintf("MInv %d", st.Count)
	case "tx":
		tx := mkTx(uint32(id*7919+st.Size), 1+st.Size/30)
		var b bytes.Buffer
		tx.Serialize(&b)
		return ext("tx", b.Bytes()), "MTx " + coqfmt.Bool(st.Ext)
	case "block":
		var b bytes.Buffer
		n := 1 + st.Count
		txs := make([]*wire.MsgTx, n)
		tree := merkle_proof.NewMerkleTree(false)
		for i := range txs {
			txs[i] = mkTx(uint32(id*100+i), 2)
			tree.AddHash(*txs[i].TxHash())
		}
		h := &wire.BlockHeader{Version: 1, Timestamp: 1600000000, Bits: 0x1d00ffff, Nonce: uint32(id), MerkleRoot: tree.RootHash()}
		h.Serialize(&b)
		wire.WriteVarInt(&b, 0, uint64(n))
		for _, tx := range txs {
			tx.Serialize(&b)
		}
		s.lastBlock = *h.BlockHash()
		return ext("block", b.Bytes()), "MBlock " + coqfmt.Bool(st.Ext)
	default: // a command the reader has no handler for
		p := bytes.Repeat([]byte{0xab}, st.Size)
		cmd := st.Cmd
		if cmd == "" {
			cmd = "foobar"
		}
		return ext(cmd, p), "MOther " + coqfmt.Bool(st.Ext)
	}
}

func runSession(c *Case) {
	s := newSession(c)
	var acts []string
	ok := true
	var pending []byte // messages held back to be written together with the next one
	for i, st := range c.Ops {
		switch st.K {
		case "send":
			b, term := s.bytesFor(st, c.ID*50+i)
			if st.Cmd == "block" {
				requested := false
				if st.Variant == "wrongreq" && s.node.IsReady() {
					// a request for some other block is outstanding when this block arrives
					var other bitcoin.Hash32
					copy(other[:], s.lastBlock[:])
					other[0] ^= 0xff
					if s.node.RequestBlock(coqfmt.QuietContext(), other,
						func(ctx context.Context, h *wire.BlockHeader, n uint64, txs <-chan *wire.MsgTx) error {
							for range txs {
							}
							return nil
						}, func(context.Context) {}) == nil {
						s.waitFor("getdata", 500*time.Millisecond)
					}
				}
				if st.Variant == "requested" && s.node.IsReady() {
					abort := st.Count%3 == 2
					err := s.node.RequestBlock(coqfmt.QuietContext(), s.lastBlock,
						func(ctx context.Context, h *wire.BlockHeader, n uint64, txs <-chan *wire.MsgTx) error {
							atomic.AddInt64(&s.blockCalls, 1)
							if !s.node.Verified() {
								atomic.AddInt64(&s.early, 1)
							}
							for range txs {
							}
							if abort {
								return fmt.Errorf("handler gives up")
							}
							return nil
						}, func(context.Context) {})
					requested = err == nil
					if requested {
						s.waitFor("getdata", 500*time.Millisecond)
					}
				}
				term += " " + coqfmt.Bool(requested)
			}
			if s.node.IsReady() && (!s.node.Verified() || s.unproven()) {
				atomic.AddInt64(&s.early, 1) // selectable (ready) before verified
			}
			switch {
			case st.Cmd == "version":
				s.sentVersion = true
			case st.Cmd == "verack":
				s.sentVerack = true
			case st.Cmd == "headers" && st.Variant == "bsv" && s.sentVersion && s.sentVerack:
				atomic.StoreInt32(&s.proved, 1)
			}
			pending = append(pending, b...)
			if !(st.Join && (i+1 == len(c.Ops) || c.Ops[i+1].K == "send")) {
				if !s.write(pending) {
					ok = false
				}
				pending = nil
			}
			acts = append(acts, "ARecv ("+term+")")
		case "settle": // give the handshake thread time to take the message off its channel
			time.Sleep(60 * time.Millisecond)
			acts = append(acts, "AHs")
		case "wait":
			if s.waitFor(st.Cmd, 1500*time.Millisecond) {
				// the handshake thread consumed a message to produce this answer
				if st.Cmd == "verack" || st.Cmd == "getheaders" {
					acts = append(acts, "AHs")
				}
			}
		}
		if !ok {
			break
		}
	}
	// final ping
	time.Sleep(30 * time.Millisecond)
	nonce := uint64(900000 + c.ID)
	p := make([]byte, 8)
	binary.LittleEndian.PutUint64(p, nonce)
	pong := false
	if s.write(append(pending, frame("ping", p)...)) {
		deadline := time.Now().Add(1500 * time.Millisecond)
		for time.Now().Before(deadline) {
			s.mu.Lock()
			pong = s.pongs[nonce]
			s.mu.Unlock()
			if pong || atomic.LoadInt32(&s.closed) == 1 {
				break
			}
			time.Sleep(5 * time.Millisecond)
		}
	}
	verified, ready := s.node.Verified(), s.node.IsReady()
	if (verified || ready) && s.unproven() {
		atomic.AddInt64(&s.early, 1) // verified or selectable without a completed handshake and proof
	}
	closed := atomic.LoadInt32(&s.closed) == 1
	if !closed && !pong {
		// neither answered nor closed: give the connection a moment to close
		time.Sleep(100 * time.Millisecond)
		closed = atomic.LoadInt32(&s.closed) == 1
	}
	early := atomic.LoadInt64(&s.early) + atomic.LoadInt64(&s.earlyGetdata)
	// shut down: Run must return
	close(s.interrupt)
	s.peer.Close()
	returned := false
	select {
	case <-s.runDone:
		returned = true
	case <-time.After(3 * time.Second):
	}
	if !returned {
		early += 1000 // Run did not return: force a mismatch
	}
	c.outcome = fmt.Sprintf("verified=%v ready=%v closed=%v pong=%v", verified, ready, closed, pong)
	c.coq = fmt.Sprintf("(mkNCase %s %s %s %d %s %s %s %s %s)", coqfmt.Bool(c.VerifyOnly), coqfmt.Bool(c.HasTxm),
		coqfmt.List(acts), early, coqfmt.Bool(verified), coqfmt.Bool(ready), coqfmt.Bool(closed), coqfmt.Bool(pong), coqfmt.Bool(!c.Racy))
}

// ---- byte cases (child process) ------------------------------------------------------------------------

// worker: runs one node against the given byte chunks at the given stage, prints RUN_RETURNED when
// Run came back after the peer closed.  A panic kills this process (exit status 2).
func worker(path string) {
	var c Case
	if err := coqfmt.ReadJSON(path, &c); err != nil {
		os.Exit(3)
	}
	loadFixture()
	s := newSession(&c)
	send := func(cmd, variant string, count int) {
		b, _ := s.bytesFor(Step{Cmd: cmd, Variant: variant, Count: count}, 1)
		s.write(b)
	}
	atomic.StoreInt32(&s.proved, 1) // byte cases do not judge C13
	if c.Stage != "pre" {
		send("version", "", 0)
		s.waitFor("verack", time.Second)
		send("verack", "", 0)
		s.waitFor("getheaders", time.Second)
	}
	if c.Stage == "ready" || c.Stage == "blockreq" {
		send("headers", "bsv", 1)
		s.waitFor("sendheaders", time.Second)
	}
	if c.Stage == "blockreq" && len(c.Ops) > 0 {
		// the block whose header opens the peer's bytes has been requested from this node
		if raw, _ := hex.DecodeString(c.Ops[0].Raw); len(raw) >= 24+80 {
			off := 24
			if string(bytes.TrimRight(raw[4:16], "\x00")) == "extmsg" && len(raw) >= 44+80 {
				off = 44
			}
			h := &wire.BlockHeader{}
			if err := h.Deserialize(bytes.NewReader(raw[off : off+80])); err == nil {
				s.node.RequestBlock(coqfmt.QuietContext(), *h.BlockHash(),
					func(ctx context.Context, hd *wire.BlockHeader, n uint64, txs <-chan *wire.MsgTx) error {
						for range txs {
						}
						return nil
					}, func(context.Context) {})
				s.waitFor("getdata", time.Second)
			}
		}
	}
	for _, st := range c.Ops {
		raw, _ := hex.DecodeString(st.Raw)
		// large declared lengths come with little data: write what there is
		s.peer.SetWriteDeadline(time.Now().Add(1500 * time.Millisecond))
		s.peer.Write(raw)
	}
	time.Sleep(150 * time.Millisecond)
	s.peer.Close()
	select {
	case <-s.runDone:
		fmt.Println("RUN_RETURNED")
	case <-time.After(4 * time.Second):
		fmt.Println("RUN_HUNG")
	}
}

func le32(v uint32) []byte { b := make([]byte, 4); binary.LittleEndian.PutUint32(b, v); return b }

func genBytes(r *coqfmt.Rand, id int) Case {
	c := Case{ID: id, Kind: "bytes", HasTxm: true, Stage: []string{"pre", "verify", "ready"}[r.Intn(3)]}
	s := &session{}
	valid := func() []byte {
		st := Step{Cmd: []string{"version", "verack", "ping", "headers", "addr", "inv", "tx", "block", "protoconf", "reject", "foobar"}[r.Intn(11)],
			Variant: []string{"bsv", "random", "empty"}[r.Intn(3)], Count: 1 + r.Intn(4), Size: r.Intn(300), Ext: r.Chance(1, 4)}
		if st.Cmd == "headers" && st.Variant == "extend" {
			st.Variant = "random"
		}
		b, _ := s.bytesFor(st, id)
		return b
	}
	var raw []byte
	switch r.Pick(3, 2, 2, 2, 2, 2, 2, 2, 2, 2, 4, 2) {
	case 11: // the requested block arrives: complete, cut short, or with a transaction that does not decode
		c.Stage = "blockreq"
		h := &wire.BlockHeader{Version: 1, PrevBlock: *fixture[3].BlockHash(), Timestamp: 1600000000, Bits: 0x1d00ffff, Nonce: uint32(id)}
		var p bytes.Buffer
		h.Serialize(&p)
		n := 1 + r.Intn(3)
		p.WriteByte(byte(n))
		for i := 0; i < n; i++ {
			mkTx(uint32(id*10+i), 1+r.Intn(3)).Serialize(&p)
		}
		body := p.Bytes()
		switch r.Intn(4) {
		case 0: // complete
			raw = frame("block", body)
		case 1: // the stream ends inside a transaction (the frame declares the full length)
			raw = frame("block", body)
			raw = raw[:len(raw)-1-r.Intn(20)]
		case 2: // a transaction declares 2^64-1 inputs
			bad := append([]byte{}, body[:81]...)
			bad = append(bad, []byte{1, 0, 0, 0, 0xff, 0xff, 0xff, 0xff, 0xff, 0xff, 0xff, 0xff, 0xff}...)
			bad = append(bad, bytes.Repeat([]byte{9}, 40)...)
			raw = frame("block", bad)
		default: // more transactions announced than follow, then the next message
			bad := append([]byte{}, body...)
			bad[80] = byte(n + 2)
			raw = append(frame("block", bad), frame("ping", make([]byte, 8))...)
		}
		if r.Chance(1, 4) {
			raw = append(raw, frame("ping", make([]byte, 8))...)
		}
	case 10: // well-formed frames, unmodified (the node state decides what they meet)
		for i := 0; i <= r.Intn(3); i++ {
			raw = append(raw, valid()...)
		}
	case 0: // random bytes
		raw = make([]byte, r.Intn(120))
		for i := range raw {
			raw[i] = byte(r.Intn(256))
		}
	case 1: // corrupt checksum
		raw = valid()
		if len(raw) >= 24 {
			raw[20] ^= 0xff
		}
	case 2: // wrong declared length (classic header)
		raw = valid()
		if len(raw) >= 24 {
			copy(raw[16:20], le32([]uint32{0, 1, 0x7fffffff, 0xfffffffe, uint32(len(raw))}[r.Intn(5)]))
		}
	case 3: // truncated
		raw = valid()
		raw = raw[:r.Intn(len(raw)+1)]
	case 4: // extended header with an absurd length (D17)
		l := []uint64{1 << 63, 0xffffffffffffffff, 1 << 40, 1 << 32, 5}[r.Intn(5)]
		raw = extFrame([]string{"tx", "block", "foobar"}[r.Intn(3)], []byte{1, 2, 3, 4, 5}, l)
	case 5: // hostile counts: varint 2^40 or 2^64-1 in headers / inv / addr / tx inputs
		big := []byte{0xff, 0, 0, 0, 0, 0, 1, 0, 0}
		if r.Chance(1, 3) { // 2^64-1: beyond what a slice can be sized to at all
			big = []byte{0xff, 0xff, 0xff, 0xff, 0xff, 0xff, 0xff, 0xff, 0xff}
		}
		cmd := []string{"headers", "inv", "addr", "tx", "tx_script", "tx_outputs", "block_txs", "reject", "version"}[r.Intn(9)]
		p := append([]byte{}, big...)
		switch cmd {
		case "tx": // version, input count
			p = append([]byte{1, 0, 0, 0}, big...)
		case "tx_script": // version, 1 input, outpoint, script length
			cmd = "tx"
			p = append([]byte{1, 0, 0, 0, 1}, make([]byte, 36)...)
			p = append(p, big...)
		case "tx_outputs": // version, 0 inputs, output count
			cmd = "tx"
			p = append([]byte{1, 0, 0, 0, 0}, big...)
		case "block_txs": // 80-byte header, tx count (handled only when that block is requested: discarded otherwise)
			cmd = "block"
			p = append(make([]byte, 80), big...)
		case "reject": // string lengths
			p = append([]byte{}, big...)
		case "version": // fixed part, then a user agent length
			p = append(make([]byte, 80), big...)
		}
		p = append(p, bytes.Repeat([]byte{7}, r.Intn(100))...)
		raw = frame(cmd, p)
	case 6: // header fields: bits that crash the converter (D5), extreme timestamps
		h := &wire.BlockHeader{Version: 1, PrevBlock: *fixture[0].BlockHash(), Timestamp: []uint32{0, 0xffffffff, 1600000000}[r.Intn(3)],
			Bits: []uint32{0x01010000, 0x02000100, 0, 0xff000001, 0x1d00ffff, 0x1d800000}[r.Intn(6)], Nonce: uint32(id)}
		raw = frame("headers", headersPayload([]*wire.BlockHeader{h}))
	case 7: // wrong magic
		raw = valid()
		if len(raw) >= 4 {
			raw[0] ^= 1
		}
	case 8: // invalid utf8 command
		raw = valid()
		if len(raw) >= 24 {
			raw[4], raw[5] = 0xff, 0xfe
		}
	default: // many version/verack after the handshake (D16) then a ping
		for i := 0; i < 14; i++ {
			raw = append(raw, frame("verack", nil)...)
		}
		raw = append(raw, frame("ping", make([]byte, 8))...)
	}
	c.Ops = []Step{{K: "raw", Raw: hex.EncodeToString(raw)}}
	return c
}

func runBytes(c *Case, self, dir string) {
	p := filepath.Join(dir, fmt.Sprintf("bytes_%d.json", c.ID))
	coqfmt.WriteJSON(p, c)
	cmd := exec.Command(self, "-worker", p)
	cmd.Env = append(os.Environ(), "GOMEMLIMIT=2GiB")
	var out bytes.Buffer
	cmd.Stdout = &out
	cmd.Stderr = &out
	done := make(chan error, 1)
	cmd.Start()
	go func() { done <- cmd.Wait() }()
	status := 0
	select {
	case err := <-done:
		if err != nil {
			status = 1
		}
	case <-time.After(15 * time.Second):
		cmd.Process.Kill()
		status = 2
	}
	returned := strings.Contains(out.String(), "RUN_RETURNED")
	c.Trigger, c.Output = "", ""
	if status != 0 || !returned {
		o := out.String()
		c.note = "died"
		// the first non-runtime frame of the dying goroutine: the call site of the allocation / panic
		site := ""
		if i := strings.Index(o, "\ngoroutine "); i >= 0 {
			for _, ln := range strings.Split(o[i:], "\n") {
				if strings.HasPrefix(ln, "github.com/") || strings.HasPrefix(ln, "verifharness/") {
					site = ln
					if j := strings.Index(site, "("); j > 0 {
						// keep "pkg.func" / "pkg.(*T).method", drop the argument list
						k := strings.LastIndex(site, "(")
						if strings.Contains(site[:k], ".") {
							site = site[:k]
						}
					}
					break
				}
			}
		}
		switch {
		case (strings.Contains(o, "out of memory") || strings.Contains(o, "makeslice")) && strings.HasPrefix(site, "github.com/tokenized/pkg/wire."):
			// D18 family: a decoder of the dependency sizes an allocation by a declared count / length
			c.Trigger = "dep-wire-alloc:" + strings.TrimPrefix(site, "github.com/tokenized/pkg/wire.")
		case status == 2:
			c.Trigger = "hang"
		}
		if site != "" {
			o = "call site: " + site + "\n" + o
		}
		if len(o) > 1500 {
			o = o[:1500]
		}
		c.Output = o
	}
	os.Remove(p)
	// early = 0 / flags irrelevant: only "survived and Run returned" is compared
	c.coq = fmt.Sprintf("(mkNCase false true [] %d false false true true false)", map[bool]int{true: 0, false: 1}[status == 0 && returned])
}

// ---- generation --------------------------------------------------------------------------------------------

func genSession(r *coqfmt.Rand, id int, profile string) Case {
	c := Case{ID: id, Kind: "session", VerifyOnly: r.Chance(1, 5), HasTxm: r.Chance(3, 4), Racy: r.Chance(1, 4)}
	repeats := 0
	if profile == "C14" {
		c.Racy = false
	}
	noise := func(n int) {
		for i := 0; i < n; i++ {
			if profile == "C13" && repeats < 4 && r.Chance(1, 14) {
				repeats++
				c.Ops = append(c.Ops, Step{K: "send", Cmd: []string{"verack", "version"}[r.Intn(2)]})
				if !c.Racy {
					c.Racy = true // whether the handshake thread has consumed it is not observable
				}
				continue
			}
			st := Step{K: "send", Count: 1 + r.Intn(5), Size: r.Intn(400), Ext: r.Chance(1, 4)}
			k := r.Intn(9)
			if k == 0 && (profile == "C14" || r.Chance(2, 3)) {
				k = 1 // headers before the handshake completes close the connection (D26)
			}
			switch k {
			case 0:
				st.Cmd, st.Variant = "headers", []string{"bsv", "bch", "random", "empty", "known"}[r.Intn(5)]
			case 1:
				st.Cmd = "addr"
			case 2:
				st.Cmd = "inv"
				if r.Chance(1, 2) {
					st.Variant = "mixed"
				}
			case 3:
				st.Cmd = "tx"
			case 4:
				st.Cmd = "block"
			case 5:
				st.Cmd = "foobar"
			case 6:
				st.Cmd = "getaddr"
			case 7:
				st.Cmd = "ping"
			default:
				st.Cmd = "reject"
			}
			if st.Cmd != "tx" && st.Cmd != "block" && st.Cmd != "foobar" {
				st.Ext = false
			}
			c.Ops = append(c.Ops, st)
		}
	}
	blast := c.Racy // racy from the start: the peer never waits for the node
	wait := func(cmd string) {
		if !blast {
			c.Ops = append(c.Ops, Step{K: "wait", Cmd: cmd})
		}
	}
	if profile == "C14" {
		c.Racy = false
	}
	noise(r.Intn(4))
	if profile == "C13" && r.Chance(1, 6) {
		// half a handshake: only a version or only a verack (possibly repeated), then the proof
		// of chain and traffic as if verified
		c.Racy = repeats > 0 // handshake messages in the noise: what the thread consumed is unknown
		only := []string{"verack", "version"}[r.Intn(2)]
		for i := 0; i <= r.Intn(3); i++ {
			c.Ops = append(c.Ops, Step{K: "send", Cmd: only}, Step{K: "settle"})
		}
		c.Ops = append(c.Ops, Step{K: "send", Cmd: "headers", Variant: "bsv", Count: 1 + r.Intn(3)}, Step{K: "settle"})
		c.Ops = append(c.Ops, Step{K: "send", Cmd: "addr", Count: 2}, Step{K: "send", Cmd: "inv", Count: 2},
			Step{K: "send", Cmd: "headers", Variant: "extend", Count: 2})
		return c
	}
	// handshake, possibly with the verack first and repeated messages
	if profile != "C14" && r.Chance(1, 4) {
		c.Ops = append(c.Ops, Step{K: "send", Cmd: "verack"})
		wait("version")
		if !c.Racy {
			// the handshake thread consumes the verack without answering: cannot be observed; make
			// the script racy-safe by sending the version right away
		}
		c.Ops = append(c.Ops, Step{K: "send", Cmd: "version"})
		wait("verack")
		if !c.Racy {
			// two messages were consumed (verack then version): the first produced no answer
			c.Racy = true
		}
	} else {
		c.Ops = append(c.Ops, Step{K: "send", Cmd: "version"})
		wait("verack")
		noise(r.Intn(3))
		c.Ops = append(c.Ops, Step{K: "send", Cmd: "verack"})
		wait("getheaders")
	}
	noise(r.Intn(3))
	// verification reply
	reply := []string{"bsv", "bsv", "bsv", "bch", "random", "empty", "known", "aftergenesis"}[r.Intn(8)]
	if profile == "C14" {
		reply = "bsv"
		c.VerifyOnly = false
	}
	if profile == "C03" { // the peer clause of C03: every kind of reply, equally often
		reply = []string{"bsv", "bch", "random", "empty", "known", "aftergenesis"}[r.Intn(6)]
	}
	c.Ops = append(c.Ops, Step{K: "send", Cmd: "headers", Variant: reply, Count: 1 + r.Intn(3)})
	if profile == "C03" && reply != "bsv" && r.Chance(2, 3) {
		// a second reply, this time with the BSV split header: the first one has decided
		c.Ops = append(c.Ops, Step{K: "send", Cmd: "headers", Variant: "bsv", Count: 1})
	}
	if reply == "bsv" && !c.VerifyOnly {
		wait("sendheaders")
		// conformant traffic while ready
		n := 3 + r.Intn(10)
		for i := 0; i < n; i++ {
			st := Step{K: "send", Count: r.Intn(6), Size: []int{0, 1, 100, 5000, 200000, 3000000}[r.Pick(4, 4, 6, 4, 2, 1)], Ext: r.Chance(1, 3)}
			if r.Chance(1, 3) { // buffer-size boundaries (the discard loop works in 1 KiB chunks)
				b := []int{255, 256, 512, 1023, 1024, 1025, 2047, 2048, 2049, 3072, 4096, 8192, 65535, 65536, 65537, 1 << 20}
				st.Size = b[r.Intn(len(b))]
			}
			switch r.Intn(16) {
			case 0:
				st.Cmd, st.Variant = "headers", "extend"
			case 1:
				st.Cmd, st.Variant, st.Count = "headers", "empty", 0
			case 2:
				st.Cmd = "addr"
			case 3:
				st.Cmd = "inv"
				if r.Chance(1, 2) {
					st.Variant = "mixed"
				}
			case 4, 5:
				st.Cmd = "tx"
			case 6:
				st.Cmd = "block"
				switch r.Intn(4) {
				case 0, 1:
					st.Variant = "requested"
				case 2:
					st.Variant = "wrongreq"
				}
			case 7, 8:
				st.Cmd = "foobar"
			case 9:
				st.Cmd = "getaddr"
			case 10:
				st.Cmd = "ping"
			case 11:
				st.Cmd = "reject"
			case 12:
				st.Cmd = "version" // repeated handshake messages after the handshake (D16)
				if profile != "C14" {
					st.Cmd = "reject"
				}
			case 13:
				st.Cmd = "verack"
				if profile != "C14" {
					st.Cmd = "getaddr"
				}
			case 14:
				st.Cmd = "sendheaders"
			default:
				st.Cmd, st.Variant = "pong", "right"
			}
			if st.Cmd != "tx" && st.Cmd != "block" && st.Cmd != "foobar" {
				st.Ext = false
			}
			if st.Cmd == "tx" && st.Size > 200000 {
				st.Size = 200000
			}
			st.Join = r.Chance(1, 3)
			c.Ops = append(c.Ops, st)
		}
		if profile == "C14" && r.Chance(1, 6) { // more repeated handshake messages than the handshake channel holds (D16)
			k := 9 + r.Intn(8)
			for i := 0; i < k; i++ {
				c.Ops = append(c.Ops, Step{K: "send", Cmd: []string{"verack", "version"}[r.Intn(2)]})
			}
		}
		if profile != "C14" && r.Chance(1, 6) {
			c.Ops = append(c.Ops, Step{K: "send", Cmd: []string{"protoconf", "pong", "headers"}[r.Intn(3)], Variant: []string{"wrong", "orphan"}[r.Intn(2)]})
			if c.Ops[len(c.Ops)-1].Cmd == "protoconf" {
				c.Ops = append(c.Ops, Step{K: "send", Cmd: "protoconf"})
			}
			if c.Ops[len(c.Ops)-1].Cmd == "headers" {
				c.Ops[len(c.Ops)-1].Variant = "orphan"
			}
			if c.Ops[len(c.Ops)-1].Cmd == "pong" {
				c.Ops[len(c.Ops)-1].Variant = "wrong"
			}
		}
	}
	return c
}

func main() {
	workerFile := flag.String("worker", "", "run one byte case in this process")
	out := flag.String("out", "", "output directory")
	seed := flag.Uint64("seed", 1, "PRNG seed")
	n := flag.Int("n", 100, "number of generated cases")
	shards := flag.Int("shards", 8, "number of cases files")
	replay := flag.String("replay", "", "JSON file with cases to re-execute instead of generating")
	_ = flag.String("tier", "quick", "")
	profile := flag.String("profile", "C13", "C13 | C14 | C15")
	flag.Parse()
	if *workerFile != "" {
		worker(*workerFile)
		return
	}
	loadFixture()
	os.MkdirAll(*out, 0o755)
	var cases []Case
	if *replay != "" {
		if err := coqfmt.ReadJSON(*replay, &cases); err != nil {
			fmt.Fprintln(os.Stderr, err)
			os.Exit(2)
		}
	} else {
		r := coqfmt.NewRand(*seed)
		for i := 0; i < *n; i++ {
			if *profile == "C15" {
				cases = append(cases, genBytes(r.Fork(uint64(i)), i))
			} else {
				cases = append(cases, genSession(r.Fork(uint64(i)), i, *profile))
			}
		}
		if *profile == "C13" { // which node the manager selects
			for i := 0; i < *n/6+10; i++ {
				cases = append(cases, genSelect(r.Fork(uint64(1000000+i)), len(cases)))
			}
		}
	}
	self, _ := os.Executable()
	var wg sync.WaitGroup
	sem := make(chan struct{}, 16)
	for i := range cases {
		wg.Add(1)
		sem <- struct{}{}
		go func(i int) {
			defer wg.Done()
			defer func() { <-sem }()
			switch cases[i].Kind {
			case "bytes":
				runBytes(&cases[i], self, *out)
			case "select":
				runSelect(&cases[i])
			default:
				runSession(&cases[i])
			}
		}(i)
	}
	wg.Wait()
	stats := map[string]int{}
	distinct := map[string]bool{}
	var coq []string
	var ids []int
	var selCoq []string
	var selIDs []int
	for _, c := range cases {
		stats["kind_"+c.Kind]++
		if c.Kind == "select" {
			for _, sn := range c.Sel {
				stats["select_node_"+sn.State]++
			}
			if strings.HasSuffix(c.coq, "None)") {
				stats["select_none_chosen"]++
			}
			distinct[c.coq] = true
			selCoq = append(selCoq, c.coq)
			selIDs = append(selIDs, c.ID)
			continue
		}
		if c.Kind == "bytes" {
			stats["stage_"+c.Stage]++
			if c.note != "" {
				stats["observed_"+c.note+"_"+c.Trigger]++
			}
			distinct[c.Ops[0].Raw+c.Stage] = true
		} else {
			if c.Racy {
				stats["racy"]++
			} else {
				stats["deterministic"]++
			}
			stats["outcome "+c.outcome]++
			for _, st := range c.Ops {
				if st.K == "send" {
					stats["send_"+st.Cmd]++
					if st.Size >= 100000 && (st.Cmd == "foobar" || st.Cmd == "tx") {
						stats["payload_100kB_plus"]++
					}
					if st.Ext {
						stats["extended_frames"]++
					}
					if st.Variant == "requested" {
						stats["block_requests_scripted"]++
					}
				}
			}
			distinct[c.coq] = true
		}
		coq = append(coq, c.coq)
		ids = append(ids, c.ID)
	}
	k := *shards
	if k > len(coq) {
		k = len(coq)
	}
	if k < 1 {
		k = 1
	}
	index := make([][]int, k)
	for s := 0; s < k; s++ {
		var part []string
		for i := s; i < len(coq); i += k {
			part = append(part, coq[i])
			index[s] = append(index[s], ids[i])
		}
		coqfmt.WriteCases(filepath.Join(*out, fmt.Sprintf("cases_%d.v", s)), "From BR Require Import Base.Prelude Net.NodeFSM.", "ncase", "nmismatches", part)
	}
	if len(selCoq) > 0 {
		index = append(index, selIDs)
		coqfmt.WriteCases(filepath.Join(*out, fmt.Sprintf("cases_%d.v", k)), "From BR Require Import Base.Prelude Net.Select.", "selcase", "selmismatches", selCoq)
	}
	coqfmt.WriteJSON(filepath.Join(*out, "cases.json"), cases)
	samples := []interface{}{}
	for i := 0; i < len(cases) && len(samples) < 2; i += len(cases)/2 + 1 {
		samples = append(samples, map[string]interface{}{"case": cases[i], "coq": cases[i].coq})
	}
	coqfmt.WriteJSON(filepath.Join(*out, "stats.json"), map[string]interface{}{
		"evaluations":         len(cases),
		"distinct_nontrivial": len(distinct),
		"rule":                "session: scripted peer over net.Pipe - noise (headers/addr/inv/tx/block/extended/unknown) before and during the handshake, handshake in either order, verification reply BSV/BCH/random/empty, then conformant traffic over the whole command set incl. extended frames and payloads up to 3 MB, repeated version/verack, final ping; 3/4 deterministic (peer waits for the node's answers), 1/4 racy; full and verify-only nodes, with and without tx manager.  bytes: random bytes and structured mutants of valid frames (checksum, length, truncation, extended length up to 2^64-1, hostile varint counts, bits/timestamp extremes, wrong magic, invalid command, 14 veracks then ping) at the pre-handshake / verification / ready stage, each in its own child process.  distinct = distinct case text / byte string",
		"distribution":        stats,
		"index":               index,
		"samples":             samples,
	})
}
