// blocksim: correspondence harness for C16 (block download termination) against
// coq/Blocks/DownloaderLTS.v and coq/Blocks/Manager.v.
//
//  dl  : one real BlockDownloader (Run in a goroutine) driven through a schedule of call-level
//        events - block arrives, handler thread starts (right / wrong block), stream ends
//        (ok / error / cut), manager Cancel, node Stop, shutdown interrupt, tx count unreadable -
//        with a scripted node side (CancelBlockRequest answers as bitcoin_node.go does).  After
//        the schedule everything is left to come to rest and the observation (Run returned and
//        with what, handler returned, residual channel contents) must be one the model admits.
//  mgr : a real BlockManager with a scripted BlockRequestor; the terminal signals, the number of
//        simultaneously registered downloaders and the goroutines left behind are checked.
package main

import (
	"context"
	"crypto/sha256"
	"flag"
	"fmt"
	"os"
	"path/filepath"
	"runtime"
	"sort"
	"strings"
	"sync"
	"time"

	"github.com/google/uuid"
	"github.com/pkg/errors"
	bitcoin_reader "github.com/tokenized/bitcoin_reader"
	"github.com/tokenized/pkg/bitcoin"
	"github.com/tokenized/pkg/merkle_proof"
	"github.com/tokenized/pkg/wire"
	"github.com/tokenized/threads"

	"verifharness/coqfmt"
)

// ---- shared fakes ---------------------------------------------------------------------------

type spyProcessor struct {
	sync.Mutex
	failAt   int // ProcessTx call number that fails (0 = never)
	calls    int
	relevant map[bitcoin.Hash32]bool
	confirms []bitcoin.Hash32
	coinbase int
}

func (s *spyProcessor) ProcessTx(ctx context.Context, tx *wire.MsgTx) (bool, error) {
	s.Lock()
	defer s.Unlock()
	s.calls++
	if s.failAt != 0 && s.calls == s.failAt {
		return false, errors.New("processor failure")
	}
	return s.relevant[*tx.TxHash()], nil
}
func (s *spyProcessor) CancelTx(ctx context.Context, txid bitcoin.Hash32) error         { return nil }
func (s *spyProcessor) AddTxConflict(ctx context.Context, a, b bitcoin.Hash32) error      { return nil }
func (s *spyProcessor) UpdateTxChainDepth(ctx context.Context, t bitcoin.Hash32, d uint32) error { return nil }
func (s *spyProcessor) ConfirmTx(ctx context.Context, txid bitcoin.Hash32, h int, p *merkle_proof.MerkleProof) error {
	s.Lock()
	s.confirms = append(s.confirms, txid)
	s.Unlock()
	return nil
}
func (s *spyProcessor) ProcessCoinbaseTx(ctx context.Context, b bitcoin.Hash32, tx *wire.MsgTx) error {
	s.Lock()
	s.coinbase++
	s.Unlock()
	return nil
}

type memBlockTxs struct {
	sync.Mutex
	m map[bitcoin.Hash32][]bitcoin.Hash32
}

func (b *memBlockTxs) FetchBlockTxIDs(ctx context.Context, h bitcoin.Hash32) ([]bitcoin.Hash32, bool, error) {
	b.Lock()
	defer b.Unlock()
	l, ok := b.m[h]
	return l, ok, nil
}
func (b *memBlockTxs) AppendBlockTxIDs(ctx context.Context, h bitcoin.Hash32, l []bitcoin.Hash32) error {
	b.Lock()
	defer b.Unlock()
	b.m[h] = l
	return nil
}

func mkBlock(seed uint32, n int) (*wire.BlockHeader, []*wire.MsgTx) {
	txs := make([]*wire.MsgTx, n)
	tree := merkle_proof.NewMerkleTree(false)
	for i := range txs {
		tx := wire.NewMsgTx(1)
		tx.LockTime = seed*1000 + uint32(i)
		txs[i] = tx
		tree.AddHash(*tx.TxHash())
	}
	root := tree.RootHash()
	h := &wire.BlockHeader{Version: 1, Timestamp: 1600000000 + seed, Bits: 0x1d00ffff, Nonce: seed, MerkleRoot: root}
	return h, txs
}

// ---- hb cases: what HandleBlock does with a block and its corruptions (C04) -----------------------

func dsha(b []byte) [32]byte {
	a := sha256.Sum256(b)
	return sha256.Sum256(a[:])
}

// ownRoot is an independent implementation of the Bitcoin merkle root.
func ownRoot(hs []bitcoin.Hash32) bitcoin.Hash32 {
	if len(hs) == 0 {
		return bitcoin.Hash32{}
	}
	level := make([][32]byte, len(hs))
	for i, h := range hs {
		level[i] = h
	}
	for len(level) > 1 {
		var next [][32]byte
		for i := 0; i < len(level); i += 2 {
			l := level[i]
			r := l
			if i+1 < len(level) {
				r = level[i+1]
			}
			next = append(next, dsha(append(append([]byte{}, l[:]...), r[:]...)))
		}
		level = next
	}
	return bitcoin.Hash32(level[0])
}

type hbSpy struct {
	sync.Mutex
	ids       map[bitcoin.Hash32]int
	relevant  map[bitcoin.Hash32]bool
	header    *wire.BlockHeader
	calls     int
	procFail  int // 0-based call index, -1 never
	cancelAt  int // cancel during this ProcessTx call (1-based), 0 never
	cbFail    bool
	cfFail    int
	cfCalls   int
	storeFail bool
	bd        *bitcoin_reader.BlockDownloader
	effects   []string
	verified  bool
}

func (s *hbSpy) ProcessTx(ctx context.Context, tx *wire.MsgTx) (bool, error) {
	s.Lock()
	defer s.Unlock()
	call := s.calls
	s.calls++
	if call == s.procFail {
		return false, errors.New("processor failure")
	}
	if s.cancelAt != 0 && call+1 == s.cancelAt {
		s.bd.Cancel(ctx)
	}
	return s.relevant[*tx.TxHash()], nil
}
func (s *hbSpy) CancelTx(ctx context.Context, txid bitcoin.Hash32) error                      { return nil }
func (s *hbSpy) AddTxConflict(ctx context.Context, a, b bitcoin.Hash32) error                   { return nil }
func (s *hbSpy) UpdateTxChainDepth(ctx context.Context, t bitcoin.Hash32, d uint32) error       { return nil }
func (s *hbSpy) ConfirmTx(ctx context.Context, txid bitcoin.Hash32, h int, p *merkle_proof.MerkleProof) error {
	s.Lock()
	defer s.Unlock()
	s.effects = append(s.effects, fmt.Sprintf("EConfirm %d", s.ids[txid]))
	// the proof must verify against the requested header for exactly this txid
	q := p.Copy()
	q.BlockHeader = s.header
	if p.TxID == nil || !p.TxID.Equal(&txid) || q.Verify() != nil || p.BlockHeader == nil ||
		!p.BlockHeader.BlockHash().Equal(s.header.BlockHash()) {
		s.verified = false
	}
	k := s.cfCalls
	s.cfCalls++
	if k == s.cfFail {
		return errors.New("confirm failure")
	}
	return nil
}
func (s *hbSpy) ProcessCoinbaseTx(ctx context.Context, b bitcoin.Hash32, tx *wire.MsgTx) error {
	s.Lock()
	defer s.Unlock()
	s.effects = append(s.effects, "ECoinbase")
	if s.cbFail {
		return errors.New("coinbase failure")
	}
	return nil
}
func (s *hbSpy) FetchBlockTxIDs(ctx context.Context, h bitcoin.Hash32) ([]bitcoin.Hash32, bool, error) {
	return nil, false, nil
}
func (s *hbSpy) AppendBlockTxIDs(ctx context.Context, h bitcoin.Hash32, l []bitcoin.Hash32) error {
	s.Lock()
	defer s.Unlock()
	ids := make([]string, len(l))
	for i, x := range l {
		ids[i] = fmt.Sprint(s.ids[x])
	}
	s.effects = append(s.effects, "EAppend "+coqfmt.List(ids))
	if s.storeFail {
		return errors.New("store failure")
	}
	return nil
}

func optNat(k int, on bool) string {
	if !on {
		return "None"
	}
	return fmt.Sprintf("(Some %d%%nat)", k)
}

func runHB(c *Case) {
	ctx := coqfmt.QuietContext()
	n := c.N
	txs := make([]*wire.MsgTx, n)
	hashes := make([]bitcoin.Hash32, n)
	spy := &hbSpy{ids: map[bitcoin.Hash32]int{}, relevant: map[bitcoin.Hash32]bool{}, procFail: -1, cfFail: -1, verified: true}
	for i := range txs {
		tx := wire.NewMsgTx(1)
		tx.LockTime = uint32(c.ID*100000 + i)
		txs[i] = tx
		hashes[i] = *tx.TxHash()
		spy.ids[hashes[i]] = i + 1
	}
	for _, r := range c.Relevant {
		if r < n {
			spy.relevant[hashes[r]] = true
		}
	}
	header := &wire.BlockHeader{Version: 1, Timestamp: 1600000000, Bits: 0x1d00ffff, Nonce: uint32(c.ID), MerkleRoot: ownRoot(hashes)}
	spy.header = header
	delivered := append([]*wire.MsgTx{}, txs...)
	count := uint64(n)
	hdr := header
	extra := func(j int) *wire.MsgTx {
		tx := wire.NewMsgTx(1)
		tx.LockTime = uint32(c.ID*100000 + 50000 + j)
		spy.ids[*tx.TxHash()] = 1000 + j
		return tx
	}
	k := c.K
	if n > 0 {
		k = c.K % n
	}
	dupRelevant := false
	switch c.Corrupt {
	case "drop":
		delivered = append(delivered[:k:k], delivered[k+1:]...)
		count = uint64(len(delivered))
	case "add":
		x := extra(0)
		delivered = append(delivered[:k:k], append([]*wire.MsgTx{x}, delivered[k:]...)...)
		count = uint64(len(delivered))
		if k%2 == 0 {
			spy.relevant[*x.TxHash()] = true
		}
	case "swap":
		if n > 1 {
			j := (k + 1) % n
			delivered[k], delivered[j] = delivered[j], delivered[k]
		}
	case "alter":
		delivered[k] = extra(1)
	case "count+1":
		count++
	case "count-1":
		count--
	case "cut":
		delivered = delivered[:k]
	case "wronghdr":
		h2 := *header
		h2.Nonce++
		hdr = &h2
	case "dup1": // same merkle root when n is odd
		delivered = append(delivered, txs[n-1])
		count = uint64(len(delivered))
		dupRelevant = spy.relevant[hashes[n-1]]
	case "dupn": // any repetition of the tail that keeps the merkle root (odd and even resulting counts)
		var cands [][]*wire.MsgTx
		for w := 1; w <= 4 && w <= n; w *= 2 {
			tail := txs[n-w:]
			cur := append([]*wire.MsgTx{}, txs...)
			for rep := 1; rep <= 3; rep++ {
				cur = append(cur, tail...)
				var hs []bitcoin.Hash32
				for _, tx := range cur {
					hs = append(hs, *tx.TxHash())
				}
				if r := ownRoot(hs); r.Equal(&header.MerkleRoot) {
					cands = append(cands, append([]*wire.MsgTx{}, cur...))
				}
			}
		}
		if len(cands) > 0 {
			delivered = cands[c.K%len(cands)]
			count = uint64(len(delivered))
			for _, tx := range delivered[n:] {
				if spy.relevant[*tx.TxHash()] {
					dupRelevant = true
				}
			}
		}
	case "dup2": // same merkle root when the level above the leaves has an odd length > 1
		if n >= 2 {
			delivered = append(delivered, txs[n-2], txs[n-1])
			count = uint64(len(delivered))
			dupRelevant = spy.relevant[hashes[n-1]] || spy.relevant[hashes[n-2]]
		}
	}
	switch c.Fault {
	case "procfail":
		spy.procFail = c.FaultK % (len(delivered) + 1)
	case "cancel":
		spy.cancelAt = 1 + c.FaultK%(len(delivered)+1)
	case "cbfail":
		spy.cbFail = true
	case "cffail":
		spy.cfFail = c.FaultK % 3
	case "storefail":
		spy.storeFail = true
	}
	bd := bitcoin_reader.NewBlockDownloader(spy, spy, *header.BlockHash(), 500)
	spy.bd = bd
	ch := make(chan *wire.MsgTx, len(delivered)+1)
	var dh []bitcoin.Hash32
	var ids []string
	for _, tx := range delivered {
		ch <- tx
		dh = append(dh, *tx.TxHash())
		ids = append(ids, fmt.Sprint(spy.ids[*tx.TxHash()]))
	}
	close(ch)
	done := make(chan error, 1)
	go func() { done <- bd.HandleBlock(ctx, hdr, count, ch) }()
	result := 3
	select {
	case <-done:
		<-bd.Started
		// the first Complete value is the download's result
		select {
		case err := <-bd.Complete:
			switch {
			case err == nil:
				result = 0
			case strings.Contains(err.Error(), "Block Download Cancelled"):
				result = 1
			case errors.Cause(err) == bitcoin_reader.ErrWrongBlock:
				result = 2
			}
		default:
			result = 9
		}
	case <-time.After(2 * time.Second):
		result = 9
	}
	ownR := ownRoot(dh)
	rootOK := ownR.Equal(&header.MerkleRoot)
	var rel []string
	for h, v := range spy.relevant {
		if v {
			rel = append(rel, fmt.Sprint(spy.ids[h]))
		}
	}
	sort.Strings(rel)
	spy.Lock()
	defer spy.Unlock()
	in := fmt.Sprintf("(mkBlockIn %s %d %s %s %s %s %s %s %s %s %s)", coqfmt.Bool(c.Corrupt != "wronghdr"), count, coqfmt.List(ids),
		coqfmt.List(rel), coqfmt.Bool(rootOK), coqfmt.Bool(!(rootOK && dupRelevant && (c.Corrupt == "dup1" || c.Corrupt == "dup2" || c.Corrupt == "dupn"))),
		optNat(spy.procFail, spy.procFail >= 0), optNat(spy.cancelAt, spy.cancelAt != 0), coqfmt.Bool(spy.cbFail),
		optNat(spy.cfFail, spy.cfFail >= 0), coqfmt.Bool(spy.storeFail))
	c.coq = fmt.Sprintf("(mkHCase %s\n  %s %d %s)", in, coqfmt.List(spy.effects), result, coqfmt.Bool(spy.verified))
}

// ---- dl cases -----------------------------------------------------------------------------------

type Case struct {
	ID    int      `json:"id"`
	Kind  string   `json:"kind"` // dl | mgr
	Ops   []string `json:"ops"`  // dl: event names; mgr: scenario steps
	Conc  int      `json:"conc,omitempty"`
	// hb: block content case
	N        int    `json:"n,omitempty"`
	Relevant []int  `json:"relevant,omitempty"`
	Corrupt  string `json:"corrupt,omitempty"`
	K        int    `json:"k,omitempty"`
	Fault    string `json:"fault,omitempty"`
	FaultK   int    `json:"fault_k,omitempty"`
	coq   string
	trace []string
}

const (
	nReq = iota
	nReader
	nClosed
	nCancelled
	nGone
)

type fakeNode struct {
	sync.Mutex
	id      uuid.UUID
	state   int
	txCh    chan *wire.MsgTx
	chOpen  bool
	cutSeen bool // a cancel closed the stream while the handler was reading
	hStarted bool
}

func (n *fakeNode) ID() uuid.UUID { return n.id }
func (n *fakeNode) CancelBlockRequest(ctx context.Context, hash bitcoin.Hash32) bool {
	n.Lock()
	defer n.Unlock()
	switch n.state {
	case nReader:
		n.state = nClosed
		if n.chOpen { // closing the reader ends the tx loop: the channel is closed
			close(n.txCh)
			n.chOpen = false
			if n.hStarted {
				n.cutSeen = true
			}
		}
		return true
	case nReq:
		n.state = nCancelled
		return false
	}
	return false
}

var labelOf = map[string]string{"interrupt": "LInterrupt", "arrive": "LArrive", "hstart": "LHandlerStart", "hwrong": "LHandlerStartWrong",
	"endok": "LEndOk", "enderr": "LEndErr", "endcut": "LEndCut", "cancel": "LCancel", "stop": "LStop", "nohandler": "LNoHandler"}

func settle() {
	for i := 0; i < 3; i++ {
		runtime.Gosched()
		time.Sleep(1500 * time.Microsecond)
	}
}

func classOf(err error) int {
	switch {
	case err == nil:
		return 2
	case errors.Cause(err) == threads.Interrupted:
		return 4
	case errors.Cause(err) == bitcoin_reader.ErrTimeout:
		return 5
	case strings.Contains(err.Error(), "Block Download Cancelled"):
		return 1
	}
	return 3
}

// runDL executes the wanted events in order, skipping those that are not enabled in the current
// situation; the Coq case lists the events that were actually performed.
func runDL(c *Case) {
	ctx := coqfmt.QuietContext()
	header, txs := mkBlock(uint32(c.ID+1), 3)
	wrongHeader, _ := mkBlock(uint32(c.ID+100001), 2)
	proc := &spyProcessor{relevant: map[bitcoin.Hash32]bool{*txs[1].TxHash(): true}}
	store := &memBlockTxs{m: map[bitcoin.Hash32][]bitcoin.Hash32{}}
	bd := bitcoin_reader.NewBlockDownloader(proc, store, *header.BlockHash(), 100)
	node := &fakeNode{id: uuid.New(), txCh: make(chan *wire.MsgTx, 10), chOpen: true}
	bd.SetCanceller(node.id, node)
	interrupt := make(chan interface{})
	runDone := make(chan error, 1)
	go func() { runDone <- bd.Run(ctx, interrupt) }()
	settle()
	var hDone chan error
	hRunning := func() bool {
		if hDone == nil {
			return false
		}
		select {
		case err := <-hDone:
			hDone <- err
			return false
		default:
			return true
		}
	}
	blocked := false
	call := func(f func()) {
		done := make(chan struct{})
		go func() { f(); close(done) }()
		select {
		case <-done:
		case <-time.After(400 * time.Millisecond):
			blocked = true
		}
	}
	cancels, stops, interrupted, hEverStarted := 0, 0, false, false
	var done []string
	for _, op := range c.Ops {
		node.Lock()
		st := node.state
		node.Unlock()
		performed := false
		switch op {
		case "arrive":
			if st == nReq {
				node.Lock()
				node.state = nReader
				node.Unlock()
				performed = true
			}
		case "hstart", "hwrong":
			// (the handler thread is dispatched while the reader is installed; its first statement
			// may run after a cancel closed the reader: a late start)
			if (st == nReader || st == nClosed) && !hEverStarted {
				hEverStarted = true
				node.Lock()
				node.hStarted = true
				node.Unlock()
				hDone = make(chan error, 1)
				h := header
				if op == "hwrong" {
					h = wrongHeader
				}
				go func() { hDone <- bd.HandleBlock(ctx, h, uint64(len(txs)), node.txCh) }()
				performed = true
			}
		case "endok", "enderr", "endcut":
			node.Lock()
			open := node.chOpen
			node.Unlock()
			if hEverStarted && hRunning() && open {
				switch op {
				case "endok":
					for _, tx := range txs {
						node.txCh <- tx
					}
				case "enderr":
					proc.Lock()
					proc.failAt = proc.calls + 2
					proc.Unlock()
					for _, tx := range txs {
						node.txCh <- tx
					}
				case "endcut":
					node.txCh <- txs[0]
				}
				node.Lock()
				close(node.txCh)
				node.chOpen = false
				node.Unlock()
				performed = true
			}
		case "cancel":
			if cancels < 2 {
				cancels++
				call(func() { bd.Cancel(ctx) })
				performed = true
			}
		case "stop":
			if stops < 1 {
				stops++
				call(func() { bd.Stop(ctx) })
				performed = true
			}
		case "interrupt":
			if !interrupted {
				interrupted = true
				close(interrupt)
				performed = true
			}
		case "nohandler":
			if (st == nReader || st == nClosed) && !hEverStarted {
				node.Lock()
				node.state = nGone
				node.Unlock()
				performed = true
			}
		}
		if !performed {
			continue
		}
		settle()
		done = append(done, labelOf[op])
		// (a cancel that closes the reader under a reading handler cuts its stream short: an
		// internal step of the model, not an event of the schedule)
	}
	// come to rest
	var runErr error
	runReturned := false
	deadline := time.After(600 * time.Millisecond)
	stable := 0
loop:
	for {
		select {
		case runErr = <-runDone:
			runReturned = true
			break loop
		case <-deadline:
			break loop
		case <-time.After(5 * time.Millisecond):
			stable++
			if stable > 40 {
				break loop
			}
		}
	}
	settle()
	hReturned := !hRunning()
	res := 0
	if runReturned {
		res = classOf(runErr)
	}
	if blocked {
		res = 9 // a Cancel/Stop call did not return: never admitted by the model
	}
	// the transaction stream is closed (ended, or cut by a cancel): HandleBlock has nothing left to
	// wait for but the signalling channels
	node.Lock()
	if hEverStarted && !node.chOpen {
		done = append(done, "LStreamClosed")
	}
	node.Unlock()
	c.trace = done
	c.coq = fmt.Sprintf("(mkDCase 2 1 %s (mkObs %s %d %s %d %d))", coqfmt.List(done), coqfmt.Bool(runReturned), res,
		coqfmt.Bool(hReturned), len(bd.Started), len(bd.Complete))
	// release what may still be parked so goroutines do not pile up across cases
	if !interrupted {
		close(interrupt)
	}
	node.Lock()
	if node.chOpen {
		close(node.txCh)
		node.chOpen = false
	}
	node.Unlock()
}

var dlEvents = []string{"arrive", "hstart", "hwrong", "endok", "enderr", "endcut", "cancel", "cancel", "stop", "interrupt", "nohandler"}

// ---- manager scenario --------------------------------------------------------------------------

type scriptedRequestor struct {
	sync.Mutex
	avail    bool
	behave   []string // per RequestBlock call: ok | fail | hang | never | wrong
	calls    int
	active   int
	maxSeen  int
	blocks   map[bitcoin.Hash32]struct {
		h   *wire.BlockHeader
		txs []*wire.MsgTx
	}
	okDone map[bitcoin.Hash32]int
	slowCancel bool
}

type scriptedCanceller struct {
	id uuid.UUID
	r  *scriptedRequestor
	mu sync.Mutex
	started bool
	ch chan *wire.MsgTx
	closed bool
}

func (c *scriptedCanceller) ID() uuid.UUID { return c.id }
func (c *scriptedCanceller) CancelBlockRequest(ctx context.Context, h bitcoin.Hash32) bool {
	c.r.Lock()
	slow := c.r.slowCancel
	c.r.Unlock()
	if slow { // the peer's connection takes a moment to act on the cancel
		time.Sleep(time.Millisecond)
	}
	c.mu.Lock()
	defer c.mu.Unlock()
	if c.started && !c.closed {
		close(c.ch)
		c.closed = true
		return true
	}
	c.closed = true
	return false
}

func (r *scriptedRequestor) RequestBlock(ctx context.Context, hash bitcoin.Hash32, handler bitcoin_reader.HandleBlock,
	onStop bitcoin_reader.OnStop) (bitcoin_reader.BlockRequestCanceller, error) {
	r.Lock()
	if !r.avail {
		r.Unlock()
		return nil, bitcoin_reader.ErrNodeNotAvailable
	}
	b := "ok"
	if r.calls < len(r.behave) {
		b = r.behave[r.calls]
	}
	r.calls++
	blk := r.blocks[hash]
	r.Unlock()
	c := &scriptedCanceller{id: uuid.New(), r: r, ch: make(chan *wire.MsgTx, 10)}
	go func() {
		time.Sleep(2 * time.Millisecond)
		c.mu.Lock()
		if c.closed {
			c.mu.Unlock()
			return
		}
		c.started = true
		c.mu.Unlock()
		r.Lock()
		r.active++
		if r.active > r.maxSeen {
			r.maxSeen = r.active
		}
		r.Unlock()
		switch b {
		case "ok", "fail":
			go func() {
				for i, tx := range blk.txs {
					if b == "fail" && i == 1 {
						break
					}
					c.mu.Lock()
					if c.closed {
						c.mu.Unlock()
						return
					}
					c.ch <- tx
					c.mu.Unlock()
				}
				c.mu.Lock()
				if !c.closed {
					close(c.ch)
					c.closed = true
				}
				c.mu.Unlock()
			}()
		case "never": // a source that never delivers: only a cancel ends the download
		case "hang": // slow source: delivers after 50 ms unless it was cancelled before
			go func() {
				time.Sleep(50 * time.Millisecond)
				for _, tx := range blk.txs {
					c.mu.Lock()
					if c.closed {
						c.mu.Unlock()
						return
					}
					c.ch <- tx
					c.mu.Unlock()
				}
				c.mu.Lock()
				if !c.closed {
					close(c.ch)
					c.closed = true
				}
				c.mu.Unlock()
			}()
		}
		err := handler(ctx, blk.h, uint64(len(blk.txs)), c.ch)
		r.Lock()
		r.active--
		if err == nil {
			r.okDone[hash]++
		}
		r.Unlock()
	}()
	return c, nil
}

func parkedGoroutines() int {
	buf := make([]byte, 4<<20)
	nbuf := runtime.Stack(buf, true)
	parked := 0
	for _, g := range strings.Split(string(buf[:nbuf]), "\n\n") {
		if strings.Contains(g, "bitcoin_reader.(*BlockDownloader)") || strings.Contains(g, "bitcoin_reader.(*BlockManager)") {
			parked++
		}
	}
	return parked
}

func runMgr(c *Case) {
	ctx := coqfmt.QuietContext()
	parkedBefore := parkedGoroutines() // leftovers of the downloader schedules (parked on their 10 minute timers)
	store := &memBlockTxs{m: map[bitcoin.Hash32][]bitcoin.Hash32{}}
	req := &scriptedRequestor{avail: true, okDone: map[bitcoin.Hash32]int{}, blocks: map[bitcoin.Hash32]struct {
		h   *wire.BlockHeader
		txs []*wire.MsgTx
	}{}}
	conc := c.Conc
	m := bitcoin_reader.NewBlockManager(store, req, conc, 5*time.Millisecond)
	interrupt := make(chan interface{})
	done := make(chan error, 1)
	go func() { done <- m.Run(ctx, interrupt) }()
	proc := &spyProcessor{relevant: map[bitcoin.Hash32]bool{}}
	type reqRes struct {
		signals int
		kind    string
		okBefore bool
		hash    bitcoin.Hash32
	}
	var results []reqRes
	blockN := 0
	for _, op := range c.Ops {
		parts := strings.Split(op, ":")
		switch parts[0] {
		case "behave":
			req.Lock()
			req.behave = append(req.behave, parts[1:]...)
			req.Unlock()
		case "slowcancel":
			req.Lock()
			req.slowCancel = true
			req.Unlock()
		case "request", "request_abort", "request_abort_never", "request_late":
			blockN++
			h, txs := mkBlock(uint32(c.ID*10+blockN), 3)
			req.Lock()
			req.blocks[*h.BlockHash()] = struct {
				h   *wire.BlockHeader
				txs []*wire.MsgTx
			}{h, txs}
			req.Unlock()
			if parts[0] != "request_abort_never" {
				// sources that never deliver are for the aborted request they were scripted for only
				req.Lock()
				if req.calls < len(req.behave) {
					kept := append([]string{}, req.behave[:req.calls]...)
					for _, b := range req.behave[req.calls:] {
						if b != "never" {
							kept = append(kept, b)
						}
					}
					req.behave = kept
				}
				req.Unlock()
			}
			if parts[0] == "request_abort_never" {
				// no source of this request ever delivers: each of its downloads ends only by the
				// cancel that follows the abort
				req.Lock()
				if req.calls < len(req.behave) {
					req.behave = req.behave[:req.calls]
				}
				for len(req.behave) < req.calls {
					req.behave = append(req.behave, "ok")
				}
				for k := 0; k < 12; k++ {
					req.behave = append(req.behave, "never")
				}
				req.Unlock()
			}
			if parts[0] == "request_late" {
				// every source of this request is slow (delivers after 50 ms)
				req.Lock()
				if req.calls < len(req.behave) {
					req.behave = req.behave[:req.calls]
				}
				for len(req.behave) < req.calls {
					req.behave = append(req.behave, "ok")
				}
				req.behave = append(req.behave, "hang", "hang", "hang", "hang", "hang", "hang")
				req.Unlock()
			}
			complete, abort := m.AddRequest(ctx, *h.BlockHash(), 100+blockN, proc)
			if parts[0] == "request_abort" {
				time.Sleep(8 * time.Millisecond)
				close(abort)
			}
			if parts[0] == "request_abort_never" {
				time.Sleep(35 * time.Millisecond) // the manager has started all its concurrent downloads (one per 5 ms poll)
				close(abort)
			}
			if parts[0] == "request_late" && len(results) > 0 {
				// a download thread of the previous block ends successfully only now (its completion
				// callback runs in a thread of its own): this request is current, and must not be
				// completed by it
				prev := results[len(results)-1].hash
				go func() {
					time.Sleep(12 * time.Millisecond)
					m.VerifFinishDownloader(ctx, prev, nil)
				}()
			}
			rr := reqRes{hash: *h.BlockHash()}
			// collect every signal for a while: exactly one is expected
			timeout := time.After(1500 * time.Millisecond)
		collect:
			for {
				select {
				case err, ok := <-complete:
					rr.signals++
					if !ok {
						rr.kind = "completed"
						req.Lock()
						rr.okBefore = req.okDone[rr.hash] > 0
						req.Unlock()
						break collect // a closed channel keeps yielding
					}
					if errors.Cause(err) == bitcoin_reader.BlockAborted {
						rr.kind = "aborted"
					} else {
						rr.kind = "other"
					}
					// look for a second signal
					select {
					case _, ok2 := <-complete:
						_ = ok2
						rr.signals++
					case <-time.After(30 * time.Millisecond):
					}
					break collect
				case <-timeout:
					rr.kind = "none"
					break collect
				}
			}
			results = append(results, rr)
		}
	}
	time.Sleep(40 * time.Millisecond)
	left := m.DownloaderCount(bitcoin.Hash32{})
	for _, rr := range results {
		left += m.DownloaderCount(rr.hash)
	}
	close(interrupt)
	select {
	case <-done:
	case <-time.After(3 * time.Second):
		left += 1000
	}
	time.Sleep(20 * time.Millisecond)
	// goroutines parked in downloader / manager frames because of this scenario
	parked := parkedGoroutines() - parkedBefore
	if parked < 0 {
		parked = 0
	}
	items := []string{}
	for _, rr := range results {
		items = append(items, fmt.Sprintf("(%d%%nat, %s, %s)", rr.signals, map[string]string{"completed": "1", "aborted": "2", "other": "3", "none": "0"}[rr.kind], coqfmt.Bool(rr.okBefore)))
	}
	req.Lock()
	maxSeen := req.maxSeen
	req.Unlock()
	c.coq = fmt.Sprintf("(mkMCase %d %s %d %d %d)", conc, coqfmt.List(items), maxSeen, left, parked)
}

func main() {
	out := flag.String("out", "", "output directory")
	seed := flag.Uint64("seed", 1, "PRNG seed")
	n := flag.Int("n", 300, "number of generated cases")
	shards := flag.Int("shards", 16, "number of cases files")
	replay := flag.String("replay", "", "JSON file with cases to re-execute instead of generating")
	tier := flag.String("tier", "quick", "")
	profile := flag.String("profile", "C16", "C16 (schedules, manager) | C04 (block contents)")
	flag.Parse()
	os.MkdirAll(*out, 0o755)
	var cases []Case
	if *replay != "" {
		if err := coqfmt.ReadJSON(*replay, &cases); err != nil {
			fmt.Fprintln(os.Stderr, err)
			os.Exit(2)
		}
	} else {
		r := coqfmt.NewRand(*seed)
		// exhaustive family: every sequence of up to 3 (quick) / 4 (thorough) distinct event kinds
		kinds := []string{"arrive", "hstart", "hwrong", "endok", "enderr", "endcut", "cancel", "stop", "interrupt", "nohandler"}
		depth := 3
		if *tier == "thorough" {
			depth = 4
		}
		var rec func(prefix []string, d int)
		rec = func(prefix []string, d int) {
			if len(prefix) > 0 {
				cases = append(cases, Case{ID: len(cases), Kind: "dl", Ops: append([]string{}, prefix...)})
			}
			if d == 0 {
				return
			}
			for _, k := range kinds {
				rec(append(prefix, k), d-1)
			}
		}
		if *profile == "C16" {
			rec(nil, depth)
		}
		for i := 0; i < *n && *profile == "C16"; i++ {
			l := 4 + r.Intn(6)
			ops := []string{"arrive"}
			if r.Chance(1, 4) {
				ops = nil
			}
			for j := 0; j < l; j++ {
				ops = append(ops, dlEvents[r.Intn(len(dlEvents))])
			}
			cases = append(cases, Case{ID: len(cases), Kind: "dl", Ops: ops})
		}
		corrupts := []string{"none", "none", "drop", "add", "swap", "alter", "count+1", "count-1", "cut", "wronghdr", "dup1", "dup2", "dupn", "dupn"}
		faults := []string{"", "", "", "procfail", "cancel", "cbfail", "cffail", "storefail"}
		if *profile == "C04" {
			// every tree width 1..17 with every corruption, then random blocks up to 70 transactions
			for w := 1; w <= 17; w++ {
				for _, cor := range corrupts[1:] {
					rel := []int{}
					for j := 0; j < w; j++ {
						if r.Chance(1, 2) || j == w-1 {
							rel = append(rel, j)
						}
					}
					cases = append(cases, Case{ID: len(cases), Kind: "hb", Ops: []string{}, N: w, Relevant: rel, Corrupt: cor, K: r.Intn(w)})
				}
			}
			for i := 0; i < *n*4; i++ {
				w := 1 + r.Intn(70)
				rel := []int{}
				for j := 0; j < w; j++ {
					if r.Chance(1, 3) {
						rel = append(rel, j)
					}
				}
				cases = append(cases, Case{ID: len(cases), Kind: "hb", Ops: []string{}, N: w, Relevant: rel,
					Corrupt: corrupts[r.Intn(len(corrupts))], K: r.Intn(w), Fault: faults[r.Intn(len(faults))], FaultK: r.Intn(w + 1)})
			}
		}
		for i := 0; i < *n/15+2 && *profile == "C16"; i++ {
			conc := 1 + r.Intn(5)
			var ops []string
			if r.Chance(1, 3) {
				ops = append(ops, "slowcancel")
			}
			if r.Chance(1, 4) { // several downloads of an aborted request, all to be cancelled, slow peers
				conc = 3 + r.Intn(3)
				ops = []string{"slowcancel"}
				if r.Chance(1, 2) {
					ops = append(ops, "behave:ok:ok:ok:ok:ok:ok", "request")
				}
				ops = append(ops, "request_abort_never")
				cases = append(cases, Case{ID: len(cases), Kind: "mgr", Ops: ops, Conc: conc})
				continue
			}
			for j := 0; j < 1+r.Intn(3); j++ {
				b := "behave"
				for k := 0; k < 1+r.Intn(4); k++ {
					b += ":" + []string{"ok", "ok", "fail", "hang", "hang"}[r.Intn(5)]
				}
				ops = append(ops, b+":ok:ok:ok")
				switch {
				case r.Chance(1, 4):
					if r.Chance(1, 2) { // sources that never deliver: every download of the aborted request has to be cancelled
						ops = append(ops, "request_abort_never")
					} else {
						ops = append(ops, "request_abort")
					}
				case j > 0 && r.Chance(1, 2):
					// slow sources for this request, and a late finisher of the previous one
					ops[len(ops)-1] = "behave:hang:hang:hang:hang"
					ops = append(ops, "request_late")
				default:
					ops = append(ops, "request")
				}
			}
			cases = append(cases, Case{ID: len(cases), Kind: "mgr", Ops: ops, Conc: conc})
		}
	}
	// dl cases run in parallel (each has its own downloader); mgr cases too
	var wg sync.WaitGroup
	sem := make(chan struct{}, 24)
	for i := range cases {
		wg.Add(1)
		sem <- struct{}{}
		go func(i int) {
			defer wg.Done()
			defer func() { <-sem }()
			if cases[i].Kind == "dl" {
				runDL(&cases[i])
			}
			if cases[i].Kind == "hb" {
				runHB(&cases[i])
			}
		}(i)
	}
	wg.Wait()
	for i := range cases { // manager cases inspect all goroutines: run them alone
		if cases[i].Kind == "mgr" {
			time.Sleep(30 * time.Millisecond)
			runMgr(&cases[i])
		}
	}
	stats := map[string]int{}
	distinct := map[string]bool{}
	var dl, mg, hb []string
	var dlID, mgID, hbID []int
	for _, c := range cases {
		stats["kind_"+c.Kind]++
		if c.Kind == "dl" {
			dl = append(dl, c.coq)
			dlID = append(dlID, c.ID)
			distinct[strings.Join(c.trace, ",")] = true
			stats[fmt.Sprintf("performed_events_%d", len(c.trace))]++
		} else if c.Kind == "hb" {
			hb = append(hb, c.coq)
			hbID = append(hbID, c.ID)
			distinct[c.coq] = true
			stats["corrupt_"+c.Corrupt]++
			stats["fault_"+c.Fault]++
		} else {
			mg = append(mg, c.coq)
			mgID = append(mgID, c.ID)
			distinct[c.coq] = true
		}
	}
	index := [][]int{}
	file := 0
	write := func(cs []string, ids []int, ty, fn string, parts int) {
		if parts > len(cs) {
			parts = len(cs)
		}
		for s := 0; s < parts; s++ {
			var part []string
			var idx []int
			for i := s; i < len(cs); i += parts {
				part = append(part, cs[i])
				idx = append(idx, ids[i])
			}
			coqfmt.WriteCases(filepath.Join(*out, fmt.Sprintf("cases_%d.v", file)),
				"From BR Require Import Base.Prelude Blocks.DownloaderLTS Blocks.Manager Blocks.ManagerCheck Blocks.BlockHandler.", ty, fn, part)
			index = append(index, idx)
			file++
		}
	}
	if len(dl) > 0 {
		write(dl, dlID, "dcase", "dmismatches", *shards-1)
	}
	if len(mg) > 0 {
		write(mg, mgID, "mcase", "mmismatches", 1)
	}
	if len(hb) > 0 {
		write(hb, hbID, "hcase", "hmismatches", *shards)
	}
	coqfmt.WriteJSON(filepath.Join(*out, "cases.json"), cases)
	samples := []interface{}{}
	for i := 0; i < len(cases) && len(samples) < 3; i += len(cases)/3 + 1 {
		samples = append(samples, map[string]interface{}{"case": cases[i], "coq": cases[i].coq})
	}
	coqfmt.WriteJSON(filepath.Join(*out, "stats.json"), map[string]interface{}{
		"evaluations":         len(cases),
		"distinct_nontrivial": len(distinct),
		"exhaustive":          false,
		"rule":                "dl: every sequence of up to 3 (quick) / 4 (thorough) call-level events over {arrive, handler start right/wrong, end ok/err/cut, Cancel, Stop, interrupt, tx count unreadable} plus random schedules of 4-10 events, executed on a real BlockDownloader with a scripted node side (events not enabled in the current situation are skipped; the case lists the performed ones); mgr: a real BlockManager with 1-3 requests, concurrency 1-3 and scripted downloads (ok / failing / hanging until cancelled / abort by the requester); distinct = distinct performed schedule (dl) or case text (mgr)",
		"distribution":        stats,
		"index":               index,
		"samples":             samples,
	})
}
