// syncsim: correspondence harness for C05 against coq/Sync/Sync.v.  A real NodeManager with a real
// BlockManager (and real BlockDownloaders) runs over a real header repository; the block source,
// the processed-block store and the tx processor are fakes.  The script of a case is a list of
// model events (chain change, trigger, success / failure of the pending download, orphan tick);
// the harness performs each on the implementation, waits for the implementation to come to rest,
// and reports the blocks handed to the block source (consecutive repeats removed), the heights
// passed down with them, the blocks recorded as processed in order, and whether a round is still
// running.  The Coq model replays the same events.
package main

import (
	"context"
	"errors"
	"flag"
	"fmt"
	"os"
	"path/filepath"
	"sync"
	"time"

	"github.com/google/uuid"
	bitcoin_reader "github.com/tokenized/bitcoin_reader"
	"github.com/tokenized/bitcoin_reader/headers"
	"github.com/tokenized/pkg/bitcoin"
	"github.com/tokenized/pkg/merkle_proof"
	"github.com/tokenized/pkg/storage"
	"github.com/tokenized/pkg/wire"

	"verifharness/coqfmt"
)

type PlanBlk struct {
	P     int  `json:"p"`     // parent index (0 = genesis)
	Heavy bool `json:"heavy"` // carries 16x the work: a shorter fork of heavy blocks overtakes
}

type Ev struct {
	K    string `json:"k"`              // chain | trigger | success | fail | tick
	Tip  int    `json:"tip,omitempty"`  // chain: plan index of the new best tip
	Kind string `json:"kind,omitempty"` // fail: drop | wrong | nonode
	// trigger: while the round it starts is still walking back from the tip (inside its first
	// processed-block lookup), the best chain grows to WalkTip and a second trigger arrives
	WalkTip int `json:"walk_tip,omitempty"`
}

type Case struct {
	ID    int       `json:"id"`
	Start int       `json:"start"`
	Blks  []PlanBlk `json:"blks"` // index 0 unused (genesis)
	Tip0  int       `json:"tip0"` // initial best tip
	Proc  []int     `json:"proc"` // plan indices processed initially
	Ops   []Ev      `json:"ops"`
	coq   string
	note  string
}

// ---- fakes -------------------------------------------------------------------------------------------

type memBlockTxs struct {
	sync.Mutex
	m      map[bitcoin.Hash32][]bitcoin.Hash32
	order  []bitcoin.Hash32
	onNext func() // one-shot: runs inside the next lookup, before it answers
}

func (b *memBlockTxs) FetchBlockTxIDs(ctx context.Context, h bitcoin.Hash32) ([]bitcoin.Hash32, bool, error) {
	b.Lock()
	f := b.onNext
	b.onNext = nil
	b.Unlock()
	if f != nil {
		f()
	}
	b.Lock()
	defer b.Unlock()
	l, ok := b.m[h]
	return l, ok, nil
}
func (b *memBlockTxs) AppendBlockTxIDs(ctx context.Context, h bitcoin.Hash32, l []bitcoin.Hash32) error {
	b.Lock()
	defer b.Unlock()
	if _, ok := b.m[h]; !ok {
		b.order = append(b.order, h)
	} else {
		b.order = append(b.order, h) // recorded twice: the model will not agree
	}
	b.m[h] = l
	return nil
}

type spyProc struct {
	sync.Mutex
	heights map[bitcoin.Hash32]int // txid -> height passed to ConfirmTx
}

func (s *spyProc) ProcessTx(ctx context.Context, tx *wire.MsgTx) (bool, error) { return true, nil }
func (s *spyProc) CancelTx(ctx context.Context, t bitcoin.Hash32) error          { return nil }
func (s *spyProc) AddTxConflict(ctx context.Context, a, b bitcoin.Hash32) error  { return nil }
func (s *spyProc) UpdateTxChainDepth(ctx context.Context, t bitcoin.Hash32, d uint32) error {
	return nil
}
func (s *spyProc) ConfirmTx(ctx context.Context, txid bitcoin.Hash32, h int, p *merkle_proof.MerkleProof) error {
	s.Lock()
	s.heights[txid] = h
	s.Unlock()
	return nil
}
func (s *spyProc) ProcessCoinbaseTx(ctx context.Context, b bitcoin.Hash32, tx *wire.MsgTx) error {
	return nil
}

type pendingReq struct {
	hash    bitcoin.Hash32
	handler bitcoin_reader.HandleBlock
	onStop  bitcoin_reader.OnStop
	cancel  *canceller
}

type canceller struct {
	id        uuid.UUID
	src       *source
	cancelled chan struct{}
	once      sync.Once
}

func (c *canceller) ID() uuid.UUID { return c.id }
func (c *canceller) CancelBlockRequest(ctx context.Context, h bitcoin.Hash32) bool {
	c.once.Do(func() { close(c.cancelled) })
	c.src.Lock()
	if c.src.pending != nil && c.src.pending.cancel == c {
		c.src.pending = nil
	}
	c.src.Unlock()
	return false // the handler had not started
}

// source is the fake block source (BlockRequestor): it accepts a request and holds it until the
// script decides what the "node" does with it.
type source struct {
	sync.Mutex
	requests []bitcoin.Hash32 // consecutive repeats removed
	calls    int
	noNode   int // the next calls answer "no node available"
	pending  *pendingReq
	wake     chan struct{}
}

func (s *source) signal() {
	select {
	case s.wake <- struct{}{}:
	default:
	}
}

func (s *source) RequestBlock(ctx context.Context, hash bitcoin.Hash32, handler bitcoin_reader.HandleBlock,
	onStop bitcoin_reader.OnStop) (bitcoin_reader.BlockRequestCanceller, error) {
	s.Lock()
	defer s.Unlock()
	s.calls++
	if len(s.requests) == 0 || !s.requests[len(s.requests)-1].Equal(&hash) {
		s.requests = append(s.requests, hash)
	}
	if s.noNode > 0 {
		s.noNode--
		return nil, bitcoin_reader.ErrNodeNotAvailable
	}
	c := &canceller{id: uuid.New(), src: s, cancelled: make(chan struct{})}
	s.pending = &pendingReq{hash: hash, handler: handler, onStop: onStop, cancel: c}
	s.signal()
	return c, nil
}

// ---- one case ---------------------------------------------------------------------------------------------

type world struct {
	ctx    context.Context
	c      *Case
	repo   *headers.Repository
	hdrs   []*wire.BlockHeader
	txs    [][]*wire.MsgTx
	ids    map[bitcoin.Hash32]int
	height []int
	subm   []bool
	btx    *memBlockTxs
	proc   *spyProc
	src    *source
	nm     *bitcoin_reader.NodeManager
	idle   chan struct{}
	first  bool
}

func (w *world) id(h bitcoin.Hash32) int {
	if v, ok := w.ids[h]; ok {
		return v
	}
	return 999999
}

func blkTxs(caseID, i int) []*wire.MsgTx {
	var txs []*wire.MsgTx
	for j := 0; j < 2+i%2; j++ {
		tx := wire.NewMsgTx(1)
		tx.LockTime = uint32(caseID*100000 + i*10 + j)
		txs = append(txs, tx)
	}
	return txs
}

func newWorld(c *Case) *world {
	w := &world{ctx: coqfmt.QuietContext(), c: c, ids: map[bitcoin.Hash32]int{}, first: true}
	w.repo = headers.NewRepository(headers.DefaultConfig(), storage.NewMockStorage())
	w.repo.DisableDifficulty()
	w.repo.InitializeWithGenesis()
	g, _ := w.repo.Header(w.ctx, 0)
	n := len(c.Blks)
	w.hdrs = make([]*wire.BlockHeader, n)
	w.txs = make([][]*wire.MsgTx, n)
	w.height = make([]int, n)
	w.subm = make([]bool, n)
	w.hdrs[0] = g
	w.subm[0] = true
	w.ids[*g.BlockHash()] = 1
	for i := 1; i < n; i++ {
		p := c.Blks[i].P
		w.height[i] = w.height[p] + 1
		w.txs[i] = blkTxs(c.ID, i)
		tree := merkle_proof.NewMerkleTree(false)
		for _, tx := range w.txs[i] {
			tree.AddHash(*tx.TxHash())
		}
		bits := uint32(0x1d00ffff)
		if c.Blks[i].Heavy {
			bits = 0x1c0fffff
		}
		w.hdrs[i] = &wire.BlockHeader{Version: 1, PrevBlock: *w.hdrs[p].BlockHash(), MerkleRoot: tree.RootHash(),
			Timestamp: 1231006505 + uint32(600*w.height[i]) + uint32(i), Bits: bits, Nonce: uint32(i)}
		w.ids[*w.hdrs[i].BlockHash()] = i + 1
	}
	w.btx = &memBlockTxs{m: map[bitcoin.Hash32][]bitcoin.Hash32{}}
	w.proc = &spyProc{heights: map[bitcoin.Hash32]int{}}
	w.src = &source{wake: make(chan struct{}, 1)}
	cfg := bitcoin_reader.DefaultConfig()
	cfg.StartBlockHeight = c.Start
	w.nm = bitcoin_reader.NewNodeManager("/verif:1/", cfg, w.repo, nil)
	return w
}

// setChain submits whatever is missing so that plan block tip becomes the best tip.
func (w *world) setChain(tip int) bool {
	var path []int
	for i := tip; i != 0; i = w.c.Blks[i].P {
		path = append([]int{i}, path...)
	}
	for _, i := range path {
		if !w.subm[i] {
			if err := w.repo.ProcessHeader(w.ctx, w.hdrs[i]); err != nil {
				return false
			}
			w.subm[i] = true
		}
	}
	last := w.repo.LastHash()
	return last.Equal(w.hdrs[tip].BlockHash())
}

func (w *world) chain() []int {
	var l []int
	for h := 0; h <= w.repo.Height(); h++ {
		x, err := w.repo.Hash(w.ctx, h)
		if err != nil || x == nil {
			l = append(l, 999998)
			continue
		}
		l = append(l, w.id(*x))
	}
	return l
}

// watchIdle signals on w.idle when no synchronisation thread is running any more.
func (w *world) watchIdle() {
	w.idle = make(chan struct{})
	ch := w.idle
	go func() {
		w.nm.VerifWaitBlockSync()
		close(ch)
	}()
}

// rest waits until the implementation has a held request for a block other than `not`, or is
// idle; it returns the pending request (nil when idle or nothing happened in time).
func (w *world) rest(d time.Duration, changedFrom *pendingReq) *pendingReq {
	deadline := time.After(d)
	for {
		w.src.Lock()
		p := w.src.pending
		w.src.Unlock()
		if p != nil && p != changedFrom {
			return p
		}
		select {
		case <-w.idle:
			// the thread ended; a request may have been registered just before
			w.src.Lock()
			p := w.src.pending
			w.src.Unlock()
			if p != changedFrom {
				return p
			}
			return nil
		case <-w.src.wake:
		case <-time.After(5 * time.Millisecond):
		case <-deadline:
			return nil
		}
	}
}

func (w *world) deliver(p *pendingReq, kind string) {
	i := w.id(p.hash) - 1
	hdr, txs := w.hdrs[i], w.txs[i]
	switch kind {
	case "wrong":
		j := 1 + (i % (len(w.hdrs) - 1))
		if j == i {
			j = 1 + ((i + 1) % (len(w.hdrs) - 1))
		}
		if j == i { // there is no other block in this history: fail by dropping instead
			kind = "drop"
		} else {
			hdr, txs = w.hdrs[j], w.txs[j]
		}
	}
	n := len(txs)
	send := n
	if kind == "drop" {
		send = n - 1
	}
	ch := make(chan *wire.MsgTx, n)
	for k := 0; k < send; k++ {
		ch <- txs[k]
	}
	close(ch)
	go p.handler(w.ctx, hdr, uint64(n), ch)
}

func runCase(c *Case) {
	w := newWorld(c)
	ctx := w.ctx
	if !w.setChain(c.Tip0) {
		c.note = "setup"
	}
	chain0 := w.chain()
	var proc0 []string
	for _, i := range c.Proc {
		w.btx.m[*w.hdrs[i].BlockHash()] = nil
		proc0 = append(proc0, fmt.Sprint(i+1))
	}
	bm := bitcoin_reader.NewBlockManager(w.btx, w.src, 1, 15*time.Millisecond)
	w.nm.SetBlockManager(w.btx, bm, w.proc)
	bmInterrupt := make(chan interface{})
	bmDone := make(chan struct{})
	go func() { bm.Run(ctx, bmInterrupt); close(bmDone) }()
	w.idle = make(chan struct{})
	close(w.idle)

	var evs []string
	var lastDone *bitcoin.Hash32 // the block whose download completed last
	for _, e := range c.Ops {
		switch e.K {
		case "chain":
			if !w.setChain(e.Tip) {
				c.note = "chain change did not take"
			}
			ch := w.chain()
			s := make([]string, len(ch))
			for i, x := range ch {
				s[i] = fmt.Sprint(x)
			}
			evs = append(evs, "EChain "+coqfmt.List(s))
		case "trigger":
			w.src.Lock()
			before := w.src.pending
			w.src.Unlock()
			running := false
			select {
			case <-w.idle:
			default:
				running = true
			}
			var walkChain []string
			if e.WalkTip != 0 && !running {
				tip := e.WalkTip
				w.btx.Lock()
				w.btx.onNext = func() {
					if !w.setChain(tip) {
						c.note = "chain change during the walk did not take"
					}
					for _, x := range w.chain() {
						walkChain = append(walkChain, fmt.Sprint(x))
					}
					w.nm.TriggerBlockSynchronize(ctx)
				}
				w.btx.Unlock()
			}
			if !running {
				w.watchIdleAfter(func() {
					if w.first {
						w.first = false
						w.nm.VerifStartBlockSync(ctx)
					} else {
						w.nm.TriggerBlockSynchronize(ctx)
					}
				})
				w.rest(3*time.Second, before)
			} else {
				w.nm.TriggerBlockSynchronize(ctx)
			}
			evs = append(evs, "ETrigger")
			if walkChain != nil {
				evs = append(evs, "EChain "+coqfmt.List(walkChain), "ETrigger")
			} else if e.WalkTip != 0 && !running {
				// the round made no lookup at all (tip below the start height), so the hook did not
				// run: the headers and their trigger arrive right after the round instead
				w.btx.Lock()
				w.btx.onNext = nil
				w.btx.Unlock()
				w.rest(500*time.Millisecond, nil)
				if !w.setChain(e.WalkTip) {
					c.note = "chain change did not take"
				}
				var ch []string
				for _, x := range w.chain() {
					ch = append(ch, fmt.Sprint(x))
				}
				w.src.Lock()
				before2 := w.src.pending
				w.src.Unlock()
				w.watchIdleAfter(func() { w.nm.TriggerBlockSynchronize(ctx) })
				w.rest(3*time.Second, before2)
				evs = append(evs, "EChain "+coqfmt.List(ch), "ETrigger")
			}
		case "success", "fail":
			w.src.Lock()
			p := w.src.pending
			if p != nil && e.K == "fail" && e.Kind == "nonode" {
				w.src.noNode = 3
			}
			if p != nil && e.K == "fail" && e.Kind == "outage" {
				// a long outage (12 polls without any node, below the manager's limit of 20) after a
				// download that was active long enough to be seen by a poll, and then dropped
				w.src.noNode = 12
			}
			w.src.pending = nil
			w.src.Unlock()
			if p == nil {
				continue // nothing is pending: not an event of this history
			}
			kind := "ok"
			if e.K == "fail" {
				kind = e.Kind
				if kind == "nonode" {
					kind = "drop"
				}
				if kind == "outage" {
					kind = "drop"
				}
				// a download that fails was active for a while: twenty poll intervals, so that a
				// poll of the block manager sees it even on a heavily loaded machine (the manager
				// gives up - by design - after 20 polls in a row without an active download;
				// failures delivered faster than its polls would add up to that)
				time.Sleep(300 * time.Millisecond)
			}
			w.deliver(p, kind)
			if kind == "ok" {
				h := p.hash
				lastDone = &h
			}
			again := w.rest(6*time.Second, nil)
			if e.K == "fail" && again == nil {
				// recovery: after a failed attempt the same block has to be requested again
				select {
				case <-w.idle:
				default:
					c.note = "no new request within 6 s after a failed download"
				}
			}
			if e.K == "success" {
				evs = append(evs, "ESuccess")
			} else {
				evs = append(evs, "EFail")
			}
		case "late":
			w.src.Lock()
			p := w.src.pending
			w.src.Unlock()
			if p == nil || lastDone == nil || lastDone.Equal(&p.hash) {
				continue // not an event of this history
			}
			bm.VerifFinishDownloader(ctx, *lastDone, nil)
			w.rest(300*time.Millisecond, p) // nothing is due: the pending request stays
			evs = append(evs, "ELate")
		case "tick":
			// the 10 s poll: wait until the pending request is cancelled (or 13 s)
			w.src.Lock()
			p := w.src.pending
			w.src.Unlock()
			if p == nil {
				continue
			}
			select {
			case <-p.cancel.cancelled:
			case <-time.After(13 * time.Second):
				c.note = "no abort within 13 s"
			}
			w.rest(3*time.Second, p)
			evs = append(evs, "ETick")
		}
	}
	time.Sleep(40 * time.Millisecond)
	idle := false
	select {
	case <-w.idle:
		idle = true
	default:
	}
	// observations
	w.src.Lock()
	reqs := make([]string, len(w.src.requests))
	hts := []string{}
	for i, h := range w.src.requests {
		reqs[i] = fmt.Sprint(w.id(h))
	}
	w.src.Unlock()
	w.btx.Lock()
	var processed, final []string
	final = append(final, proc0...)
	for _, h := range w.btx.order {
		processed = append(processed, fmt.Sprint(w.id(h)))
		final = append(final, fmt.Sprint(w.id(h)))
	}
	w.btx.Unlock()
	// the heights handed down with the requests: known for the blocks that were confirmed
	w.proc.Lock()
	for _, h := range w.src.requests {
		i := w.id(h) - 1
		if i >= 1 && i < len(w.txs) {
			if ht, ok := w.proc.heights[*w.txs[i][1].TxHash()]; ok {
				hts = append(hts, fmt.Sprint(ht))
				continue
			}
		}
		hts = append(hts, "-")
	}
	w.proc.Unlock()
	// shut down
	w.nm.VerifStopBlockSync(ctx)
	close(bmInterrupt)
	select {
	case <-bmDone:
	case <-time.After(5 * time.Second):
		c.note = "block manager did not stop"
	}
	ch0 := make([]string, len(chain0))
	for i, x := range chain0 {
		ch0[i] = fmt.Sprint(x)
	}
	// heights: "-" (unknown: block never confirmed) is replaced by the model's own value in Coq by
	// passing the mask list
	htn := make([]string, len(hts))
	known := make([]string, len(hts))
	for i, h := range hts {
		if h == "-" {
			htn[i], known[i] = "0%nat", "false"
		} else {
			htn[i], known[i] = h+"%nat", "true"
		}
	}
	if c.note != "" {
		reqs = append(reqs, "999990") // harness-level trouble: force a mismatch
	}
	c.coq = fmt.Sprintf("(mkYCase %d%%nat %s %s\n  %s\n  %s %s %s %s %s %s)", c.Start, coqfmt.List(ch0), coqfmt.List(proc0),
		coqfmt.List(evs), coqfmt.List(reqs), coqfmt.List(htn), coqfmt.List(known), coqfmt.List(processed), coqfmt.List(final), coqfmt.Bool(idle))
}

// watchIdleAfter starts the idle watcher after f has started the thread.
func (w *world) watchIdleAfter(f func()) {
	f()
	w.watchIdle()
}

// ---- generation --------------------------------------------------------------------------------------------

// mirror of the plan computation, used only to produce scripts whose events apply
func planOf(chain []int, start int, proc map[int]bool) []int {
	H := len(chain) - 1
	if H < start || proc[chain[H]] {
		return nil
	}
	p := []int{chain[H]}
	for h := H; h > start; h-- {
		if proc[chain[h-1]] {
			break
		}
		p = append([]int{chain[h-1]}, p...)
	}
	return p
}

func genCase(r *coqfmt.Rand, id int, tier string) Case {
	c := Case{ID: id, Start: 1 + r.Intn(4)}
	c.Blks = make([]PlanBlk, 1)
	height := []int{0}
	add := func(p int, heavy bool) int {
		c.Blks = append(c.Blks, PlanBlk{P: p, Heavy: heavy})
		height = append(height, height[p]+1)
		return len(c.Blks) - 1
	}
	chainTo := func(tip int) []int {
		var l []int
		for i := tip; ; i = c.Blks[i].P {
			l = append([]int{i}, l...)
			if i == 0 {
				break
			}
		}
		return l
	}
	// initial main chain: around the start height (below, at, above)
	n0 := c.Start - 1 + r.Intn(6)
	if r.Chance(1, 5) {
		n0 = c.Start // tip exactly at the start height (D15)
	}
	tip := 0
	for i := 0; i < n0; i++ {
		tip = add(tip, false)
	}
	c.Tip0 = tip
	chain := chainTo(tip)
	proc := map[int]bool{}
	// initially processed: a prefix from the start height, or a random subset, or nothing
	switch r.Intn(4) {
	case 0:
		for h := c.Start; h < len(chain) && r.Chance(2, 3); h++ {
			proc[chain[h]] = true
			c.Proc = append(c.Proc, chain[h])
		}
	case 1:
		for h := 1; h < len(chain); h++ {
			if r.Chance(1, 4) {
				proc[chain[h]] = true
				c.Proc = append(c.Proc, chain[h])
			}
		}
	}
	var rem []int // remaining plan of the running round
	flag := false
	ticks := 0
	startRound := func() {
		rem = planOf(chain, c.Start, proc)
		if len(rem) == 0 && flag {
			flag = false
			rem = planOf(chain, c.Start, proc)
		}
	}
	endRound := func() {
		rem = nil
		if flag {
			flag = false
			rem = planOf(chain, c.Start, proc)
		}
	}
	steps := 6 + r.Intn(14)
	for s := 0; s < steps; s++ {
		if len(rem) == 0 {
			// idle: grow or reorg the chain, then trigger
			switch r.Intn(5) {
			case 0, 1:
				k := 1 + r.Intn(3)
				for i := 0; i < k; i++ {
					tip = add(tip, c.Blks[tip].Heavy)
				}
				chain = chainTo(tip)
				c.Ops = append(c.Ops, Ev{K: "chain", Tip: tip})
			case 2:
				if len(chain) > 2 { // heavy fork from a few blocks below the tip
					at := chain[len(chain)-1-(1+r.Intn(min(3, len(chain)-1)))]
					t := add(at, true)
					for i := 0; i < r.Intn(3); i++ {
						t = add(t, true)
					}
					if !c.Blks[tip].Heavy {
						tip = t
						chain = chainTo(tip)
						c.Ops = append(c.Ops, Ev{K: "chain", Tip: tip})
					}
				}
			}
			if r.Chance(1, 5) { // new headers and their trigger arrive while the round is still walking back
				startRound()
				k := 1 + r.Intn(2)
				for i := 0; i < k; i++ {
					tip = add(tip, c.Blks[tip].Heavy)
				}
				chain = chainTo(tip)
				c.Ops = append(c.Ops, Ev{K: "trigger", WalkTip: tip})
				flag = true
				if len(rem) == 0 {
					endRound()
				}
				continue
			}
			c.Ops = append(c.Ops, Ev{K: "trigger"})
			startRound()
			continue
		}
		switch r.Pick(55, 18, 12, 8, 7) {
		case 0:
			c.Ops = append(c.Ops, Ev{K: "success"})
			proc[rem[0]] = true
			rem = rem[1:]
			if len(rem) == 0 {
				endRound()
			} else if r.Chance(1, 3) {
				// the download thread of the block just processed ends late: its completion
				// callback reaches the manager while the next block's request is pending
				c.Ops = append(c.Ops, Ev{K: "late"})
			}
		case 1:
			c.Ops = append(c.Ops, Ev{K: "fail", Kind: []string{"drop", "wrong", "nonode"}[r.Intn(3)]})
			if r.Chance(1, 5) { // two long outages around a slow failing download, for the same block
				c.Ops[len(c.Ops)-1].Kind = "outage"
				c.Ops = append(c.Ops, Ev{K: "fail", Kind: "outage"})
			}
		case 2: // new headers while a request is pending, then the trigger MonitorHeaders would give
			k := 1 + r.Intn(2)
			for i := 0; i < k; i++ {
				tip = add(tip, c.Blks[tip].Heavy)
			}
			chain = chainTo(tip)
			c.Ops = append(c.Ops, Ev{K: "chain", Tip: tip}, Ev{K: "trigger"})
			flag = true
		case 3: // the pending block leaves the best chain
			if ticks >= 1 || c.Blks[tip].Heavy || len(chain) < 3 {
				c.Ops = append(c.Ops, Ev{K: "trigger"})
				flag = true
				continue
			}
			ticks++
			pend := rem[0]
			at := c.Blks[pend].P
			if r.Chance(1, 2) && at != 0 {
				at = c.Blks[at].P
			}
			t := add(at, true)
			for height[t] < height[tip]-1+r.Intn(2) {
				t = add(t, true)
			}
			tip = t
			chain = chainTo(tip)
			c.Ops = append(c.Ops, Ev{K: "chain", Tip: tip})
			if r.Chance(3, 4) {
				c.Ops = append(c.Ops, Ev{K: "trigger"})
				flag = true
			}
			c.Ops = append(c.Ops, Ev{K: "tick"})
			endRound()
		default:
			c.Ops = append(c.Ops, Ev{K: "trigger"})
			flag = true
		}
	}
	_ = errors.New
	return c
}

func min(a, b int) int {
	if a < b {
		return a
	}
	return b
}

func main() {
	out := flag.String("out", "", "output directory")
	seed := flag.Uint64("seed", 1, "PRNG seed")
	n := flag.Int("n", 100, "number of generated cases")
	shards := flag.Int("shards", 8, "number of cases files")
	replay := flag.String("replay", "", "JSON file with cases to re-execute instead of generating")
	tier := flag.String("tier", "quick", "")
	flag.Parse()
	os.MkdirAll(*out, 0o755)
	var cases []Case
	if *replay != "" {
		if err := coqfmt.ReadJSON(*replay, &cases); err != nil {
			fmt.Fprintln(os.Stderr, err)
			os.Exit(2)
		}
	} else {
		r := coqfmt.NewRand(*seed)
		for i := 0; i < *n; i++ {
			cases = append(cases, genCase(r.Fork(uint64(i)), i, *tier))
		}
	}
	var wg sync.WaitGroup
	sem := make(chan struct{}, 32)
	for i := range cases {
		wg.Add(1)
		sem <- struct{}{}
		go func(i int) {
			defer wg.Done()
			defer func() { <-sem }()
			runCase(&cases[i])
		}(i)
	}
	wg.Wait()
	stats := map[string]int{}
	distinct := map[string]bool{}
	var coq []string
	var ids []int
	for _, c := range cases {
		for _, e := range c.Ops {
			stats["ev_"+e.K+e.Kind]++
		}
		if len(c.Blks)-1 >= 0 {
			stats[fmt.Sprintf("start_%d", c.Start)]++
		}
		if c.note != "" {
			stats["harness_note_"+c.note]++
		}
		distinct[c.coq] = true
		coq = append(coq, c.coq)
		ids = append(ids, c.ID)
	}
	k := *shards
	if k > len(coq) {
		k = len(coq)
	}
	if k < 1 {
		k = 1
	}
	index := make([][]int, k)
	for s := 0; s < k; s++ {
		var part []string
		for i := s; i < len(coq); i += k {
			part = append(part, coq[i])
			index[s] = append(index[s], ids[i])
		}
		coqfmt.WriteCases(filepath.Join(*out, fmt.Sprintf("cases_%d.v", s)), "From BR Require Import Base.Prelude Sync.Sync.", "ycase", "ymismatches", part)
	}
	coqfmt.WriteJSON(filepath.Join(*out, "cases.json"), cases)
	samples := []interface{}{}
	for i := 0; i < len(cases) && len(samples) < 2; i += len(cases)/2 + 1 {
		samples = append(samples, map[string]interface{}{"case": cases[i], "coq": cases[i].coq})
	}
	coqfmt.WriteJSON(filepath.Join(*out, "stats.json"), map[string]interface{}{
		"evaluations":         len(cases),
		"distinct_nontrivial": len(distinct),
		"rule":                "random block trees around a start height of 1..4 (tip below / exactly at / above it), initially processed sets (none, prefix from the start height, random subset), scripts of 6-20 events: chain growth or heavy-fork reorg + trigger when idle; success (55%), failed attempt (drop mid-block / wrong block / no node x3), new headers + trigger while pending, the pending block reorged away + 10 s orphan poll (at most once per case), bare trigger.  Real NodeManager, BlockManager (1 concurrent request, 15 ms poll) and BlockDownloaders over a real header repository; distinct = distinct case text",
		"distribution":        stats,
		"index":               index,
		"samples":             samples,
	})
}
